"""spyne/protocol/xml.py  ->  Gen/XsiGuard.v   (C04)

The xsi:type block of ``XmlDocument.from_element`` decides which class an
element is deserialised as.  This translator

  * checks that everything from ``if self.parse_xsi_type:`` to the end of
    ``from_element`` still BEHAVES like the code the hand-written model
    ``C04/XmlModel.v:resolve`` transcribes (split at the first ':',
    element.nsmap.get(prefix), the "{%s}%s" class key, interface.classes.get,
    ValidationError when either lookup fails, the handler dispatch on the
    resulting class): both are run by the symbolic executor of ``symexec.py``
    and must have the same decision table, so renamed locals, guard clauses,
    extracted private helpers of the class (inlined), comments and log / error
    messages do not matter;
  * turns the *decision* -- what replaces ``cls`` -- into a Gallina table

        xsi_target : same -> arr -> subof -> samename -> cplx -> XReject | XDeclared | XNew

    over the five tests the code makes (see C04/Guard.v), by evaluating
    ``_get_xsi_target`` on all 32 valuations of those tests.  Without the guard
    (``cls = newclass``) the table is constantly XNew.

A test that is none of the five, an outcome that is none of raise
ValidationError / return cls / return newclass, or a block that behaves like
neither reference raises TranslateError (fail closed).
"""
import ast, os, itertools, warnings
from .pyexpr import TranslateError, find_function
from . import symexec as SX

SRC = 'spyne/protocol/xml.py'

_REF = '''
if self.parse_xsi_type:
    xsi_type = element.get(XSI_TYPE, None)
    if xsi_type is not None:
        if ":" in xsi_type:
            prefix, objtype = xsi_type.split(':', 1)
        else:
            prefix, objtype = None, xsi_type
        ns = element.nsmap.get(prefix)
        if ns is not None:
            classkey = "{%%s}%%s" %% (ns, objtype)
        else:
            raise ValidationError(xsi_type)
        newclass = ctx.app.interface.classes.get(classkey, None)
        if newclass is None:
            raise ValidationError(xsi_type)
        cls = %s
handler = self.deserialization_handlers[cls]
return handler(ctx, cls, element)
'''
REFS = {'true': ast.parse(_REF % 'self._get_xsi_target(cls, newclass, xsi_type)').body,
        'false': ast.parse(_REF % 'newclass').body}

_ORIG = ("    sup = getattr(cls, '__orig__', None) or cls\n"
         "    sub = getattr(newclass, '__orig__', None) or newclass\n")
TESTS = {
    'same': ['sub is sup', 'sup is sub'],
    'arr': ['issubclass(sup, Array)'],
    'subof': ['issubclass(sub, sup)'],
    'cplx': ['issubclass(sup, ComplexModelBase)'],
    'samename': ['(newclass.get_namespace(), newclass.get_type_name()) == (cls.get_namespace(), cls.get_type_name())',
                 '(cls.get_namespace(), cls.get_type_name()) == (newclass.get_namespace(), newclass.get_type_name())'],
}
ORDER = ['same', 'arr', 'subof', 'samename', 'cplx']


def known_atoms():
    out = {}
    m = SX.Machine()
    for name, tests in TESTS.items():
        for t in tests:
            fn = ast.parse("def f(cls, newclass, xsi_type):\n" + _ORIG + "    if %s:\n        return 1\n    return 0\n" % t).body[0]
            body, env = SX.fn_program(fn, skip_self=False)
            tab = m.table(body, env)
            atoms = set(a for c, _ in tab for a in c)
            if len(atoms) != 1:
                raise TranslateError('internal: reference test %r is not one atom' % t)
            out[atoms.pop()] = name
    return out


def tr_target(fn):
    names = [a.arg for a in fn.args.args]
    if names and names[0] == 'self':
        names = names[1:]
    if len(names) != 3:
        raise TranslateError('_get_xsi_target: unexpected signature %r' % (names,))
    m = SX.Machine()
    body, env = SX.fn_program(fn)
    tab = m.table(body, env)
    known = known_atoms()
    for cond, _ in tab:
        for a in cond:
            if a not in known:
                raise TranslateError('_get_xsi_target makes a test that is none of the five known ones: %s' % a[:160])
    byname = dict((v, [k for k in known if known[k] == v]) for v in ORDER)
    a0 = SX.canon(ast.Name(id='a0', ctx=ast.Load()))
    a1 = SX.canon(ast.Name(id='a1', ctx=ast.Load()))
    rows = []
    for bits in itertools.product((True, False), repeat=5):
        val = {}
        for n, b in zip(ORDER, bits):
            for k in byname[n]:
                val[k] = b
        r = SX.lookup(tab, val)
        if r == ('raise', 'ValidationError'):
            d = 'XReject'
        elif r == ('return', a0):
            d = 'XDeclared'
        elif r == ('return', a1):
            d = 'XNew'
        else:
            raise TranslateError('_get_xsi_target: outcome %r is none of raise ValidationError / return cls / return newclass' % (r,))
        rows.append('  | %s => %s' % (', '.join('true' if b else 'false' for b in bits), d))
    return 'match same, arr, subof, samename, cplx with\n%s\n  end' % '\n'.join(rows)


def generate(repo):
    path = os.path.join(repo, SRC)
    with warnings.catch_warnings():
        warnings.simplefilter('ignore')
        tree = ast.parse(open(path).read())
    fe = find_function(tree, ['XmlDocument', 'from_element'])
    names = [x.arg for x in fe.args.args]
    if names != ['self', 'ctx', 'cls', 'element']:
        raise TranslateError('from_element: unexpected signature %r' % (names,))
    idx = [i for i, s in enumerate(fe.body) if isinstance(s, ast.If)
           and SX.canon(s.test) == SX.canon(ast.parse('self.parse_xsi_type', mode='eval').body)]
    if len(idx) != 1:
        raise TranslateError('from_element: expected exactly one "if self.parse_xsi_type:"')
    helpers = SX.class_helpers(tree, 'XmlDocument')
    m = SX.Machine(helpers=helpers, opaque=('_get_xsi_target',), consts={})
    tab = m.table(fe.body[idx[0]:], {})
    hits = [k for k, ref in REFS.items() if SX.equivalent(tab, SX.Machine(opaque=('_get_xsi_target',)).table(ref, {}))]
    if len(hits) != 1:
        raise TranslateError('from_element: from "if self.parse_xsi_type:" on, the code behaves like neither recognised variant')
    guarded = hits[0]
    if guarded == 'true':
        if '_get_xsi_target' not in helpers:
            raise TranslateError('XmlDocument._get_xsi_target not found')
        table = tr_target(helpers['_get_xsi_target'])
    else:
        table = 'XNew'
    text = ('(* generated by harness/translate/xsitype.py from %s -- do not edit *)\n'
            'From SpyneV Require Import C04.Guard.\n\n'
            '(** does from_element pass the registered class through _get_xsi_target? *)\n'
            'Definition xsi_guarded : bool := %s.\n\n'
            '(** what replaces [cls] once interface.classes returned a class for the xsi:type *)\n'
            'Definition xsi_target : xsi_table := fun same arr subof samename cplx =>\n  %s.\n' % (SRC, guarded, table))
    return {'XsiGuard.v': text}
