"""spyne/server/null.py, spyne/application.py, spyne/descriptor.py, spyne/server/_base.py,
spyne/protocol/xml.py, spyne/protocol/soap/soap11.py, spyne/protocol/dictdoc/hier.py, spyne/const  ->  Gen/NullSrv.v   (C18)

What is translated (everything else in those functions is matched rigidly, statement by
statement, and any unknown shape raises TranslateError):

  descriptor.MethodDescriptor.is_out_bare      the tuple of body styles           is_out_bare_styles
  null._cb_sync                                the if/elif chain -> retval        cb_sync_chain, cb_sync_default
                                               the ostr block                     cb_ostr_normalises_ignored
  null._FunctionCall.__call__                  which field table sizes/names args null_ti_source
                                               the keyword loop                   null_kw_skips_none
                                               when get_serialization_instance    null_gsi_cond
  application.Application.process_request      in_object normalisation chain      pr_in_chain
                                               out_object wrapping condition      pr_wrap_out
                                               fire_event literals, in order      pr_events_*
  server._base.ServerBase.get_out_object /     Ignored handling chain             srv_ign_chain
      ignored_to_null
  protocol.xml.XmlDocument.serialize           non-wrapped: out_object / [0]      xml_nonwrapped
  protocol.soap.soap11.Soap11.serialize        non-wrapped: out_object / [0]      soap_nonwrapped
  protocol.dictdoc.hier.HierDictDocument       request body looked up under the   hier_bare_lookup
      .deserialize                             type name / the message name
  spyne.const                                  RESULT_SUFFIX, RESPONSE_SUFFIX     result_suffix, response_suffix
"""
import ast, os

from .pyexpr import TranslateError

STYLES = {'BODY_STYLE_WRAPPED': 'BWrapped', 'BODY_STYLE_EMPTY': 'BEmpty', 'BODY_STYLE_BARE': 'BBare',
          'BODY_STYLE_OUT_BARE': 'BOutBare', 'BODY_STYLE_EMPTY_OUT_BARE': 'BEmptyOutBare'}
EVENTS = {'method_call': 'MethodCall', 'method_return_object': 'MethodReturnObject',
          'method_exception_object': 'MethodExceptionObject', 'method_context_closed': 'MethodContextClosed',
          'method_return_document': 'MethodReturnDocument', 'method_return_string': 'MethodReturnString',
          'method_exception_document': 'MethodExceptionDocument', 'method_exception_string': 'MethodExceptionString'}
CMPOPS = {ast.Eq: 'OpEq', ast.NotEq: 'OpNe', ast.Lt: 'OpLt', ast.LtE: 'OpLe', ast.Gt: 'OpGt', ast.GtE: 'OpGe'}


def U(n):
    return ast.unparse(n)


def fail(what, node=None):
    raise TranslateError('%s%s' % (what, '' if node is None else ': ' + U(node)[:160]))


def gtext(s):
    return '[' + '; '.join(str(ord(c)) for c in s) + ']'


def parse(repo, rel):
    p = os.path.join(repo, rel)
    with open(p) as f:
        return ast.parse(f.read(), p)


def find(body, kind, name):
    hits = [n for n in body if isinstance(n, kind) and n.name == name]
    if len(hits) != 1:
        fail('expected exactly one %s named %s, found %d' % (kind.__name__, name, len(hits)))
    return hits[0]


def code(stmts):
    """statements without docstrings, `pass`, and calls on a logger (logging has no effect on ctx)"""
    out = []
    for s in stmts:
        if isinstance(s, ast.Expr) and isinstance(s.value, ast.Constant) and isinstance(s.value.value, str):
            continue
        if isinstance(s, ast.Expr) and isinstance(s.value, ast.Call) and isinstance(s.value.func, ast.Attribute) \
                and isinstance(s.value.func.value, ast.Name) and s.value.func.value.id.startswith('logger'):
            continue
        out.append(s)
    return out



# ------------------------------------------------------------------ normalisation helpers
class _Subst(ast.NodeTransformer):
    """replace loads of alias names by the pure expression they were bound to"""

    def __init__(self, aliases):
        self.aliases = aliases

    def visit_Name(self, n):
        if isinstance(n.ctx, ast.Load) and n.id in self.aliases:
            return ast.parse(self.aliases[n.id], mode='eval').body
        return n


def subst(node, aliases):
    if not aliases:
        return node
    import copy
    return ast.fix_missing_locations(_Subst(aliases).visit(copy.deepcopy(node)))


def pmatch(pattern, node, binds):
    """structural match of a statement / expression against a pattern given as source text in which
    names starting with M_ are metavariables standing for a local variable name (consistently:
    alpha-renaming of locals).  Returns True and extends binds, or False."""
    pt = ast.parse(pattern).body
    pt = pt[0] if len(pt) == 1 else pt
    if isinstance(pt, ast.Expr) and not isinstance(node, ast.Expr):
        pt = pt.value
    trial = dict(binds)
    if _pm(pt, node, trial):
        binds.clear()
        binds.update(trial)
        return True
    return False


def _pm(p, n, b):
    if isinstance(p, ast.Name) and p.id.startswith('M_'):
        if not isinstance(n, ast.Name):
            return False
        if p.id in b:
            return b[p.id] == n.id
        if n.id in b.values():
            return False          # two metavariables never share a local
        b[p.id] = n.id
        return True
    if type(p) is not type(n):
        return False
    if isinstance(p, ast.AST):
        for f in p._fields:
            if f in ('ctx', 'type_comment', 'kind'):
                continue
            if not _pm(getattr(p, f, None), getattr(n, f, None), b):
                return False
        return True
    if isinstance(p, list):
        return len(p) == len(n) and all(_pm(x, y, b) for x, y in zip(p, n))
    return p == n


def pure_alias(s, allowed):
    """`name = <pure attribute read>` with the right-hand side one of `allowed` -> (name, rhs) or None"""
    if isinstance(s, ast.Assign) and len(s.targets) == 1 and isinstance(s.targets[0], ast.Name) and U(s.value) in allowed:
        return s.targets[0].id, U(s.value)
    return None


# ------------------------------------------------------------------ conditions
IGN_HEAD = ['isinstance({o}, (list, tuple))', 'len({o}) > 0', 'isinstance({o}[0], Ignored)']


def cond(n, ctx='ctx'):
    """a Python condition over ctx.out_object / ctx.descriptor -> Coq term of type cond"""
    o = ctx + '.out_object'
    d = ctx + '.descriptor'
    if isinstance(n, ast.BoolOp) and isinstance(n.op, ast.And) and \
            [U(v) for v in n.values] == [s.format(o=o) for s in IGN_HEAD]:
        return 'CIgnoredHead'
    if isinstance(n, ast.BoolOp) and len(n.values) == 2:
        a, b = cond(n.values[0], ctx), cond(n.values[1], ctx)
        return '(%s %s %s)' % ('COr' if isinstance(n.op, ast.Or) else 'CAnd', a, b)
    if isinstance(n, ast.UnaryOp) and isinstance(n.op, ast.Not):
        return '(CNot %s)' % cond(n.operand, ctx)
    if U(n) == 'isinstance(%s, Ignored)' % o:
        return 'CIsIgnored'
    if U(n) == '%s.is_out_bare()' % d:
        return 'CIsOutBare'
    if isinstance(n, ast.Compare) and len(n.ops) == 1:
        l, op, r = n.left, n.ops[0], n.comparators[0]
        if U(l) == '%s.body_style' % d and isinstance(r, ast.Name) and r.id in STYLES:
            if isinstance(op, (ast.Is, ast.Eq)):
                return '(CStyleIs %s)' % STYLES[r.id]
            if isinstance(op, (ast.IsNot, ast.NotEq)):
                return '(CStyleIsNot %s)' % STYLES[r.id]
        if U(l) == 'len(%s.out_message._type_info)' % d and isinstance(r, ast.Constant) \
                and isinstance(r.value, int) and not isinstance(r.value, bool) and type(op) in CMPOPS:
            return '(CLenOut %s %d)' % (CMPOPS[type(op)], r.value)
    fail('unrecognised condition', n)


def if_chain(node, action, aliases=None):
    """If/elif/.../else -> ([(cond, act)], else_body or None); action(body) -> coq text.
    aliases: locals bound to a pure read before the chain, substituted in the tests"""
    rows = []
    while True:
        rows.append((cond(subst(node.test, aliases)), action(code(node.body))))
        if len(node.orelse) == 1 and isinstance(node.orelse[0], ast.If):
            node = node.orelse[0]
            continue
        return rows, (code(node.orelse) if node.orelse else None)


def single_assign(body, target):
    if len(body) != 1 or not isinstance(body[0], ast.Assign) or len(body[0].targets) != 1 \
            or U(body[0].targets[0]) != target:
        fail('expected a single assignment to %s' % target, body[0] if body else None)
    return body[0].value


def gchain(rows):
    return '[' + '; '.join('(%s, %s)' % r for r in rows) + ']'


# ------------------------------------------------------------------ descriptor.is_out_bare
def tr_is_out_bare(repo):
    t = parse(repo, 'spyne/descriptor.py')
    fn = find(find(t.body, ast.ClassDef, 'MethodDescriptor').body, ast.FunctionDef, 'is_out_bare')
    body = code(fn.body)
    if len(body) != 1 or not isinstance(body[0], ast.Return):
        fail('is_out_bare: not a single return')
    e = body[0].value
    if not (isinstance(e, ast.Compare) and len(e.ops) == 1 and isinstance(e.ops[0], ast.In)
            and U(e.left) == 'self.body_style' and isinstance(e.comparators[0], (ast.Tuple, ast.List))):
        fail('is_out_bare: unexpected expression', e)
    names = []
    for x in e.comparators[0].elts:
        if not (isinstance(x, ast.Name) and x.id in STYLES):
            fail('is_out_bare: unknown style', x)
        names.append(STYLES[x.id])
    # the five style classes must exist and be distinct classes
    for k in STYLES:
        find(t.body, ast.ClassDef, k)
    return 'Definition is_out_bare_styles : list bstyle := [%s].' % '; '.join(names)


# ------------------------------------------------------------------ null.py
def cb_action(body):
    v = single_assign(body, 'retval')
    s = U(v)
    if s == 'ctx.out_object[0]':
        return 'AFirst'
    if s == 'None':
        return 'ANone'
    if s == 'ctx.out_object':
        return 'AWhole'
    fail('_cb_sync: unknown retval', v)


def tr_cb_sync(t):
    fn = find(t.body, ast.FunctionDef, '_cb_sync')
    if [a.arg for a in fn.args.args] != ['ctx', 'cnt', 'fc']:
        fail('_cb_sync: signature')
    body = code(fn.body)
    # `retval = None` before the chain is dead as long as the chain ends in an else (checked below)
    if body and U(body[0]) == 'retval = None':
        body = body[1:]
    if len(body) < 3 or U(body[-2]) != 'if cnt > 0:\n    ctx.close()' or U(body[-1]) != 'return retval' \
            or not isinstance(body[0], ast.If):
        fail('_cb_sync: unexpected statement sequence')
    top = body[0]
    if U(top.test) != 'ctx.out_error' or [U(s) for s in code(top.body)] != ['raise ctx.out_error']:
        fail('_cb_sync: error branch')
    # `if e: raise ... else: REST` and `if e: raise ...` followed by REST are the same
    rest = code(top.orelse) + body[1:-2]
    if len(rest) != 2 or not all(isinstance(s, ast.If) for s in rest):
        fail('_cb_sync: after the error branch there is not [if-chain, ostr block]')
    rows, els = if_chain(rest[0], cb_action)
    if els is None:
        fail('_cb_sync: chain has no else')
    default = cb_action(els)
    ostr = rest[1]
    if U(ostr.test) != 'cnt == 0 and fc._ostr' or ostr.orelse:
        fail('_cb_sync: ostr test', ostr.test)
    ob = [U(s) for s in code(ostr.body)]
    tail = ['fc._server.get_out_string(ctx)', 'retval = ctx.out_string']
    if ob == tail:
        norm = 'false'
    elif ob == ['fc._server.ignored_to_null(ctx)'] + tail:
        norm = 'true'
    else:
        fail('_cb_sync: ostr block %r' % (ob,))
    return ['Definition cb_sync_chain : list (cond * cb_act) := %s.' % gchain(rows),
            'Definition cb_sync_default : cb_act := %s.' % default,
            'Definition cb_ostr_normalises_ignored : bool := %s.' % norm]


def tr_function_call(t):
    fn = find(find(t.body, ast.ClassDef, '_FunctionCall').body, ast.FunctionDef, '__call__')
    loops = [s for s in code(fn.body) if isinstance(s, ast.For)]
    if len(loops) != 1 or U(loops[0].target) not in ('(cnt, ctx)', 'cnt, ctx') or U(loops[0].iter) != 'enumerate(contexts)':
        fail('__call__: context loop')
    after = [U(s) for s in code(fn.body)[code(fn.body).index(loops[0]) + 1:]]
    if after != ['if not self._async:\n    p_ctx.close()', 'return retval']:
        fail('__call__: statements after the loop %r' % (after,))
    body = code(loops[0].body)
    # a local bound to ctx.descriptor.in_message may stand for it in the packing statements
    aliases = {}
    k = 0
    al = pure_alias(body[0], ('ctx.descriptor.in_message',))
    if al:
        aliases[al[0]] = al[1]
        k = 1
    pk = [subst(x, aliases) for x in body[k:k + 5]]
    if len(pk) != 5:
        fail('__call__: packing statements missing')
    b = {}
    if pmatch('M_ti = ctx.descriptor.in_message._type_info', pk[0], b):
        ti = 'TIOwn'
    elif pmatch('M_ti = ctx.descriptor.in_message.get_flat_type_info(ctx.descriptor.in_message)', pk[0], b):
        ti = 'TIFlat'
    else:
        fail('__call__: how the field table is obtained', pk[0])
    if b['M_ti'] in aliases:
        fail('__call__: the field table rebinds the in_message alias')
    if not pmatch('ctx.in_object = [None] * len(M_ti)', pk[1], b):
        fail('__call__: in_object initialisation', pk[1])
    b1 = dict(b)
    if not (pmatch('for M_i in range(len(args)):\n    ctx.in_object[M_i] = args[M_i]', pk[2], b1)
            or pmatch('for M_i, M_a in enumerate(args):\n    ctx.in_object[M_i] = M_a', pk[2], b1)):
        fail('__call__: positional packing', pk[2])
    skip = None
    for it in ('enumerate(M_ti.keys())', 'enumerate(M_ti)'):
        for get in ('kwargs.get(M_k, None)', 'kwargs.get(M_k)'):
            if pmatch('for M_j, M_k in %s:\n    M_v = %s\n    if M_v is not None:\n        ctx.in_object[M_j] = M_v'
                      % (it, get), pk[3], dict(b)):
                skip = 'true'
        if pmatch('for M_j, M_k in %s:\n    if M_k in kwargs:\n        ctx.in_object[M_j] = kwargs[M_k]' % it,
                  pk[3], dict(b)):
            skip = 'false'
    if skip is None:
        fail('__call__: keyword packing', pk[3])
    g = pk[4]
    if not isinstance(g, ast.If) or g.orelse or [U(x) for x in code(g.body)] != [
            'ctx.in_object = ctx.descriptor.in_message.get_serialization_instance(ctx.in_object)']:
        fail('__call__: bare conversion', g)
    gc = cond(g.test)
    src = [U(x) for x in body]
    k = k + 1        # statements before the in_object initialisation; the fixed statements follow at k + 4
    rest = src[k + 4:]
    want = ['if cnt == 0:\n    p_ctx = ctx\nelse:\n    ctx.descriptor.aux.initialize_context(ctx, p_ctx, error=None)',
            None,
            None]
    if len(rest) != 3 or rest[0] != want[0]:
        fail('__call__: statements after the packing %r' % (rest[:1],))
    tr = body[k + 5]
    if not isinstance(tr, ast.Try) or [U(s) for s in code(tr.body)] != ['self.app.process_request(ctx)'] \
            or tr.handlers or tr.orelse or code(tr.finalbody):
        fail('__call__: the process_request call', tr)
    last = body[k + 6]
    if not isinstance(last, ast.If) or U(last.test) != 'cnt == 0' or last.orelse or len(code(last.body)) != 1:
        fail('__call__: result block', last)
    inner = code(last.body)[0]
    if not isinstance(inner, ast.If) or [U(s) for s in code(inner.orelse)] != ['retval = _cb_sync(ctx, cnt, self)'] \
            or not U(inner.test).startswith('self._async and '):
        fail('__call__: sync result', inner)
    return ['Definition null_ti_source : ti_source := %s.' % ti,
            'Definition null_kw_skips_none : bool := %s.' % skip,
            'Definition null_gsi_cond : cond := %s.' % gc]


# ------------------------------------------------------------------ application.process_request
def fire_literal(s):
    if isinstance(s, ast.Expr) and isinstance(s.value, ast.Call) and U(s.value.func) == 'ctx.fire_event' \
            and len(s.value.args) == 1 and not s.value.keywords and isinstance(s.value.args[0], ast.Constant) \
            and isinstance(s.value.args[0].value, str):
        return s.value.args[0].value
    return None


def gev(names):
    return '[' + '; '.join(EVENTS[n] if n in EVENTS else '(EvOther %s)' % gtext(n) for n in names) + ']'


def in_action(body):
    v = U(single_assign(body, 'ctx.in_object'))
    if v == '[ctx.in_object]':
        return 'InWrapList'
    if v == '[]':
        return 'InEmptyList'
    fail('process_request: unknown in_object normalisation %r' % v)


def tr_process_request(repo):
    t = parse(repo, 'spyne/application.py')
    fn = find(find(t.body, ast.ClassDef, 'Application').body, ast.FunctionDef, 'process_request')
    body = code(fn.body)
    if len(body) != 1 or not isinstance(body[0], ast.Try) or body[0].orelse or body[0].finalbody:
        fail('process_request: not a single try statement')
    tr = body[0]
    tb = code(tr.body)
    call = [i for i, s in enumerate(tb) if U(s) == 'ctx.out_object = self.call_wrapper(ctx)']
    if len(call) != 1:
        fail('process_request: the call_wrapper assignment')
    ci = call[0]
    before, chain_rows = [], None
    aliases = {}     # locals bound to ctx.descriptor.body_style before the user code runs
    for s in tb[:ci]:
        ev = fire_literal(s)
        al = pure_alias(s, ('ctx.descriptor.body_style',))
        if ev is not None:
            if chain_rows is not None:
                fail('process_request: event fired after the in_object normalisation', s)
            before.append(ev)
        elif al is not None and chain_rows is None:
            aliases[al[0]] = al[1]
        elif isinstance(s, ast.If) and chain_rows is None:
            chain_rows, els = if_chain(s, in_action, aliases)
            if els is not None:
                fail('process_request: in_object chain has an else')
        else:
            fail('process_request: unexpected statement before the call', s)
    if chain_rows is None:
        chain_rows = []
    rest = tb[ci + 1:]
    if len(rest) < 1 or not isinstance(rest[0], ast.If) or rest[0].orelse or \
            [U(s) for s in code(rest[0].body)] != ['ctx.out_object = [ctx.out_object]']:
        fail('process_request: the out_object wrapping', rest[0] if rest else None)
    wrap = cond(rest[0].test)
    after = []
    for s in rest[1:]:
        ev = fire_literal(s)
        if ev is not None:
            after.append(ev)
        elif U(s) == 'ctx.protocol = ctx.outprot_ctx':
            continue
        else:
            fail('process_request: unexpected statement after the call', s)
    hs = tr.handlers
    names = [U(h.type) if h.type is not None else None for h in hs]
    if names != ['Redirect', 'Fault', 'Exception']:
        fail('process_request: handlers %r' % (names,))

    def handler_events(h, assign):
        evs, seen = [], False
        for s in code(h.body):
            ev = fire_literal(s)
            if ev is not None:
                if not seen:
                    fail('process_request: event fired before ctx.out_error is set', s)
                evs.append(ev)
            elif U(s) == assign:
                seen = True
            elif isinstance(s, ast.If) and all(
                    isinstance(x, ast.Expr) and U(x).startswith('logger') for x in s.body + s.orelse):
                continue
            else:
                fail('process_request: unexpected statement in handler', s)
        if not seen:
            fail('process_request: handler does not set ctx.out_error')
        return evs
    fe = handler_events(hs[1], 'ctx.out_error = e')
    ee = handler_events(hs[2], "ctx.out_error = Fault('Server', get_fault_string_from_exception(e))")
    return ['Definition pr_in_chain : list (cond * in_act) := %s.' % gchain(chain_rows),
            'Definition pr_wrap_out : cond := %s.' % wrap,
            'Definition pr_events_before : list evname := %s.' % gev(before),
            'Definition pr_events_after : list evname := %s.' % gev(after),
            'Definition pr_events_fault : list evname := %s.' % gev(fe),
            'Definition pr_events_exception : list evname := %s.' % gev(ee)]


# ------------------------------------------------------------------ ServerBase Ignored handling
def ign_action(body):
    v = U(single_assign(body, 'ctx.out_object'))
    if v == '(None,)':
        return 'IgnOneNone'
    if v == '()':
        return 'IgnEmptyTuple'
    if v == '(None,) * len(ctx.descriptor.out_message._type_info)':
        return 'IgnNonePerValue'
    fail('Ignored handling: unknown out_object %r' % v)


def tr_srv_ignored(repo):
    t = parse(repo, 'spyne/server/_base.py')
    cls = find(t.body, ast.ClassDef, 'ServerBase')
    goo = code(find(cls.body, ast.FunctionDef, 'get_out_object').body)
    first = ('if ctx.in_error is None:\n    self.app.process_request(ctx)\nelse:\n    raise ctx.in_error')
    if not goo or U(goo[0]) != first:
        fail('get_out_object: first statement')
    helper = [n for n in cls.body if isinstance(n, ast.FunctionDef) and n.name == 'ignored_to_null']
    if helper:
        if [U(s) for s in goo[1:]] != ['self.ignored_to_null(ctx)']:
            fail('get_out_object: does not end in self.ignored_to_null(ctx)')
        hb = code(helper[0].body)
        if [a.arg for a in helper[0].args.args] != ['ctx']:
            fail('ignored_to_null: signature')
    else:
        hb = goo[1:]
    if len(hb) != 1 or not isinstance(hb[0], ast.If):
        fail('Ignored handling: not a single if-chain')
    rows, els = if_chain(hb[0], ign_action)
    if els is not None:
        fail('Ignored handling: chain has an else')
    return ['Definition srv_ign_chain : list (cond * ign_act) := %s.' % gchain(rows)]


# ------------------------------------------------------------------ protocols: non-wrapped response value
def mentions(n, what):
    return what in U(n)


def tr_xml(repo):
    t = parse(repo, 'spyne/protocol/xml.py')
    fn = find(find(t.body, ast.ClassDef, 'XmlDocument').body, ast.FunctionDef, 'serialize')
    tops = [s for s in code(fn.body) if isinstance(s, ast.If) and U(s.test) == 'ctx.out_error is not None']
    if len(tops) != 1:
        fail('XmlDocument.serialize: the out_error test')
    ifs = [s for s in code(tops[0].orelse) if isinstance(s, ast.If) and
           U(s.test) in ('ctx.descriptor.body_style == BODY_STYLE_WRAPPED', 'ctx.descriptor.body_style is BODY_STYLE_WRAPPED')]
    if len(ifs) != 1:
        fail('XmlDocument.serialize: the body-style test')
    w = ifs[0]
    wb = [U(s) for s in code(w.body)]
    if wb[:2] != ['result_inst = result_message_class()',
                  'for i, (k, v) in enumerate(result_message_class._type_info.items()):\n'
                  '    attrs = self.get_cls_attrs(v)\n    result_inst._safe_set(k, ctx.out_object[i], v, attrs)']:
        fail('XmlDocument.serialize: the wrapped branch %r' % (wb,))
    for s in code(w.body)[2:]:
        # e.g. the element name / namespace the repaired serialize() computes per branch
        if mentions(s, 'result_inst') or mentions(s, 'out_object'):
            fail('XmlDocument.serialize: wrapped branch: statement touches result_inst / out_object', s)
    mode = None
    for s in code(w.orelse):
        if isinstance(s, ast.Assign) and len(s.targets) == 1 and U(s.targets[0]) == 'result_inst':
            if mode is not None:
                fail('XmlDocument.serialize: result_inst assigned twice in the non-wrapped branch')
            v = U(s.value)
            if v == 'ctx.out_object':
                mode = 'NWList'
            elif v == 'ctx.out_object[0]':
                mode = 'NWFirst'
            else:
                fail('XmlDocument.serialize: unknown non-wrapped value', s)
        elif mentions(s, 'result_inst') or mentions(s, 'out_object'):
            fail('XmlDocument.serialize: statement touches result_inst / out_object', s)
    if mode is None:
        fail('XmlDocument.serialize: result_inst not assigned in the non-wrapped branch')
    return ['Definition xml_nonwrapped : nw_mode := %s.' % mode]


def tr_soap(repo):
    t = parse(repo, 'spyne/protocol/soap/soap11.py')
    fn = find(find(t.body, ast.ClassDef, 'Soap11').body, ast.FunctionDef, 'serialize')
    found = []
    for n in ast.walk(fn):
        if isinstance(n, ast.If) and U(n.test) in ('ctx.descriptor.body_style is BODY_STYLE_WRAPPED',
                                                    'ctx.descriptor.body_style == BODY_STYLE_WRAPPED'):
            found.append(n)
    if len(found) != 1:
        fail('Soap11.serialize: the body-style test')
    els = code(found[0].orelse)
    if not els:
        fail('Soap11.serialize: no non-wrapped branch')
    v = U(els[0])
    if v == 'out_object = ctx.out_object[0]':
        mode = 'NWFirst'
    elif v == 'out_object = ctx.out_object':
        mode = 'NWList'
    else:
        fail('Soap11.serialize: unknown non-wrapped value %r' % v)
    for s in els[1:]:
        if mentions(s, 'ctx.out_object'):
            fail('Soap11.serialize: statement touches ctx.out_object', s)
    wb = U(found[0])
    for needle in ('values = iter(ctx.out_object)', 'except StopIteration:\n            v = None'):
        if needle not in wb:
            fail('Soap11.serialize: the wrapped branch no longer pads missing values (%r)' % needle)
    return ['Definition soap_nonwrapped : nw_mode := %s.' % mode]


def tr_hier(repo):
    """HierDictDocument.deserialize: the key a (non-null) request body of a complex message class
    is looked up under before it is decoded with _doc_to_object.  The statements are interpreted
    in order; only the null-body and simple-type cases may be diverted from _doc_to_object."""
    t = parse(repo, 'spyne/protocol/dictdoc/hier.py')
    fn = find(find(t.body, ast.ClassDef, 'HierDictDocument').body, ast.FunctionDef, 'deserialize')
    outer = [s for s in code(fn.body) if isinstance(s, ast.If) and U(s.test) == 'body_class']
    if len(outer) != 1:
        fail('HierDictDocument.deserialize: the body_class test')
    body = code(outer[0].body)
    src = [U(s) for s in body]
    if 'class_name = self.get_class_name(body_class)' not in src:
        fail('HierDictDocument.deserialize: class_name is not the type name of the message class')
    i = src.index('class_name = self.get_class_name(body_class)')
    for s in body[:i]:
        if mentions(s, 'class_name'):
            fail('HierDictDocument.deserialize: class_name touched before its definition', s)
    if src[:i] != ['doc = ctx.in_body_doc']:
        fail('HierDictDocument.deserialize: the document is not ctx.in_body_doc %r' % (src[:i],))
    BARE = 'message is self.REQUEST and sub_name is not None'
    j = i + 1
    have_sub = have_is_bare = False
    if j < len(body) and src[j] == 'sub_name = body_class.Attributes.sub_name':
        have_sub, j = True, j + 1
    if j < len(body) and src[j] == 'is_bare = ' + BARE:
        if not have_sub:
            fail('HierDictDocument.deserialize: is_bare without sub_name')
        have_is_bare, j = True, j + 1
    if j >= len(body) or not isinstance(body[j], ast.If) or U(body[j].test) != 'self.ignore_wrappers' or body[j].orelse:
        fail('HierDictDocument.deserialize: the ignore_wrappers block', body[j] if j < len(body) else None)
    blk = code(body[j].body)
    if not blk or U(blk[-1]) != 'doc = doc.get(class_name, None)':
        fail('HierDictDocument.deserialize: the lookup', blk[-1] if blk else None)
    enc = ("if isinstance(class_name, bytes) and (not isinstance(sub_name, bytes)):\n"
           "    sub_name = sub_name.encode('utf8')")
    # the str form of a bytes class name (msgpack): no effect on a str-keyed document
    asstr = "if isinstance(class_name, bytes) and (not class_name in doc):\n    class_name = class_name.decode('utf8')"
    mode = 'LkTypeName'
    for s in blk[:-1]:
        if U(s) == 'sub_name = body_class.Attributes.sub_name' and not have_sub and mode == 'LkTypeName':
            have_sub = True
        elif isinstance(s, ast.If) and not s.orelse and mode == 'LkTypeName' and have_sub and \
                (U(s.test) == BARE or (have_is_bare and U(s.test) == 'is_bare')):
            inner = [U(x) for x in code(s.body)]
            if inner not in (['class_name = sub_name'], [enc, 'class_name = sub_name']):
                fail('HierDictDocument.deserialize: the key of a bare request %r' % (inner,))
            mode = 'LkSubName'
        elif U(s) == asstr:
            pass
        else:
            fail('HierDictDocument.deserialize: unrecognised statement before the lookup', s)
    # what happens to the looked-up document
    tail = body[j + 1:]
    DEC = 'self._doc_to_object(ctx, body_class, doc, self.validator)'
    if [U(s) for s in tail] == ['result_message = ' + DEC, 'ctx.in_object = result_message']:
        pass
    else:
        target = None
        if len(tail) == 2 and U(tail[1]) == 'ctx.in_object = result_message':
            target, tail = 'result_message', tail[:1]
        else:
            target = 'ctx.in_object'
        if len(tail) != 1 or not isinstance(tail[0], ast.If):
            fail('HierDictDocument.deserialize: what follows the lookup %r' % ([U(s)[:60] for s in tail],))
        node = tail[0]
        while True:
            conj = [U(v) for v in node.test.values] if isinstance(node.test, ast.BoolOp) and \
                isinstance(node.test.op, ast.And) else [U(node.test)]
            if not ('doc is None' in conj or 'not issubclass(body_class, (ComplexModelBase, Any))' in conj):
                fail('HierDictDocument.deserialize: a branch diverts a non-null body of a complex message', node.test)
            assigns = [x for x in code(node.body) if isinstance(x, ast.Assign) and U(x.targets[0]) == target]
            if len(assigns) != 1:
                fail('HierDictDocument.deserialize: branch does not set %s' % target, node)
            if len(node.orelse) == 1 and isinstance(node.orelse[0], ast.If):
                node = node.orelse[0]
                continue
            if [U(x) for x in code(node.orelse)] != ['%s = %s' % (target, DEC)]:
                fail('HierDictDocument.deserialize: the final branch is not _doc_to_object %r' % (
                    [U(x) for x in code(node.orelse)],))
            break
    return ['Definition hier_bare_lookup : lk_mode := %s.' % mode]


def tr_const(repo):
    import importlib
    const = importlib.import_module('spyne.const')
    if not os.path.abspath(const.__file__).startswith(os.path.abspath(repo).rstrip('/') + '/'):
        raise TranslateError('spyne imported from %s, not from %s' % (const.__file__, repo))
    if const.REQUEST_SUFFIX != '':
        fail('spyne.const.REQUEST_SUFFIX is %r: the model takes the in-message name to be the method name'
             % const.REQUEST_SUFFIX)
    for k in ('RESULT_SUFFIX', 'RESPONSE_SUFFIX'):
        if not isinstance(getattr(const, k), str):
            fail('spyne.const.%s is not a string' % k)
    return ['Definition result_suffix : text := %s.' % gtext(const.RESULT_SUFFIX),
            'Definition response_suffix : text := %s.' % gtext(const.RESPONSE_SUFFIX)]


def generate(repo):
    nt = parse(repo, 'spyne/server/null.py')
    out = ['(* GENERATED by harness/translate/nullsrv.py from spyne/server/null.py, spyne/application.py,',
           '   spyne/descriptor.py, spyne/server/_base.py, spyne/protocol/xml.py, spyne/protocol/soap/soap11.py',
           '   and spyne.const.  Do not edit. *)',
           'From SpyneV Require Import C18.Syntax.', 'Open Scope Z_scope.', '']
    out.append(tr_is_out_bare(repo))
    out.extend(tr_cb_sync(nt))
    out.extend(tr_function_call(nt))
    out.extend(tr_process_request(repo))
    out.extend(tr_srv_ignored(repo))
    out.extend(tr_xml(repo))
    out.extend(tr_soap(repo))
    out.extend(tr_hier(repo))
    out.extend(tr_const(repo))
    return {'NullSrv.v': '\n'.join(out) + '\n'}
