"""spyne/protocol/{json,yaml,msgpack}.py + spyne/protocol/dictdoc/hier.py  ->  Gen/DictLeaf.v   (C04)

Places where one token of the source decides whether user code can be handed
a value of an undeclared type by the dict-document protocols:

  * ``_ret_bool``: ``value in (True, False)`` (an equality test: 1, 0, 1.0, 0.0
    pass) or ``value is True or value is False``;
  * ``_ret_number`` (JSON, YAML) / ``integer_from_bytes`` (MessagePack): whether
    a float meant for an Integer member is converted / refused or passed on;
  * the ComplexModelBase branch of ``HierDictDocument._from_dict_value``:
    whether a null member document (object or array) goes to ``_doc_to_object``
    (whose answer to None is ``[]``) or is read as None;
  * the statement order at the head of ``_from_dict_value``: XmlAttribute /
    XmlData unwrapped before ``self.validate`` looks at the class, or after
    (then validate sees a wrapper class and checks nothing);
  * (decides no type, kept for the fidelity of the model) whether MessagePack's
    ``integer_from_bytes`` refuses lists and maps.

The functions are compared SEMANTICALLY with the reference variants written
below: both are run by the symbolic executor of ``symexec.py`` and must have
the same decision table (outcome for every valuation of the tests they make),
so renamed locals, guard clauses vs if/else, reordered / re-spelt class tuples
(``six.text_type`` vs ``str``, ``tuple({...})`` vs a tuple literal), comments
and messages do not matter; a function that matches no reference variant
raises TranslateError (fail closed).  The handler registrations the
hand-written model relies on and the ``if doc is None: return []`` opening of
``_doc_to_object`` are checked too.
"""
import ast, os, warnings
from .pyexpr import TranslateError, find_function
from . import symexec as SX


def _dump(n):
    return ast.dump(n, annotate_fields=False)


def _strip_doc(body):
    return [s for s in body if not (isinstance(s, ast.Expr) and isinstance(s.value, ast.Constant)
                                    and isinstance(s.value.value, str))]


REF_CONSTS = SX.module_consts(ast.parse("NON_NUMBER_TYPES = (list, dict, str, bytes)\n"))


def _fn(src):
    return ast.parse(src).body[0]


RET_BOOL = {
    'false': _fn("def f(self, cls, value):\n    if value is None or value in (True, False):\n        return value\n    raise ValidationError(value)\n"),
    'true': _fn("def f(self, cls, value):\n    if value is None or value is True or value is False:\n        return value\n    raise ValidationError(value)\n"),
}
_RN_HEAD = ("def f(self, cls, value):\n    if isinstance(value, NON_NUMBER_TYPES):\n        raise ValidationError(value)\n"
            "    if value in (True, False):\n        return int(value)\n")
RET_NUMBER = {
    'false': _fn(_RN_HEAD + "    return value\n"),
    'true': _fn(_RN_HEAD + "    if isinstance(value, float) and issubclass(cls, Integer):\n"
                           "        if not value.is_integer():\n            raise ValidationError(value)\n"
                           "        return int(value)\n    return value\n"),
}
_MP_HEAD = ("def f(self, cls, value):\n    if isinstance(value, (str, bytes)):\n"
            "        return super(MessagePackDocument, self).integer_from_bytes(cls, value)\n")
_MP_NONNUM = "    if isinstance(value, NON_NUMBER_TYPES):\n        raise ValidationError(value)\n"
_MP_FLOAT = ("    if isinstance(value, float):\n        if not value.is_integer():\n            raise ValidationError(value)\n"
             "        return int(value)\n")
MP_INT = {     # (int_from_float, refuses_containers)
    ('false', 'false'): _fn(_MP_HEAD + "    return value\n"),
    ('true', 'false'): _fn(_MP_HEAD + _MP_FLOAT + "    return value\n"),
    ('false', 'true'): _fn(_MP_HEAD + _MP_NONNUM + "    return value\n"),
    ('true', 'true'): _fn(_MP_HEAD + _MP_NONNUM + _MP_FLOAT + "    return value\n"),
}
COMPLEX_BRANCH = {
    'false': ast.parse("retval = self._doc_to_object(ctx, cls, inst, validator)\n").body,
    'true': ast.parse("if inst is None:\n    retval = None\nelse:\n    retval = self._doc_to_object(ctx, cls, inst, validator)\n").body,
}

HANDLERS = {
    'json': ('JsonDocument', {'Double': '_ret_number', 'Boolean': '_ret_bool', 'Integer': '_ret_number'}),
    'yaml': ('YamlDocument', {'Double': '_ret_number', 'Boolean': '_ret_bool', 'Integer': '_ret_number'}),
    'msgpack': ('MessagePackDocument', {'Double': '_ret_number', 'Boolean': '_ret_bool', 'Integer': 'integer_from_bytes'}),
}


def fn_table(fn, consts, helpers=None):
    m = SX.Machine(helpers=helpers or {}, consts=consts)
    body, env = SX.fn_program(fn)
    return m.table(body, env)


def which_fn(fn, consts, helpers, refs, what):
    t = fn_table(fn, consts, helpers)
    hits = [flag for flag, ref in refs.items() if SX.equivalent(t, fn_table(ref, REF_CONSTS))]
    if len(hits) != 1:
        raise TranslateError('%s: behaves like none of the recognised variants' % what)
    return hits[0]


def check_handlers(tree, clsname, want, what):
    init = find_function(tree, [clsname, '__init__'])
    got = {}
    for s in ast.walk(init):
        if isinstance(s, ast.Assign) and len(s.targets) == 1 and isinstance(s.targets[0], ast.Subscript):
            t = s.targets[0]
            if _dump(t.value) == _dump(ast.parse('self._from_unicode_handlers', mode='eval').body):
                k = t.slice
                if isinstance(k, ast.Name) and isinstance(s.value, ast.Attribute) and _dump(s.value.value) == _dump(ast.Name(id='self', ctx=ast.Load())):
                    if k.id in got:
                        raise TranslateError('%s: _from_unicode_handlers[%s] assigned twice' % (what, k.id))
                    got[k.id] = s.value.attr
                else:
                    raise TranslateError('%s: unrecognised _from_unicode_handlers assignment' % what)
    if got != want:
        raise TranslateError('%s: _from_unicode_handlers registrations are %r, expected %r' % (what, got, want))


def _parse(path):
    with warnings.catch_warnings():
        warnings.simplefilter('ignore')
        return ast.parse(open(path).read())


def generate(repo):
    flags = {}
    for mod, (clsname, want) in HANDLERS.items():
        tree = _parse(os.path.join(repo, 'spyne/protocol/%s.py' % mod))
        check_handlers(tree, clsname, want, mod)
        consts = SX.module_consts(tree)
        helpers = SX.class_helpers(tree, clsname)
        b = which_fn(find_function(tree, [clsname, '_ret_bool']), consts, helpers, RET_BOOL, mod + '._ret_bool')
        rn = find_function(tree, [clsname, '_ret_number'])
        if mod == 'msgpack':
            if which_fn(rn, consts, helpers, {'plain': RET_NUMBER['false'], 'int': RET_NUMBER['true']}, 'msgpack._ret_number') != 'plain':
                raise TranslateError('msgpack._ret_number is not the plain number reader')
            i, c = which_fn(find_function(tree, [clsname, 'integer_from_bytes']), consts, helpers, MP_INT, 'msgpack.integer_from_bytes')
        else:
            i = which_fn(rn, consts, helpers, RET_NUMBER, mod + '._ret_number')
            c = 'true'                      # _ret_number refuses NON_NUMBER_TYPES in both variants
        flags[mod] = (b, i, c)
    # hier.py
    tree = _parse(os.path.join(repo, 'spyne/protocol/dictdoc/hier.py'))
    fdv = find_function(tree, ['HierDictDocument', '_from_dict_value'])
    test = _dump(ast.parse('issubclass(cls, ComplexModelBase)', mode='eval').body)
    hits = [n for n in ast.walk(fdv) if isinstance(n, ast.If) and _dump(n.test) == test]
    if len(hits) != 1:
        raise TranslateError('hier._from_dict_value: expected exactly one "issubclass(cls, ComplexModelBase)" branch')
    m = SX.Machine(consts=SX.module_consts(tree), observe=('retval', 'cls', 'inst'))
    t = m.table(hits[0].body, {})
    nul = [f for f, ref in COMPLEX_BRANCH.items() if SX.equivalent(t, m.table(ref, {}))]
    if len(nul) != 1:
        raise TranslateError('hier._from_dict_value (ComplexModelBase branch): behaves like none of the recognised variants')
    nul = nul[0]
    # statement order at the head of _from_dict_value: unwrap XmlAttribute / XmlData, then validate
    head = [_dump(x) for x in _strip_doc(fdv.body)[:2]]
    unwrap = _dump(ast.parse("if issubclass(cls, XmlModifier):\n    cls = cls.type\n").body[0])
    valid = _dump(ast.parse("if validator is self.SOFT_VALIDATION:\n    self.validate(key, cls, inst)\n").body[0])
    if head == [unwrap, valid]:
        unw = 'true'
    elif head == [valid, unwrap] or head[0] == valid and unwrap not in [_dump(x) for x in ast.walk(fdv) if isinstance(x, ast.If)]:
        unw = 'false'
    else:
        raise TranslateError('hier._from_dict_value does not start with the XmlModifier unwrapping and the validate() call')
    n_val = sum(1 for x in ast.walk(fdv) if isinstance(x, ast.Call) and _dump(x.func) == _dump(ast.parse('self.validate', mode='eval').body))
    if n_val != 1:
        raise TranslateError('hier._from_dict_value calls self.validate %d times' % n_val)
    d2o = find_function(tree, ['HierDictDocument', '_doc_to_object'])
    first = _strip_doc(d2o.body)[0]
    if _dump(first) != _dump(ast.parse("if doc is None:\n    return []\n").body[0]):
        raise TranslateError('hier._doc_to_object does not start with "if doc is None: return []"')
    rows = []
    for mod, ctor in (('json', 'PJson'), ('yaml', 'PYaml'), ('msgpack', 'PMsgpack')):
        rows.append('  | %s => mkleafcfg %s %s %s %s %s' % (ctor, flags[mod][0], flags[mod][1], nul, unw, flags[mod][2]))
    text = ('(* generated by harness/translate/dictleaf.py from spyne/protocol/{json,yaml,msgpack}.py and '
            'spyne/protocol/dictdoc/hier.py -- do not edit *)\n'
            'From SpyneV Require Import C04.Guard C04.DictModel.\n\n'
            '(** per protocol: _ret_bool tests identity; floats meant for Integer members are converted or refused;\n'
            '    a null ComplexModel / Array member is read as None; XmlAttribute / XmlData unwrapped before validate();\n'
            '    lists and maps are refused for Integer members *)\n'
            'Definition dict_leaf (p : proto) : leaf_cfg :=\n  match p with\n%s\n  end.\n' % '\n'.join(rows))
    return {'DictLeaf.v': text}
