"""spyne/protocol/{json,yaml,msgpack}.py + spyne/protocol/dictdoc/hier.py  ->  Gen/DictLeaf.v   (C04)

Three places where one token of the source decides whether user code can be
handed a value of an undeclared type by the dict-document protocols:

  * ``_ret_bool``: ``value in (True, False)`` (an equality test: 1, 0, 1.0, 0.0
    pass) or ``value is True or value is False``;
  * ``_ret_number`` (JSON, YAML) / ``integer_from_bytes`` (MessagePack): whether
    a float meant for an Integer member is converted / refused or passed on;
  * the ComplexModelBase branch of ``HierDictDocument._from_dict_value``:
    whether a null member document (object or array) goes to ``_doc_to_object``
    (whose answer to None is ``[]``) or is read as None;
  * the statement order at the head of ``_from_dict_value``: XmlAttribute /
    XmlData unwrapped before ``self.validate`` looks at the class, or after
    (then validate sees a wrapper class and checks nothing);
  * (decides no type, kept for the fidelity of the model) whether MessagePack's
    ``integer_from_bytes`` refuses lists and maps.

Each function must be, statement for statement, one of the two shapes known
here (argument names normalised); anything else raises TranslateError.  The
handler registrations the hand-written model relies on (which of these
functions reads Integer / Double / Boolean in which protocol) and the
``if doc is None: return []`` opening of ``_doc_to_object`` are checked too.
"""
import ast, os, warnings
from .pyexpr import TranslateError, find_function


def _dump(n):
    return ast.dump(n, annotate_fields=False)


def _body(src):
    return [_dump(s) for s in ast.parse(src).body]


def _strip_doc(body):
    return [s for s in body if not (isinstance(s, ast.Expr) and isinstance(s.value, ast.Constant)
                                    and isinstance(s.value.value, str))]


class _Rename(ast.NodeTransformer):
    def __init__(self, m):
        self.m = m

    def visit_Name(self, n):
        return ast.copy_location(ast.Name(id=self.m.get(n.id, n.id), ctx=n.ctx), n)


def fn_body(fn, argnames):
    """dumps of the statements of fn, its positional arguments renamed to argnames"""
    names = [a.arg for a in fn.args.args]
    if len(names) != len(argnames) or fn.args.vararg or fn.args.kwarg or fn.args.kwonlyargs:
        raise TranslateError('%s: unexpected signature %r' % (fn.name, names))
    m = dict(zip(names, argnames))
    return [_dump(_Rename(m).visit(s)) for s in _strip_doc(fn.body)]


RET_BOOL = {
    'false': _body("if value is None or value in (True, False):\n    return value\nraise ValidationError(value)\n"),
    'true': _body("if value is None or value is True or value is False:\n    return value\nraise ValidationError(value)\n"),
}

RET_NUMBER_PLAIN = _body(
    "if isinstance(value, NON_NUMBER_TYPES):\n    raise ValidationError(value)\n"
    "if value in (True, False):\n    return int(value)\n"
    "return value\n")
RET_NUMBER_INT = _body(
    "if isinstance(value, NON_NUMBER_TYPES):\n    raise ValidationError(value)\n"
    "if value in (True, False):\n    return int(value)\n"
    "if isinstance(value, float) and issubclass(cls, Integer):\n"
    "    if not value.is_integer():\n        raise ValidationError(value)\n"
    "    return int(value)\n"
    "return value\n")

_MP_HEAD = ("if isinstance(value, (six.text_type, six.binary_type)):\n"
            "    return super(MessagePackDocument, self).integer_from_bytes(cls, value)\n")
_MP_NONNUM = "if isinstance(value, NON_NUMBER_TYPES):\n    raise ValidationError(value)\n"
_MP_FLOAT = ("if isinstance(value, float):\n"
             "    if not value.is_integer():\n        raise ValidationError(value)\n"
             "    return int(value)\n")
# (int_from_float, refuses_containers) -> body
MP_INT = {
    ('false', 'false'): _body(_MP_HEAD + "return value\n"),
    ('true', 'false'): _body(_MP_HEAD + _MP_FLOAT + "return value\n"),
    ('false', 'true'): _body(_MP_HEAD + _MP_NONNUM + "return value\n"),
    ('true', 'true'): _body(_MP_HEAD + _MP_NONNUM + _MP_FLOAT + "return value\n"),
}

COMPLEX_BRANCH = {
    'false': _body("retval = self._doc_to_object(ctx, cls, inst, validator)\n"),
    'true': _body("if inst is None:\n    retval = None\n"
                  "else:\n    retval = self._doc_to_object(ctx, cls, inst, validator)\n"),
}

NON_NUMBER = _dump(ast.parse("NON_NUMBER_TYPES = tuple({list, dict, six.text_type, six.binary_type})").body[0])

HANDLERS = {
    'json': ('JsonDocument', {'Double': '_ret_number', 'Boolean': '_ret_bool', 'Integer': '_ret_number'}),
    'yaml': ('YamlDocument', {'Double': '_ret_number', 'Boolean': '_ret_bool', 'Integer': '_ret_number'}),
    'msgpack': ('MessagePackDocument', {'Double': '_ret_number', 'Boolean': '_ret_bool', 'Integer': 'integer_from_bytes'}),
}


def which(body, table, what):
    for flag, tmpl in table.items():
        if body == tmpl:
            return flag
    raise TranslateError('%s: body is none of the recognised shapes' % what)


def check_handlers(tree, clsname, want, what):
    init = find_function(tree, [clsname, '__init__'])
    got = {}
    for s in ast.walk(init):
        if isinstance(s, ast.Assign) and len(s.targets) == 1 and isinstance(s.targets[0], ast.Subscript):
            t = s.targets[0]
            if _dump(t.value) == _dump(ast.parse('self._from_unicode_handlers', mode='eval').body):
                k = t.slice
                if isinstance(k, ast.Name) and isinstance(s.value, ast.Attribute) and _dump(s.value.value) == _dump(ast.Name(id='self', ctx=ast.Load())):
                    if k.id in got:
                        raise TranslateError('%s: _from_unicode_handlers[%s] assigned twice' % (what, k.id))
                    got[k.id] = s.value.attr
                else:
                    raise TranslateError('%s: unrecognised _from_unicode_handlers assignment' % what)
    if got != want:
        raise TranslateError('%s: _from_unicode_handlers registrations are %r, expected %r' % (what, got, want))


def generate(repo):
    flags = {}
    for mod, (clsname, want) in HANDLERS.items():
        path = os.path.join(repo, 'spyne/protocol/%s.py' % mod)
        with warnings.catch_warnings():
            warnings.simplefilter('ignore')
            tree = ast.parse(open(path).read())
        check_handlers(tree, clsname, want, mod)
        if sum(1 for s in tree.body if _dump(s) == NON_NUMBER) != 1:
            raise TranslateError('%s: NON_NUMBER_TYPES is not the expected tuple' % mod)
        b = which(fn_body(find_function(tree, [clsname, '_ret_bool']), ['self', 'cls', 'value']), RET_BOOL, mod + '._ret_bool')
        rn = fn_body(find_function(tree, [clsname, '_ret_number']), ['self', 'cls', 'value'])
        if mod == 'msgpack':
            if rn != RET_NUMBER_PLAIN:
                raise TranslateError('msgpack._ret_number: body is not the recognised shape')
            i, c = which(fn_body(find_function(tree, [clsname, 'integer_from_bytes']), ['self', 'cls', 'value']), MP_INT,
                         'msgpack.integer_from_bytes')
        else:
            i = which(rn, {'false': RET_NUMBER_PLAIN, 'true': RET_NUMBER_INT}, mod + '._ret_number')
            c = 'true'                      # _ret_number refuses NON_NUMBER_TYPES in both shapes
        flags[mod] = (b, i, c)
    # hier.py
    path = os.path.join(repo, 'spyne/protocol/dictdoc/hier.py')
    tree = ast.parse(open(path).read())
    fdv = find_function(tree, ['HierDictDocument', '_from_dict_value'])
    test = _dump(ast.parse('issubclass(cls, ComplexModelBase)', mode='eval').body)
    hits = [n for n in ast.walk(fdv) if isinstance(n, ast.If) and _dump(n.test) == test]
    if len(hits) != 1:
        raise TranslateError('hier._from_dict_value: expected exactly one "issubclass(cls, ComplexModelBase)" branch')
    nul = which([_dump(s) for s in hits[0].body], COMPLEX_BRANCH, 'hier._from_dict_value (ComplexModelBase branch)')
    # statement order at the head of _from_dict_value: unwrap XmlAttribute / XmlData, then validate
    head = [_dump(x) for x in _strip_doc(fdv.body)[:2]]
    unwrap = _dump(ast.parse("if issubclass(cls, XmlModifier):\n    cls = cls.type\n").body[0])
    valid = _dump(ast.parse("if validator is self.SOFT_VALIDATION:\n    self.validate(key, cls, inst)\n").body[0])
    if head == [unwrap, valid]:
        unw = 'true'
    elif head == [valid, unwrap] or head[0] == valid and unwrap not in [_dump(x) for x in ast.walk(fdv) if isinstance(x, ast.If)]:
        unw = 'false'
    else:
        raise TranslateError('hier._from_dict_value does not start with the XmlModifier unwrapping and the validate() call')
    n_val = sum(1 for x in ast.walk(fdv) if isinstance(x, ast.Call) and _dump(x.func) == _dump(ast.parse('self.validate', mode='eval').body))
    if n_val != 1:
        raise TranslateError('hier._from_dict_value calls self.validate %d times' % n_val)
    d2o = find_function(tree, ['HierDictDocument', '_doc_to_object'])
    first = _strip_doc(d2o.body)[0]
    if _dump(first) != _dump(ast.parse("if doc is None:\n    return []\n").body[0]):
        raise TranslateError('hier._doc_to_object does not start with "if doc is None: return []"')
    rows = []
    for mod, ctor in (('json', 'PJson'), ('yaml', 'PYaml'), ('msgpack', 'PMsgpack')):
        rows.append('  | %s => mkleafcfg %s %s %s %s %s' % (ctor, flags[mod][0], flags[mod][1], nul, unw, flags[mod][2]))
    text = ('(* generated by harness/translate/dictleaf.py from spyne/protocol/{json,yaml,msgpack}.py and '
            'spyne/protocol/dictdoc/hier.py -- do not edit *)\n'
            'From SpyneV Require Import C04.Guard C04.DictModel.\n\n'
            '(** per protocol: _ret_bool tests identity; floats meant for Integer members are converted or refused;\n'
            '    a null ComplexModel / Array member is read as None; lists and maps are refused for Integer members *)\n'
            'Definition dict_leaf (p : proto) : leaf_cfg :=\n  match p with\n%s\n  end.\n' % '\n'.join(rows))
    return {'DictLeaf.v': text}
