"""spyne/model/complex.py, spyne/model/_base.py, spyne/model/primitive/number.py, spyne/model/binary.py,
spyne/protocol/_base.py, spyne/util/odict.py
->  Gen/DeriveSrc.v   (C15)

The tokens of the derivation code that decide "deriving a model never changes another model" are
read off the syntax tree and written down as Gallina constants; coq/C15/SrcTie.v proves that they
are what the model coq/C15/Model.v transcribes.  Shapes that are not recognised abort (fail closed).
Nothing is imported from the tree: only its source text is parsed."""
import ast, os
from . import TranslateError

MUTATORS = {'update', 'append', 'insert', 'pop', 'popitem', 'setdefault', 'clear', '__setitem__', '__delitem__',
            'append_field', 'insert_field', '_replace_field', '_append_field_impl', '_insert_field_impl',
            '_set_serializer', 'extend', 'remove'}
READERS = {'get_type_name', 'customize', 'items', 'keys', 'values', 'get', 'copy', 'get_flat_type_info', 'is_default',
           'resolve_namespace', 'get_namespace'}


def parse(repo, rel):
    p = os.path.join(repo, rel)
    try:
        return ast.parse(open(p).read(), p)
    except (IOError, SyntaxError) as e:
        raise TranslateError('cannot parse %s: %s' % (rel, e))


def find(body, kind, name, where):
    hits = [n for n in body if isinstance(n, kind) and n.name == name]
    if len(hits) != 1:
        raise TranslateError('%d definitions of %s in %s' % (len(hits), name, where))
    return hits[0]


def root_name(node):
    """the Name at the bottom of an Attribute/Subscript/Call chain, or None"""
    while True:
        if isinstance(node, ast.Name):
            return node.id
        if isinstance(node, (ast.Attribute, ast.Subscript, ast.Starred)):
            node = node.value
        elif isinstance(node, ast.Call):
            node = node.func
        else:
            return None


def store_targets(fn):
    """every expression that is written by an assignment / del statement inside fn"""
    out = []
    for n in ast.walk(fn):
        if isinstance(n, ast.Assign):
            out.extend(n.targets)
        elif isinstance(n, (ast.AugAssign, ast.AnnAssign)):
            out.append(n.target)
        elif isinstance(n, ast.Delete):
            out.extend(n.targets)
    flat = []
    for t in out:
        if isinstance(t, (ast.Tuple, ast.List)):
            flat.extend(t.elts)
        else:
            flat.append(t)
    return flat


def writes_through(fn, name):
    """does fn store into, delete from or call a mutating method on something reached from `name`?
    A method call on it that is neither a known reader nor a known mutator aborts."""
    for t in store_targets(fn):
        if isinstance(t, (ast.Attribute, ast.Subscript)) and root_name(t) == name:
            return True
    for n in ast.walk(fn):
        if isinstance(n, ast.Call):
            f = n.func
            if isinstance(f, ast.Attribute) and root_name(f.value) == name:
                if f.attr in MUTATORS:
                    return True
                if f.attr not in READERS:
                    raise TranslateError('unrecognised method %s() called on %s in %s' % (f.attr, name, fn.name))
            if isinstance(f, ast.Name) and f.id in ('setattr', 'delattr') and n.args and root_name(n.args[0]) == name:
                return True
    return False


def const(node, what):
    if isinstance(node, ast.Constant) and isinstance(node.value, (bool, int, str)):
        return node.value
    raise TranslateError('%s: a literal was expected, found %s' % (what, ast.dump(node)[:80]))


def dict_call(node, what):
    """dict(a=1, b=False) -> [(a, 1), (b, False)]"""
    if not (isinstance(node, ast.Call) and isinstance(node.func, ast.Name) and node.func.id == 'dict'
            and not node.args and all(k.arg for k in node.keywords)):
        raise TranslateError('%s: dict(name=literal, ...) was expected, found %s' % (what, ast.dump(node)[:80]))
    return [(k.arg, const(k.value, what)) for k in node.keywords]


def is_attr(node, *chain):
    """node is Name(chain[0]).chain[1].chain[2]..."""
    for a in reversed(chain[1:]):
        if not (isinstance(node, ast.Attribute) and node.attr == a):
            return False
        node = node.value
    return isinstance(node, ast.Name) and node.id == chain[0]


# ----------------------------------------------------------------------------------------------- complex.py
def mandatory(tree):
    fn = find(tree.body, ast.FunctionDef, 'Mandatory', 'complex.py')
    arg = fn.args.args[0].arg
    writes = writes_through(fn, arg)
    base = uni = None
    for n in ast.walk(fn):
        if isinstance(n, ast.Assign) and len(n.targets) == 1 and isinstance(n.targets[0], ast.Name) \
                and n.targets[0].id == 'kwargs' and base is None:
            base = dict_call(n.value, 'Mandatory: kwargs')
        if isinstance(n, ast.If) and isinstance(n.test, ast.Call) and isinstance(n.test.func, ast.Name) \
                and n.test.func.id == 'issubclass' and len(n.test.args) == 2 \
                and isinstance(n.test.args[1], ast.Name) and n.test.args[1].id == 'Unicode':
            for st in n.body:
                if isinstance(st, ast.Expr) and isinstance(st.value, ast.Call) and is_attr(st.value.func, 'kwargs', 'update') \
                        and len(st.value.args) == 1:
                    uni = dict_call(st.value.args[0], 'Mandatory: Unicode request')
    if base is None or uni is None:
        raise TranslateError('Mandatory: the request dictionaries were not found')
    return writes, base, uni


def customize_copy(cmb):
    fn = find(cmb.body, ast.FunctionDef, 'customize', 'ComplexModelBase')
    hits = [n for n in ast.walk(fn) if isinstance(n, ast.Assign) and len(n.targets) == 1
            and is_attr(n.targets[0], 'retval', '_type_info')]
    if len(hits) != 1:
        raise TranslateError('ComplexModelBase.customize: %d assignments to retval._type_info' % len(hits))
    v = hits[0].value
    if isinstance(v, ast.Call) and isinstance(v.func, ast.Name) and v.func.id == 'TypeInfo' and len(v.args) == 1 \
            and is_attr(v.args[0], 'cls', '_type_info'):
        copies = True
    elif is_attr(v, 'cls', '_type_info'):
        copies = False
    else:
        raise TranslateError('ComplexModelBase.customize: unrecognised value for retval._type_info')
    registers = False
    for n in ast.walk(fn):
        if isinstance(n, ast.If) and isinstance(n.test, ast.Compare) and is_attr(n.test.left, 'cls') \
                and len(n.test.ops) == 1 and isinstance(n.test.ops[0], ast.IsNot) \
                and isinstance(n.test.comparators[0], ast.Name) and n.test.comparators[0].id == 'ComplexModel':
            for st in n.body:
                if isinstance(st, ast.Expr) and isinstance(st.value, ast.Call) and is_attr(st.value.func, 'cls', '_process_variants'):
                    registers = True
    return copies, registers


def child_attrs(tree):
    fn = find(tree.body, ast.FunctionDef, '_process_child_attrs', 'complex.py')
    bound = {}
    for n in fn.body:
        if isinstance(n, ast.Assign) and len(n.targets) == 1 and isinstance(n.targets[0], ast.Name) \
                and n.targets[0].id in ('child_attrs', 'child_attrs_all', 'child_attrs_noexc') and n.targets[0].id not in bound:
            v = n.value
            def is_get(x):
                return isinstance(x, ast.Call) and is_attr(x.func, 'kwargs', 'get')
            if isinstance(v, ast.Call) and isinstance(v.func, ast.Name) and v.func.id in ('copy', 'dict') \
                    and len(v.args) == 1 and is_get(v.args[0]):
                bound[n.targets[0].id] = True
            elif is_get(v):
                bound[n.targets[0].id] = False
            else:
                raise TranslateError('_process_child_attrs: unrecognised binding of ' + n.targets[0].id)
    if sorted(bound) != ['child_attrs', 'child_attrs_all', 'child_attrs_noexc']:
        raise TranslateError('_process_child_attrs: the three request dictionaries are not bound at the top')
    copied = all(bound.values())
    # the module-level D_EXC must not become a class's dictionary, loop values must not be written
    loop_vars = set()
    for n in ast.walk(fn):
        if isinstance(n, ast.For) and isinstance(n.target, ast.Tuple):
            for e in n.target.elts:
                if isinstance(e, ast.Name):
                    loop_vars.add(e.id)
        if isinstance(n, ast.Assign) and isinstance(n.value, ast.Name) and n.value.id == 'D_EXC':
            copied = False
    for t in store_targets(fn):
        if isinstance(t, ast.Subscript) and root_name(t) in loop_vars:
            copied = False
    return copied


def subclass_reset(meta):
    fn = find(meta.body, ast.FunctionDef, '__init__', 'ComplexModelMeta')
    for n in ast.walk(fn):
        if isinstance(n, ast.Assign) and len(n.targets) == 1 and is_attr(n.targets[0], 'self', 'Attributes', '_variants') \
                and isinstance(n.value, ast.Constant) and n.value.value is None:
            return True
    return False


def flat_order(tree):
    fn = find(tree.body, ast.FunctionDef, '_get_flat_type_info', 'complex.py')
    rec = upd = None
    for i, n in enumerate(fn.body):
        if isinstance(n, ast.If):
            for st in n.body:
                if isinstance(st, ast.Expr) and isinstance(st.value, ast.Call) and isinstance(st.value.func, ast.Name) \
                        and st.value.func.id == '_get_flat_type_info':
                    rec = i
        if isinstance(n, ast.Expr) and isinstance(n.value, ast.Call) and is_attr(n.value.func, 'retval', 'update') \
                and len(n.value.args) == 1 and is_attr(n.value.args[0], 'cls', '_type_info'):
            upd = i
    if rec is None or upd is None:
        raise TranslateError('_get_flat_type_info: recursion on the parent / retval.update(cls._type_info) not found')
    return rec < upd


def keeps_extends(tree):
    fn = find(tree.body, ast.FunctionDef, '_get_type_info', 'complex.py')
    for n in fn.body:
        if isinstance(n, ast.If):
            t = n.test
            def ext_none(x):
                return isinstance(x, ast.Compare) and isinstance(x.left, ast.Name) and x.left.id == 'extends' \
                    and len(x.ops) == 1 and isinstance(x.ops[0], ast.Is)
            if ext_none(t):
                return False
            if isinstance(t, ast.BoolOp) and isinstance(t.op, ast.And) and len(t.values) == 2 and ext_none(t.values[0]):
                if "'__orig__'" in ast.dump(t.values[1]) and isinstance(t.values[1], ast.Compare) \
                        and isinstance(t.values[1].ops[0], ast.Is):
                    return True
                raise TranslateError('_get_type_info: unrecognised guard beside "extends is None"')
    raise TranslateError('_get_type_info: "if extends is None" not found')


def memberless_base(tree):
    """_get_type_info: when does a Python base become __extends__ of a class statement?  True: when it
    has members of its own or itself extends a class; False: only when it has members of its own"""
    fn = find(tree.body, ast.FunctionDef, '_get_type_info', 'complex.py')
    hits = []
    for n in ast.walk(fn):
        if isinstance(n, ast.If):
            for st in n.body:
                if isinstance(st, ast.Assign) and len(st.targets) == 2 and isinstance(st.targets[0], ast.Name) \
                        and st.targets[0].id == 'extends' and isinstance(st.value, ast.Name) and st.value.id == 'b':
                    hits.append(n)
    if len(hits) != 1:
        raise TranslateError('_get_type_info: %d statements "extends = cls_dict[...] = b"' % len(hits))
    t = hits[0].test
    def has_members(x):
        return isinstance(x, ast.Compare) and isinstance(x.left, ast.Call) and isinstance(x.left.func, ast.Name) \
            and x.left.func.id == 'len' and len(x.ops) == 1 and isinstance(x.ops[0], ast.Gt) \
            and isinstance(x.comparators[0], ast.Constant) and x.comparators[0].value == 0
    def is_sub(x):
        return isinstance(x, ast.Call) and isinstance(x.func, ast.Name) and x.func.id == 'issubclass'
    def extends_set(x):
        return isinstance(x, ast.Compare) and isinstance(x.left, ast.Call) and isinstance(x.left.func, ast.Name) \
            and x.left.func.id == 'getattr' and len(x.left.args) == 3 and isinstance(x.left.args[0], ast.Name) \
            and x.left.args[0].id == 'b' and isinstance(x.left.args[1], ast.Constant) and x.left.args[1].value == '__extends__' \
            and isinstance(x.left.args[2], ast.Constant) and x.left.args[2].value is None \
            and len(x.ops) == 1 and isinstance(x.ops[0], ast.IsNot) \
            and isinstance(x.comparators[0], ast.Constant) and x.comparators[0].value is None
    if isinstance(t, ast.BoolOp) and isinstance(t.op, ast.And) and len(t.values) == 2 and is_sub(t.values[1]):
        a = t.values[0]
        if has_members(a):
            return False
        if isinstance(a, ast.BoolOp) and isinstance(a.op, ast.Or) and len(a.values) == 2 and has_members(a.values[0]) \
                and extends_set(a.values[1]):
            return True
    raise TranslateError('_get_type_info: unrecognised condition for taking a base class as __extends__')


def propagation(cmb):
    res = []
    for meth, impl, tov in (('append_field', '_append_field_impl', '_append_to_variants'),
                            ('insert_field', '_insert_field_impl', '_insert_to_variants')):
        fn = find(cmb.body, ast.FunctionDef, meth, 'ComplexModelBase')
        calls = [st.value.func.attr for st in fn.body if isinstance(st, ast.Expr) and isinstance(st.value, ast.Call)
                 and isinstance(st.value.func, ast.Attribute) and root_name(st.value.func) == 'cls']
        if calls != [impl, tov]:
            raise TranslateError('%s: expected cls.%s then cls.%s, found %r' % (meth, impl, tov, calls))
        fv = find(cmb.body, ast.FunctionDef, tov, 'ComplexModelBase')
        ok = False
        if len(fv.body) == 1 and isinstance(fv.body[0], ast.If):
            t = fv.body[0].test
            if isinstance(t, ast.Compare) and is_attr(t.left, 'cls', 'Attributes', '_variants') and isinstance(t.ops[0], ast.IsNot):
                for st in fv.body[0].body:
                    if isinstance(st, ast.For) and is_attr(st.iter, 'cls', 'Attributes', '_variants'):
                        for s2 in st.body:
                            if isinstance(s2, ast.Expr) and isinstance(s2.value, ast.Call) \
                                    and isinstance(s2.value.func, ast.Attribute) and s2.value.func.attr == meth:
                                ok = True
        if not ok:
            raise TranslateError('%s: the loop over cls.Attributes._variants calling %s was not recognised' % (tov, meth))
        res.append(ok)
    return all(res)


# ----------------------------------------------------------------------------------------------- _base.py
def s_customize(tree):
    mb = find(tree.body, ast.ClassDef, 'ModelBase', '_base.py')
    fn = find(mb.body, ast.FunctionDef, '_s_customize', 'ModelBase')
    cds = [n for n in fn.body if isinstance(n, ast.ClassDef) and n.name == 'Attributes']
    fresh = len(cds) == 1 and len(cds[0].bases) == 1 and is_attr(cds[0].bases[0], 'cls', 'Attributes')
    for t in store_targets(fn):
        if isinstance(t, ast.Name) and t.id == 'Attributes':
            fresh = False                                   # the local class is rebound to something else
        if isinstance(t, (ast.Attribute, ast.Subscript)) and root_name(t) == 'cls':
            fresh = False                                   # writes into the class being customized
    for n in ast.walk(fn):
        if isinstance(n, ast.Call) and isinstance(n.func, ast.Name) and n.func.id == 'setattr' and n.args \
                and root_name(n.args[0]) == 'cls':
            fresh = False
    # the keyword loop: which names are special-cased, in order
    loops = [n for n in fn.body if isinstance(n, ast.For) and is_attr(n.iter.func if isinstance(n.iter, ast.Call) else n.iter, 'kwargs', 'items')]
    if len(loops) != 1:
        raise TranslateError('_s_customize: %d loops over kwargs.items()' % len(loops))
    keys, unbounded = [], None
    def names_of(test):
        nonlocal unbounded
        if isinstance(test, ast.Call) and is_attr(test.func, 'k', 'startswith') and len(test.args) == 1:
            return [const(test.args[0], 'startswith') + '*']
        if isinstance(test, ast.Compare) and isinstance(test.left, ast.Name) and test.left.id == 'k' and len(test.ops) == 1:
            c = test.comparators[0]
            if isinstance(test.ops[0], ast.Eq):
                return [const(c, 'k ==')]
            if isinstance(test.ops[0], ast.In) and isinstance(c, ast.Tuple):
                return [const(e, 'k in') for e in c.elts]
        if isinstance(test, ast.BoolOp) and isinstance(test.op, ast.And) and len(test.values) == 2:
            a, b = test.values
            if isinstance(b, ast.Compare) and isinstance(b.left, ast.Name) and b.left.id == 'v' and isinstance(b.ops[0], ast.In) \
                    and isinstance(b.comparators[0], ast.Tuple):
                vals = []
                for e in b.comparators[0].elts:
                    if isinstance(e, ast.Constant):
                        vals.append(str(e.value))
                    elif isinstance(e, ast.Call) and isinstance(e.func, ast.Name) and e.func.id == 'float' and len(e.args) == 1:
                        vals.append('float:' + str(const(e.args[0], 'float()')))
                    else:
                        raise TranslateError('_s_customize: unrecognised max_occurs alias')
                unbounded = vals
                return names_of(a)
        raise TranslateError('_s_customize: unrecognised test in the keyword chain: ' + ast.dump(test)[:100])
    body = loops[0].body
    node = None
    for st in body:
        if isinstance(st, ast.If):
            node = st
            while True:
                keys.extend(names_of(node.test))
                if len(node.orelse) == 1 and isinstance(node.orelse[0], ast.If):
                    node = node.orelse[0]
                else:
                    break
    if unbounded is None:
        raise TranslateError('_s_customize: the max_occurs aliases were not found')
    return fresh, keys, unbounded


def type_attrs_copied(tree):
    """_s_customize merges the keywords into a COPY of the protocol's type_attrs"""
    mb = find(tree.body, ast.ClassDef, 'ModelBase', '_base.py')
    fn = find(mb.body, ast.FunctionDef, '_s_customize', 'ModelBase')
    hits = [n for n in ast.walk(fn) if isinstance(n, ast.Assign) and len(n.targets) == 1
            and isinstance(n.targets[0], ast.Name) and n.targets[0].id == 'type_attrs']
    if len(hits) != 1:
        raise TranslateError('_s_customize: %d assignments to type_attrs' % len(hits))
    v = hits[0].value
    if isinstance(v, ast.Call) and not v.args and isinstance(v.func, ast.Attribute) and v.func.attr == 'copy' \
            and is_attr(v.func.value, 'prot', 'type_attrs'):
        copied = True
    elif isinstance(v, ast.Call) and isinstance(v.func, ast.Name) and v.func.id == 'dict' and len(v.args) == 1 \
            and is_attr(v.args[0], 'prot', 'type_attrs'):
        copied = True
    elif is_attr(v, 'prot', 'type_attrs'):
        copied = False
    else:
        raise TranslateError('_s_customize: unrecognised value for type_attrs')
    if writes_through(fn, 'prot'):
        copied = False
    return copied


def column_args_copied(tree):
    """_s_customize gives the new Attributes class a DEEP COPY of the inherited sqla_column_args (the
    column keywords pk / autoincrement / onupdate / server_default are written into its dictionary)"""
    mb = find(tree.body, ast.ClassDef, 'ModelBase', '_base.py')
    fn = find(mb.body, ast.FunctionDef, '_s_customize', 'ModelBase')
    hits = [n for n in ast.walk(fn) if isinstance(n, ast.Assign) and len(n.targets) == 1
            and is_attr(n.targets[0], 'Attributes', 'sqla_column_args')]
    if not hits:
        raise TranslateError('_s_customize: no assignment to Attributes.sqla_column_args')
    inherited, copied = 0, True
    for n in hits:
        v = n.value
        refs_cls = any(is_attr(x, 'cls', 'Attributes', 'sqla_column_args') for x in ast.walk(v))
        names = [x.id for x in ast.walk(v) if isinstance(x, ast.Name)]
        if isinstance(v, ast.Call) and isinstance(v.func, ast.Name) and v.func.id == 'deepcopy' and len(v.args) == 1 \
                and is_attr(v.args[0], 'cls', 'Attributes', 'sqla_column_args'):
            inherited += 1
        elif refs_cls:
            inherited += 1
            copied = False                      # the inherited pair (or its dictionary) is used as it is
        elif isinstance(v, ast.Tuple) and len(v.elts) == 2 and isinstance(v.elts[1], ast.Dict) and not v.elts[1].keys:
            pass                                # a fresh (), {}
        elif isinstance(v, ast.Name) and v.id == 'new_v' or (isinstance(v, ast.Tuple) and 'd' in names and 't' in names):
            pass                                # the 'fk' branch: re-tuples the class's OWN pair
        else:
            # anything built from local names may alias the inherited dictionary: look where they come from
            for m in ast.walk(fn):
                if isinstance(m, ast.Assign) and any(is_attr(x, 'cls', 'Attributes', 'sqla_column_args') for x in ast.walk(m.value)) \
                        and not (isinstance(m.value, ast.Call) and isinstance(m.value.func, ast.Name) and m.value.func.id == 'deepcopy'):
                    tn = [x.id for t in m.targets for x in ast.walk(t) if isinstance(x, ast.Name)]
                    if set(tn) & set(names):
                        inherited += 1
                        copied = False
    if inherited == 0:
        raise TranslateError('_s_customize: the inherited sqla_column_args is not handed to the new class at all')
    return copied


# ----------------------------------------------------------------------------------------------- binary.py
def bytearray_new(tree):
    """ByteArray.__new__ touches the encoding only when the keyword is given"""
    cd = find(tree.body, ast.ClassDef, 'ByteArray', 'binary.py')
    fn = find(cd.body, ast.FunctionDef, '__new__', 'ByteArray')
    def names_encoding(x):
        return isinstance(x, ast.Constant) and x.value == 'encoding'
    guarded = None
    for n in fn.body:
        if isinstance(n, ast.If) and isinstance(n.test, ast.Compare) and names_encoding(n.test.left) \
                and len(n.test.ops) == 1 and isinstance(n.test.ops[0], ast.In) and is_attr(n.test.comparators[0], 'kwargs'):
            writes = [t for t in store_targets(n) if isinstance(t, ast.Subscript) and is_attr(t.value, 'kwargs')]
            if writes:
                guarded = True
        else:
            for t in store_targets(n):
                if isinstance(t, ast.Subscript) and is_attr(t.value, 'kwargs') and "'encoding'" in ast.dump(t):
                    guarded = False
    if guarded is None:
        raise TranslateError('ByteArray.__new__: no assignment to kwargs["encoding"]')
    return guarded


# ----------------------------------------------------------------------------------------------- protocol/_base.py
def sortcache_key(tree):
    """sort_fields caches per class (a variant has its own field types)"""
    cd = find(tree.body, ast.ClassDef, 'ProtocolMixin', 'protocol/_base.py')
    fn = find(cd.body, ast.FunctionDef, 'sort_fields', 'ProtocolMixin')
    keys = []
    for n in ast.walk(fn):
        if isinstance(n, ast.Call) and isinstance(n.func, ast.Attribute) and n.func.attr == 'get' \
                and is_attr(n.func.value, 'self', '_sortcache') and n.args:
            keys.append(n.args[0])
        if isinstance(n, ast.Assign):
            for t in n.targets:
                if isinstance(t, ast.Subscript) and is_attr(t.value, 'self', '_sortcache'):
                    keys.append(t.slice)
    if len(keys) < 2:
        raise TranslateError('sort_fields: the reads / writes of self._sortcache were not found')
    per_class = all(isinstance(k, ast.Name) and k.id == 'cls' for k in keys)
    # the entry is checked against the flat type info it was computed from
    checked = any(isinstance(n, ast.Compare) and len(n.ops) == 1 and isinstance(n.ops[0], ast.Is)
                  and isinstance(n.comparators[0], ast.Name) and n.comparators[0].id == 'fti' for n in ast.walk(fn))
    return per_class, checked


def flat_alias_source(cx, cmb):
    """the alias table of the flat type info is computed from the flat fields"""
    rec = find(cx.body, ast.FunctionDef, '_get_flat_type_info', 'complex.py')
    for n in ast.walk(rec):
        if isinstance(n, ast.Attribute) and n.attr == 'alt':
            return False            # taken from a stored table (cls._type_info_alt / cls._type_info.alt)
    fn = find(cmb.body, ast.FunctionDef, 'get_flat_type_info', 'ComplexModelBase')
    for n in ast.walk(fn):
        if isinstance(n, ast.For) and isinstance(n.iter, ast.Call) and is_attr(n.iter.func, 'retval', 'items'):
            calls = [c for c in ast.walk(n) if isinstance(c, ast.Call) and isinstance(c.func, ast.Name) and c.func.id == '_type_info_alias']
            stores = [t for t in store_targets(n) if isinstance(t, ast.Subscript) and is_attr(t.value, 'retval', 'alt')]
            if calls and stores:
                return True
    raise TranslateError('get_flat_type_info: neither a stored alias table nor the loop over the flat fields was recognised')


# ----------------------------------------------------------------------------------------------- number.py
def decimal_msl(tree):
    cd = find(tree.body, ast.ClassDef, 'Decimal', 'number.py')
    fn = find(cd.body, ast.FunctionDef, '_s_customize', 'Decimal')
    vals = [n.value for n in ast.walk(fn) if isinstance(n, ast.Assign) and len(n.targets) == 1
            and isinstance(n.targets[0], ast.Subscript) and is_attr(n.targets[0].value, 'kwargs')
            and "'max_str_len'" in ast.dump(n.targets[0])]
    if not vals:
        raise TranslateError('Decimal._s_customize: no assignment to kwargs["max_str_len"]')
    from_request, add = True, None
    for v in vals:
        if any(isinstance(x, ast.Name) and x.id == 'cls' for x in ast.walk(v)):
            from_request = False
        if isinstance(v, ast.BinOp) and isinstance(v.op, ast.Add) and isinstance(v.right, ast.Constant):
            add = int(v.right.value)
    if add is None:
        raise TranslateError('Decimal._s_customize: "<digits> + <constant>" not found')
    return from_request, add


# ----------------------------------------------------------------------------------------------- odict.py
def odict_shape(tree):
    cd = find(tree.body, ast.ClassDef, 'odict', 'odict.py')
    si = find(cd.body, ast.FunctionDef, '__setitem__', 'odict')
    new_only = None
    for n in ast.walk(si):
        if isinstance(n, ast.If) and isinstance(n.test, ast.UnaryOp) and isinstance(n.test.op, ast.Not) \
                and isinstance(n.test.operand, ast.Compare) and isinstance(n.test.operand.ops[0], ast.In):
            for st in n.body:
                if isinstance(st, ast.Expr) and isinstance(st.value, ast.Call) and isinstance(st.value.func, ast.Attribute) \
                        and st.value.func.attr == 'append':
                    new_only = True
    if new_only is None:
        appends = [n for n in ast.walk(si) if isinstance(n, ast.Call) and isinstance(n.func, ast.Attribute) and n.func.attr == 'append']
        if appends:
            new_only = False
        else:
            raise TranslateError('odict.__setitem__: no append of the key')
    ins = find(cd.body, ast.FunctionDef, 'insert', 'odict')
    moves, inserts = False, False
    for st in ins.body:
        if isinstance(st, ast.If) and isinstance(st.test, ast.Compare) and isinstance(st.test.ops[0], ast.In) \
                and any(isinstance(x, ast.Delete) for x in st.body):
            moves = True
        if isinstance(st, ast.Expr) and isinstance(st.value, ast.Call) and isinstance(st.value.func, ast.Attribute) \
                and st.value.func.attr == 'insert':
            inserts = True
    if not inserts:
        # an insert that happens only under a condition does not always put the key at the index
        moves = False
    return new_only, moves


# ----------------------------------------------------------------------------------------------- output
def gtext(s):
    return '[' + '; '.join(str(ord(c)) for c in s) + ']'

def gbool(b):
    return 'true' if b else 'false'

def greq(l):
    out = []
    for k, v in l:
        if isinstance(v, bool):
            out.append('(%s, RB %s)' % (gtext(k), gbool(v)))
        elif isinstance(v, int):
            out.append('(%s, RZ (%d))' % (gtext(k), v))
        else:
            raise TranslateError('request value %r' % (v,))
    return '[' + '; '.join(out) + ']'


def generate(repo):
    cx = parse(repo, 'spyne/model/complex.py')
    mb = parse(repo, 'spyne/model/_base.py')
    nb = parse(repo, 'spyne/model/primitive/number.py')
    od = parse(repo, 'spyne/util/odict.py')
    bn = parse(repo, 'spyne/model/binary.py')
    pb = parse(repo, 'spyne/protocol/_base.py')
    cmb = find(cx.body, ast.ClassDef, 'ComplexModelBase', 'complex.py')
    meta = find(cx.body, ast.ClassDef, 'ComplexModelMeta', 'complex.py')
    m_writes, m_base, m_uni = mandatory(cx)
    copies, registers = customize_copy(cmb)
    fresh, keys, unbounded = s_customize(mb)
    from_request, add = decimal_msl(nb)
    new_only, moves = odict_shape(od)
    t = []
    t.append('(* GENERATED by harness/translate/derive.py from spyne/model/complex.py, spyne/model/_base.py,\n'
             '   spyne/model/primitive/number.py, spyne/util/odict.py of the tree under check.  Do not edit. *)\n')
    t.append('From SpyneV Require Import Base.Prelude.\n')
    t.append('Inductive reqval := RZ (z : Z) | RB (b : bool).\n')
    t.append('(* Mandatory(): stores into / calls a mutating method on its argument *)')
    t.append('Definition mandatory_writes_argument : bool := %s.' % gbool(m_writes))
    t.append('Definition mandatory_request : list (text * reqval) := %s.' % greq(m_base))
    t.append('Definition mandatory_unicode_request : list (text * reqval) := %s.' % greq(m_uni))
    t.append('(* ComplexModelBase.customize: retval._type_info = TypeInfo(cls._type_info), variants registered unless cls is ComplexModel *)')
    t.append('Definition customize_copies_type_info : bool := %s.' % gbool(copies))
    t.append('Definition customize_registers_variant : bool := %s.' % gbool(registers))
    t.append('(* ModelBase._s_customize: a fresh "class Attributes(cls.Attributes)", nothing written through cls *)')
    t.append('Definition s_customize_fresh_attributes : bool := %s.' % gbool(fresh))
    t.append('Definition s_customize_special_keys : list text := [%s].' % '; '.join(gtext(k) for k in keys))
    t.append('Definition s_customize_unbounded_aliases : list text := [%s].' % '; '.join(gtext(k) for k in unbounded))
    t.append('(* _process_child_attrs works on copies of the dictionaries of the caller *)')
    t.append('Definition child_attrs_copied : bool := %s.' % gbool(child_attrs(cx)))
    t.append('(* ComplexModelMeta.__init__ gives a subclass its own (empty) registry of variants *)')
    t.append('Definition subclass_resets_variants : bool := %s.' % gbool(subclass_reset(meta)))
    t.append('(* _get_type_info leaves __extends__ of a customized class alone *)')
    t.append('Definition customized_keeps_extends : bool := %s.' % gbool(keeps_extends(cx)))
    t.append('(* _get_type_info: a base class with members of its own, or that itself extends a class, becomes __extends__ *)')
    t.append('Definition memberless_base_kept : bool := %s.' % gbool(memberless_base(cx)))
    t.append('(* _get_flat_type_info: the parent first, then the own fields *)')
    t.append('Definition flat_parent_first : bool := %s.' % gbool(flat_order(cx)))
    t.append('(* append_field / insert_field: the class, then every registered variant *)')
    t.append('Definition evolution_propagates : bool := %s.' % gbool(propagation(cmb)))
    t.append('(* Decimal._s_customize: max_str_len computed from the request, "+ n" *)')
    t.append('Definition decimal_msl_from_request : bool := %s.' % gbool(from_request))
    t.append('Definition decimal_msl_add : Z := %d.' % add)
    per_class, checked = sortcache_key(pb)
    t.append('(* _s_customize merges the keywords into a copy of the type_attrs of the protocol *)')
    t.append('Definition type_attrs_copied : bool := %s.' % gbool(type_attrs_copied(mb)))
    t.append('(* _s_customize deep-copies the inherited sqla_column_args *)')
    t.append('Definition column_args_copied : bool := %s.' % gbool(column_args_copied(mb)))
    t.append('(* ByteArray.__new__ rewrites kwargs["encoding"] only under "if \'encoding\' in kwargs" *)')
    t.append('Definition bytearray_encoding_only_when_given : bool := %s.' % gbool(bytearray_new(bn)))
    t.append('(* ProtocolMixin.sort_fields: one cache entry per class, checked against the flat type info it came from *)')
    t.append('Definition sortcache_per_class : bool := %s.' % gbool(per_class))
    t.append('Definition sortcache_checked : bool := %s.' % gbool(checked))
    t.append('(* the alias table of the flat type info is computed from the flat fields, not stored *)')
    t.append('Definition flat_alias_from_fields : bool := %s.' % gbool(flat_alias_source(cx, cmb)))
    t.append('(* odict: __setitem__ appends only a new key; insert moves a known key *)')
    t.append('Definition odict_setitem_new_only : bool := %s.' % gbool(new_only))
    t.append('Definition odict_insert_moves : bool := %s.' % gbool(moves))
    return {'DeriveSrc.v': '\n'.join(t) + '\n'}
