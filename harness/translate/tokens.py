"""Decisive tokens of the modelled Python functions  ->  Gen/Tokens.v

For every function listed in TARGETS the translator emits, in source order, the tokens that decide
what the function computes and that the hand-written Gallina models transcribe literally: string and
number constants, comparison / boolean / arithmetic operators, and the names of called attributes
(``isoformat``, ``strptime``, ``lower`` ...).  Local variable names, comments, docstrings, log and
error messages (constants inside ``raise`` statements and ``logger.*`` calls) are NOT tokens, so
renaming, re-wrapping or re-wording does not change the table.  Module-level regular expressions and
pattern strings are emitted as the string the *imported* module computes (so concatenations are
evaluated by the interpreter, not by us).

The Coq side (coq/<Prop>/Pins.v) states, as Examples proved by reflexivity, that each table equals the
one the models and proofs were written against; an edit of a decisive token therefore breaks a proof
obligation directly.  Fail closed: a target that no longer exists raises TranslateError.
"""
import ast, os, re, importlib, sys
from .pyexpr import TranslateError

# (key, file, class or None, function)
FUNCS = [
    # datetime_from_unicode_iso and duration_to_unicode are translated semantically by c08sem.py (Gen/C08Sem.v)
    # -- C08 / C05: primitive text codecs
    ('out_integer_to_unicode', 'spyne/protocol/_outbase.py', 'OutProtocolBase', 'integer_to_unicode'),
    ('out_decimal_to_unicode', 'spyne/protocol/_outbase.py', 'OutProtocolBase', 'decimal_to_unicode'),
    ('out_double_to_unicode', 'spyne/protocol/_outbase.py', 'OutProtocolBase', 'double_to_unicode'),
    ('out_boolean_to_unicode', 'spyne/protocol/_outbase.py', 'OutProtocolBase', 'boolean_to_unicode'),
    ('out_time_to_unicode', 'spyne/protocol/_outbase.py', 'OutProtocolBase', 'time_to_unicode'),
    ('out_date_to_unicode', 'spyne/protocol/_outbase.py', 'OutProtocolBase', 'date_to_unicode'),
    ('out_datetime_to_unicode', 'spyne/protocol/_outbase.py', 'OutProtocolBase', 'datetime_to_unicode'),
    ('out__datetime_to_unicode', 'spyne/protocol/_outbase.py', 'OutProtocolBase', '_datetime_to_unicode'),
    ('out_byte_array_to_unicode', 'spyne/protocol/_outbase.py', 'OutProtocolBase', 'byte_array_to_unicode'),
    ('in_integer_from_bytes', 'spyne/protocol/_inbase.py', 'InProtocolBase', 'integer_from_bytes'),
    ('in_decimal_from_unicode', 'spyne/protocol/_inbase.py', 'InProtocolBase', 'decimal_from_unicode'),
    ('in_boolean_from_bytes', 'spyne/protocol/_inbase.py', 'InProtocolBase', 'boolean_from_bytes'),
    ('in_time_from_unicode', 'spyne/protocol/_inbase.py', 'InProtocolBase', 'time_from_unicode'),
    ('in_date_from_unicode_iso', 'spyne/protocol/_inbase.py', 'InProtocolBase', 'date_from_unicode_iso'),
    ('in_date_from_unicode', 'spyne/protocol/_inbase.py', 'InProtocolBase', 'date_from_unicode'),
    ('in_duration_from_unicode', 'spyne/protocol/_inbase.py', 'InProtocolBase', 'duration_from_unicode'),
    ('in__parse_datetime_iso_match', 'spyne/protocol/_inbase.py', None, '_parse_datetime_iso_match'),
    ('in_uuid_from_unicode', 'spyne/protocol/_inbase.py', 'InProtocolBase', 'uuid_from_unicode'),
    ('out_uuid_to_unicode', 'spyne/protocol/_outbase.py', 'OutProtocolBase', 'uuid_to_unicode'),
    ('in_byte_array_from_bytes', 'spyne/protocol/_inbase.py', 'InProtocolBase', 'byte_array_from_bytes'),
    ('bin_to_base64', 'spyne/model/binary.py', 'ByteArray', 'to_base64'),
    ('bin_from_base64', 'spyne/model/binary.py', 'ByteArray', 'from_base64'),
    ('bin_to_urlsafe_base64', 'spyne/model/binary.py', 'ByteArray', 'to_urlsafe_base64'),
    ('bin_from_urlsafe_base64', 'spyne/model/binary.py', 'ByteArray', 'from_urlsafe_base64'),
    ('bin_to_hex', 'spyne/model/binary.py', 'ByteArray', 'to_hex'),
    ('bin_from_hex', 'spyne/model/binary.py', 'ByteArray', 'from_hex'),
]
# module-level values read from the imported module: (key, module, expression evaluated in it)
VALUES = [
    # the date/time/duration/uuid patterns are translated semantically by regexes.py (Gen/Regexes.v, coq/C08/RegexTie.v)
    ('fn_uuid_serialize_default', 'spyne.protocol._outbase', 'repr(_uuid_serialize[None])'),
    ('fn_uuid_deserialize_default', 'spyne.protocol._inbase',
     "__import__('inspect').getsource(_uuid_deserialize[None]).strip()"),
    ('fmt_DateTime_dt_format', 'spyne.model.primitive.datetime', 'repr(DateTime.Attributes.dt_format)'),
    ('fmt_DateTime_out_format', 'spyne.model.primitive.datetime', 'repr(DateTime.Attributes.out_format)'),
    ('fmt_Date_date_format', 'spyne.model.primitive.datetime', 'repr(Date.Attributes.date_format)'),
    ('fmt_DateTime_string_format', 'spyne.model.primitive.datetime', 'repr(DateTime.Attributes.string_format)'),
    ('fmt_Time_time_format', 'spyne.model.primitive.datetime', 'repr(Time.Attributes.time_format)'),
]

OPN = {ast.Add: '+', ast.Sub: '-', ast.Mult: '*', ast.Div: '/', ast.FloorDiv: '//', ast.Mod: '%', ast.Pow: '**',
       ast.LShift: '<<', ast.RShift: '>>', ast.BitOr: '|', ast.BitAnd: '&', ast.BitXor: '^', ast.MatMult: '@'}


def _is_message_context(stack):
    for n in stack:
        if isinstance(n, ast.Raise):
            return True
        if isinstance(n, ast.Call):
            f = n.func
            if isinstance(f, ast.Attribute) and isinstance(f.value, ast.Name) and \
                    f.value.id.startswith('logger'):
                return True
            if isinstance(f, ast.Name) and f.id in ('ValidationError', 'warn'):
                return True
    return False


class _Py3Fold(ast.NodeTransformer):
    """The models transcribe what the functions compute on Python 3 (the only interpreter the checks run): ``six.PY2``
    is False and ``six.PY3`` is True there, so a test on them is folded and the dead branch dropped before the tokens
    are read -- removing a dead Python 2 shim from the source then leaves the table unchanged.  Only these two
    names are folded, and only in `if` / `elif` / conditional-expression tests, `not`, `and`, `or`."""
    CONST = {'PY2': False, 'PY3': True}

    def visit_Attribute(self, n):
        self.generic_visit(n)
        if isinstance(n.value, ast.Name) and n.value.id == 'six' and n.attr in self.CONST \
                and isinstance(n.ctx, ast.Load):
            return ast.copy_location(ast.Constant(self.CONST[n.attr]), n)
        return n

    @staticmethod
    def _const(n):
        return isinstance(n, ast.Constant) and isinstance(n.value, bool)

    def visit_UnaryOp(self, n):
        self.generic_visit(n)
        if isinstance(n.op, ast.Not) and self._const(n.operand):
            return ast.copy_location(ast.Constant(not n.operand.value), n)
        return n

    def visit_BoolOp(self, n):
        self.generic_visit(n)
        absorbing = isinstance(n.op, ast.Or)          # True absorbs `or`, False absorbs `and`
        vals = []
        for v in n.values:
            if self._const(v):
                if v.value is absorbing:
                    vals.append(v)                    # evaluation stops here with this value
                    break
                continue                              # neutral element: dropped
            vals.append(v)
        if not vals:
            return ast.copy_location(ast.Constant(not absorbing), n)
        if len(vals) == 1:
            return vals[0]
        if self._const(vals[-1]) and len(vals) > 1:
            # `x and False`: x is still evaluated; keep it as it is (not folded)
            n.values = vals
            return n
        n.values = vals
        return n

    def visit_If(self, n):
        self.generic_visit(n)
        if self._const(n.test):
            return (n.body if n.test.value else n.orelse) or None
        return n

    def visit_IfExp(self, n):
        self.generic_visit(n)
        if self._const(n.test):
            return n.body if n.test.value else n.orelse
        return n


def py3_fold(fn):
    fn = _Py3Fold().visit(ast.parse(ast.unparse(fn)).body[0])
    ast.fix_missing_locations(fn)
    for node in ast.walk(fn):                          # a block emptied by folding
        for f in ('body', 'orelse', 'finalbody'):
            if isinstance(getattr(node, f, None), list) and f == 'body' and not getattr(node, f):
                node.body = [ast.Pass()]
    return fn


def function_tokens(fn):
    toks = []
    fn = py3_fold(fn)
    body = fn.body
    if body and isinstance(body[0], ast.Expr) and isinstance(getattr(body[0], 'value', None), ast.Constant) \
            and isinstance(body[0].value.value, str):
        body = body[1:]

    def visit(n, stack):
        stack = stack + [n]
        msg = _is_message_context(stack)
        if isinstance(n, ast.Constant):
            if msg or n.value is None:
                return
            v = n.value
            if isinstance(v, bool):
                toks.append('b:%s' % v)
            elif isinstance(v, (int,)):
                toks.append('n:%d' % v)
            elif isinstance(v, float):
                toks.append('f:%s' % v.hex())
            elif isinstance(v, bytes):
                toks.append('y:%s' % v.decode('latin-1'))
            elif isinstance(v, str):
                toks.append('s:%s' % v)
            else:
                toks.append('c:%r' % (v,))
            return
        if isinstance(n, ast.Compare):
            visit(n.left, stack)
            for op, c in zip(n.ops, n.comparators):
                toks.append('op:%s' % type(op).__name__)
                visit(c, stack)
            return
        if isinstance(n, ast.BoolOp):
            toks.append('op:%s' % type(n.op).__name__)
        elif isinstance(n, ast.BinOp):
            visit(n.left, stack)
            toks.append('op:%s' % OPN.get(type(n.op), type(n.op).__name__))
            visit(n.right, stack)
            return
        elif isinstance(n, ast.UnaryOp):
            toks.append('op:%s' % type(n.op).__name__)
        elif isinstance(n, ast.Call) and not msg:
            f = n.func
            if isinstance(f, ast.Attribute):
                toks.append('call:.%s' % f.attr)
            elif isinstance(f, ast.Name):
                toks.append('call:%s' % f.id)
        elif isinstance(n, ast.ExceptHandler):
            t = n.type
            names = []
            if t is not None:
                for e in (t.elts if isinstance(t, ast.Tuple) else [t]):
                    names.append(ast.unparse(e))
            toks.append('except:%s' % ','.join(names))
        elif isinstance(n, (ast.Return,)):
            toks.append('return')
        elif isinstance(n, ast.Raise):
            toks.append('raise:%s' % (ast.unparse(n.exc.func) if isinstance(n.exc, ast.Call)
                                     else (ast.unparse(n.exc) if n.exc is not None else '')))
            return
        for ch in ast.iter_child_nodes(n):
            visit(ch, stack)

    for st in body:
        visit(st, [])
    return toks


def coq_str(s):
    """a Coq string literal if the text is printable ASCII, else None"""
    if all(32 <= ord(c) < 127 or c == '\n' for c in s):
        return '(t "%s")' % s.replace('"', '""')
    return None


def coq_text(s):
    lit = coq_str(s)
    if lit is not None:
        return lit
    return '[' + '; '.join(str(ord(c)) for c in s) + ']%Z'


def find(tree, cls, name):
    scope = tree.body
    if cls:
        for n in scope:
            if isinstance(n, ast.ClassDef) and n.name == cls:
                scope = n.body
                break
        else:
            raise TranslateError('class %s not found' % cls)
    hits = [n for n in scope if isinstance(n, ast.FunctionDef) and n.name == name]
    if len(hits) != 1:
        raise TranslateError('%s.%s: %d definitions' % (cls, name, len(hits)))
    return hits[0]


def table(repo, funcs=FUNCS, values=VALUES):
    out = {}
    trees = {}
    for key, fn, cls, name in funcs:
        if fn not in trees:
            trees[fn] = ast.parse(open(os.path.join(repo, fn)).read())
        out['tok_' + key] = function_tokens(find(trees[fn], cls, name))
    if sys.path[0] != repo:
        sys.path.insert(0, repo)
    for key, mod, expr in values:
        m = importlib.import_module(mod)
        if not os.path.abspath(m.__file__).startswith(os.path.abspath(repo) + os.sep):
            raise TranslateError('%s imported from %s, not from %s' % (mod, m.__file__, repo))
        try:
            v = eval(expr, vars(m))
        except Exception as e:
            raise TranslateError('%s: %s does not evaluate: %r' % (mod, expr, e))
        if not isinstance(v, str):
            raise TranslateError('%s: %s is not a string' % (mod, expr))
        out['val_' + key] = v
    return out


HEADER = '''(* GENERATED by harness/translate/tokens.py from the working tree; do not edit. *)
From Coq Require Import ZArith List String Ascii.
Import ListNotations.
Open Scope Z_scope.
(** a printable-ASCII string as a list of code points *)
Definition t (s : string) : list Z := map (fun a => Z.of_N (N_of_ascii a)) (list_ascii_of_string s).
'''


def render(tab):
    lines = [HEADER]
    for k in sorted(tab):
        v = tab[k]
        if isinstance(v, str):
            lines.append('Definition %s : list Z := %s.' % (k, coq_text(v)))
        else:
            lines.append('Definition %s : list (list Z) := [%s].' % (k, '; '.join(coq_text(x) for x in v)))
    return '\n'.join(lines) + '\n'


def generate(repo):
    return {'Tokens.v': render(table(repo))}
