"""A small symbolic executor for straight-line / if / raise / return Python code,
used by the C04 translators to compare code *semantically* instead of textually.

A program (a list of ``ast`` statements plus an initial environment) is run
under a valuation of its *atoms* — the irreducible boolean tests it makes,
printed canonically after substituting every local by its defining expression.
The result is an outcome: ``('return', expr)``, ``('raise', ExceptionClass)`` or
``('fall', ((var, expr), ...))`` for the observed variables.  Exploring every
valuation gives the program's decision table; two programs are *equivalent*
when their tables agree on every valuation of the union of their atoms
(atoms are treated as independent booleans, which is sound for accepting:
real inputs only ever realise a subset of the valuations).

What is normalised away (behaviour-preserving rewrites):
  * names of locals (substituted by their definitions), docstrings, comments,
    ``pass``, logging calls, the arguments (messages) of raised exceptions;
  * guard clauses vs if/else, early return/raise vs nested else, ``not`` /
    ``is not`` / ``!=`` / ``not in`` spellings, De Morgan forms (truth tables);
  * ``x = f(...); return x`` vs ``return f(...)``; tuple unpacking vs indexing;
  * private helpers of the same class (``self._h(...)`` as the whole right-hand
    side of an assignment or of a return) are inlined unless listed as opaque;
  * ``isinstance(x, T)`` where T is a tuple / list / set / ``tuple({...})`` /
    module-level constant of classes: a disjunction of one-class atoms, in any
    order; Python-2 aliases (``six.text_type`` -> ``str`` ...).

Everything else is compared as printed: a construct the executor does not know
raises TranslateError (fail closed).
"""
import ast, copy, itertools
from .pyexpr import TranslateError

ALIASES = {
    'six.text_type': 'str', 'six.binary_type': 'bytes', 'six.string_types': ('str',), 'six.integer_types': ('int',),
    'text_type': 'str', 'binary_type': 'bytes', 'string_types': ('str',), 'unicode': 'str',
}


def dotted(n):
    parts = []
    while isinstance(n, ast.Attribute):
        parts.append(n.attr)
        n = n.value
    if isinstance(n, ast.Name):
        parts.append(n.id)
        return '.'.join(reversed(parts))
    return None


class _Subst(ast.NodeTransformer):
    def __init__(self, env):
        self.env = env

    def visit_Name(self, n):
        if isinstance(n.ctx, ast.Load) and n.id in self.env:
            return copy.deepcopy(self.env[n.id])
        return n

    def visit_Attribute(self, n):
        d = dotted(n)
        if d in ALIASES and isinstance(ALIASES[d], str):
            return ast.Name(id=ALIASES[d], ctx=ast.Load())
        return self.generic_visit(n)


def subst(expr, env):
    return _Subst(env).visit(copy.deepcopy(expr))


def canon(expr):
    return ast.dump(expr, annotate_fields=False)


class Need(Exception):
    def __init__(self, atom):
        self.atom = atom


class Machine(object):
    def __init__(self, helpers=None, opaque=(), consts=None, observe=()):
        self.helpers = helpers or {}      # name -> ast.FunctionDef (same class)
        self.opaque = set(opaque)
        self.consts = consts or {}        # module-level NAME -> ast expr
        self.observe = tuple(observe)

    # ---------------------------------------------------------------- class sets of isinstance
    def class_set(self, t, depth=0):
        """the classes named by the second argument of isinstance, or None"""
        if depth > 4:
            return None
        d = dotted(t) if isinstance(t, (ast.Name, ast.Attribute)) else None
        if d is not None:
            if d in ALIASES:
                a = ALIASES[d]
                return [a] if isinstance(a, str) else list(a)
            if isinstance(t, ast.Name) and t.id in self.consts:
                return self.class_set(self.consts[t.id], depth + 1)
            return [d]
        if isinstance(t, (ast.Tuple, ast.List, ast.Set)):
            out = []
            for e in t.elts:
                s = self.class_set(e, depth + 1)
                if s is None:
                    return None
                out.extend(s)
            return out
        if isinstance(t, ast.Call) and isinstance(t.func, ast.Name) and t.func.id in ('tuple', 'frozenset', 'set', 'list') \
                and len(t.args) == 1 and not t.keywords:
            return self.class_set(t.args[0], depth + 1)
        if isinstance(t, ast.BinOp) and isinstance(t.op, ast.Add):
            a, b = self.class_set(t.left, depth + 1), self.class_set(t.right, depth + 1)
            return None if a is None or b is None else a + b
        return None

    # ---------------------------------------------------------------- tests
    def truth(self, test, env, val):
        """value of a test under the valuation; raises Need(atom) for an undecided atom"""
        if isinstance(test, ast.BoolOp):
            if isinstance(test.op, ast.And):
                for v in test.values:
                    if not self.truth(v, env, val):
                        return False
                return True
            for v in test.values:
                if self.truth(v, env, val):
                    return True
            return False
        if isinstance(test, ast.UnaryOp) and isinstance(test.op, ast.Not):
            return not self.truth(test.operand, env, val)
        if isinstance(test, ast.Constant) and test.value in (True, False):
            return bool(test.value)
        if isinstance(test, ast.Compare) and len(test.ops) == 1:
            op, l, r = test.ops[0], test.left, test.comparators[0]
            neg = {ast.IsNot: ast.Is, ast.NotEq: ast.Eq, ast.NotIn: ast.In}.get(type(op))
            if neg is not None:
                return not self.truth(ast.Compare(left=l, ops=[neg()], comparators=[r]), env, val)
        if isinstance(test, ast.Call) and isinstance(test.func, ast.Name) and test.func.id in ('isinstance', 'issubclass') \
                and len(test.args) == 2 and not test.keywords:
            cs = self.class_set(subst(test.args[1], env))
            if cs is not None and len(cs) != 1:
                for c in sorted(set(cs)):
                    one = ast.Call(func=test.func, args=[test.args[0], ast.Name(id=c, ctx=ast.Load())], keywords=[])
                    if self.truth(one, env, val):
                        return True
                return False
            if cs is not None:
                test = ast.Call(func=test.func, args=[test.args[0], ast.Name(id=cs[0], ctx=ast.Load())], keywords=[])
        a = canon(subst(test, env))
        if a not in val:
            raise Need(a)
        return val[a]

    # ---------------------------------------------------------------- statements
    def is_noise(self, s):
        if isinstance(s, ast.Pass):
            return True
        if isinstance(s, ast.Expr):
            if isinstance(s.value, ast.Constant):
                return True
            if isinstance(s.value, ast.Call):
                d = dotted(s.value.func)
                if d and d.split('.')[0] in ('logger', 'logger_invalid', 'logger_client', 'logger_server', 'logging'):
                    return True
        return False

    def helper_call(self, e):
        """(FunctionDef, [arg exprs]) when e is self._h(...) / Cls._h(...) for an inlinable helper"""
        if isinstance(e, ast.Call) and isinstance(e.func, ast.Attribute) and isinstance(e.func.value, ast.Name) \
                and e.func.attr in self.helpers and e.func.attr not in self.opaque and not e.keywords:
            if any(isinstance(a, ast.Starred) for a in e.args):
                return None
            return self.helpers[e.func.attr], e.args
        return None

    def value_of(self, e, env, val, depth):
        """symbolic value of an expression (inlining a helper call), or an outcome tuple when the helper raises"""
        h = self.helper_call(e)
        if h is None:
            return subst(e, env)
        fn, args = h
        if depth > 3:
            raise TranslateError('helper calls nested too deeply')
        params = [a.arg for a in fn.args.args]
        static = any(isinstance(d, ast.Name) and d.id == 'staticmethod' for d in fn.decorator_list)
        if not static:
            params = params[1:]
        if len(params) != len(args) or fn.args.vararg or fn.args.kwarg or fn.args.kwonlyargs:
            raise TranslateError('cannot inline %s: unexpected signature' % fn.name)
        henv = dict((p, subst(a, env)) for p, a in zip(params, args))
        out = self.run(fn.body, henv, val, depth + 1, observe=())
        if out[0] == 'return':
            return out[1]
        if out[0] == 'raise':
            return out
        raise TranslateError('helper %s can end without return' % fn.name)

    def run(self, stmts, env, val, depth=0, observe=None):
        env = dict(env)
        r = self._block(list(stmts), env, val, depth)
        if r is not None:
            return r
        obs = self.observe if observe is None else observe
        return ('fall', tuple((v, canon(env[v]) if v in env else v) for v in obs))

    def _block(self, stmts, env, val, depth):
        for i, s in enumerate(stmts):
            if self.is_noise(s):
                continue
            if isinstance(s, ast.Return):
                if s.value is None:
                    return ('return', ast.Constant(value=None))
                v = self.value_of(s.value, env, val, depth)
                return v if isinstance(v, tuple) else ('return', v)
            if isinstance(s, ast.Raise):
                e = s.exc
                name = dotted(e.func) if isinstance(e, ast.Call) else (dotted(e) if e is not None else 'reraise')
                return ('raise', name)
            if isinstance(s, ast.If):
                branch = s.body if self.truth(s.test, env, val) else s.orelse
                r = self._block(list(branch), env, val, depth)
                if r is not None:
                    return r
                continue
            if isinstance(s, ast.Assign) and len(s.targets) == 1:
                t = s.targets[0]
                v = self.value_of(s.value, env, val, depth)
                if isinstance(v, tuple):
                    return v
                if isinstance(t, ast.Name):
                    env[t.id] = v
                    continue
                if isinstance(t, ast.Tuple) and all(isinstance(x, ast.Name) for x in t.elts):
                    if isinstance(v, ast.Tuple) and len(v.elts) == len(t.elts):
                        for x, e in zip(t.elts, v.elts):
                            env[x.id] = e
                    else:
                        for k, x in enumerate(t.elts):
                            env[x.id] = ast.Subscript(value=v, slice=ast.Constant(value=k), ctx=ast.Load())
                    continue
            raise TranslateError('statement outside the fragment: %s' % ast.dump(s)[:120])
        return None

    # ---------------------------------------------------------------- decision tables
    def table(self, stmts, env):
        """all paths: list of (dict atom -> bool, outcome)"""
        out, todo = [], [{}]
        while todo:
            val = todo.pop()
            try:
                r = self.run(stmts, env, val)
                if r[0] == 'return' and not isinstance(r[1], str):
                    r = ('return', canon(r[1]))
                out.append((val, r))
            except Need as n:
                if len(val) > 10:
                    raise TranslateError('too many atoms')
                for b in (True, False):
                    v2 = dict(val)
                    v2[n.atom] = b
                    todo.append(v2)
        return out


def lookup(table, val):
    for cond, r in table:
        if all(val.get(a) == b for a, b in cond.items()):
            return r
    raise TranslateError('decision table is not total')


def equivalent(t1, t2):
    atoms = sorted(set(a for c, _ in t1 for a in c) | set(a for c, _ in t2 for a in c))
    if len(atoms) > 12:
        raise TranslateError('too many atoms to compare')
    for bits in itertools.product((True, False), repeat=len(atoms)):
        val = dict(zip(atoms, bits))
        if lookup(t1, val) != lookup(t2, val):
            return False
    return True


def class_helpers(tree, clsname):
    for n in tree.body:
        if isinstance(n, ast.ClassDef) and n.name == clsname:
            return dict((f.name, f) for f in n.body if isinstance(f, ast.FunctionDef) and f.name.startswith('_')
                        and not f.name.startswith('__'))
    return {}


def module_consts(tree):
    out = {}
    for n in tree.body:
        if isinstance(n, ast.Assign) and len(n.targets) == 1 and isinstance(n.targets[0], ast.Name):
            out[n.targets[0].id] = n.value
    return out


def fn_program(fn, skip_self=True):
    """(statements, initial environment) of a function with its parameters renamed a0, a1, ..."""
    names = [a.arg for a in fn.args.args]
    if fn.args.vararg or fn.args.kwarg or fn.args.kwonlyargs:
        raise TranslateError('%s: unexpected signature' % fn.name)
    if skip_self and names and names[0] == 'self':
        names = names[1:]
    env = dict((n, ast.Name(id='a%d' % i, ctx=ast.Load())) for i, n in enumerate(names))
    return fn.body, env
