"""The places of Spyne where one token decides which function a request runs  ->  Gen/RouteKeys.v

Every function below is matched, statement for statement, against a skeleton (docstrings and logger calls
aside); the decisive constants are HOLEs of the skeleton and are *extracted* from the working tree:

  Interface.process_method            the '{%s}%s' format of the route key, the index of val.insert(<i>, method)
  ProtocolMixin.get_call_handles      the prefix that marks a qualified name, the '{%s}%s' format
  ProtocolMixin.generate_method_contexts  empty handle list -> ResourceNotFoundError; one context per handle
  DictDocument / MessagePackDocument .gen_method_request_string, MessagePackRpc and WsgiApplication
  .decompose_incoming_envelope        the '{%s}%s' formats, the separator and index of PATH_INFO.split('/')[-1]
  XmlDocument / Soap11 .decompose_incoming_envelope   method_request_string = <body element>.tag
  Application.check_unique_method_keys, HttpBase.__init__, HttpBase.match_pattern   (skeleton only)

coq/C11/SourceTie.v proves, for the extracted constants, that they render exactly the strings / take exactly
the branches of coq/C11/Model.v (universally quantified lemmas), so an edit of one of these tokens breaks an
obligation of Props/C11_src.v.

Like wsgireader this translator always writes a compilable file: when a skeleton does not match (for instance
on the unrepaired tree) it writes ``rk_shape_ok := false`` with the constants of the repaired tree, and the
obligation C11_src_shape fails."""
import ast, os

from .pyexpr import TranslateError
from . import c11norm

SITES = [
    # (key, file, class, function, mode, skeleton)
    ('process_method', 'spyne/interface/_base.py', 'Interface', 'process_method', 'whole', '''
def process_method(self, s, method):
    assert isinstance(method, MethodDescriptor)
    method_key = HOLE_pm_fmt % (self.app.tns, method.name)
    if issubclass(s, ComplexModelBase):
        method_object_name = method.name.split('.', 1)[0]
        if s.get_type_name() != method_object_name:
            method_key = '{%s}%s.%s' % (self.app.tns, s.get_type_name(), method.name)
    key = method.gen_interface_key(s)
    if key in self.method_id_map:
        other = self.method_id_map[key]
        c = other.parent_class
        if c is None:
            if other is not method:
                raise ValueError(HOLE_errmsg1)
        elif c is s:
            pass
        elif c.__orig__ is None:
            assert c is s.__orig__, HOLE_errmsg2
        elif s.__orig__ is None:
            assert c.__orig__ is s, HOLE_errmsg3
        else:
            assert c.__orig__ is s.__orig__, HOLE_errmsg4
        return
    self.method_id_map[key] = method
    val = self.service_method_map.get(method_key, None)
    if val is None:
        val = self.service_method_map[method_key] = []
    if len(val) == 0:
        val.append(method)
    elif method.aux is not None:
        val.append(method)
    elif val[0].aux is not None:
        val.insert(HOLE_pm_insert_index, method)
    else:
        om = val[0]
        os = om.service_class
        if os is None:
            os = om.parent_class
        raise ValueError(HOLE_errmsg5)
'''),
    ('get_call_handles', 'spyne/protocol/_base.py', 'ProtocolMixin', 'get_call_handles', 'whole', '''
def get_call_handles(self, ctx):
    name = ctx.method_request_string
    if name is None:
        return []
    if not name.startswith(HOLE_gch_prefix):
        name = HOLE_gch_fmt % (self.app.interface.get_tns(), name)
    call_handles = self.app.interface.service_method_map.get(name, [])
    return call_handles
'''),
    ('generate_method_contexts', 'spyne/protocol/_base.py', 'ProtocolMixin', 'generate_method_contexts', 'whole', '''
def generate_method_contexts(self, ctx):
    call_handles = self.get_call_handles(ctx)
    if len(call_handles) == 0:
        raise ResourceNotFoundError(ctx.method_request_string)
    retval = []
    for d in call_handles:
        assert d is not None
        c = ctx.copy()
        c.descriptor = d
        retval.append(c)
    return retval
'''),
    ('dictdoc', 'spyne/protocol/dictdoc/_base.py', 'DictDocument', 'gen_method_request_string', 'whole', '''
def gen_method_request_string(self, ctx):
    mrs, = ctx.in_body_doc.keys()
    return HOLE_dictdoc_fmt % (self.app.interface.get_tns(), mrs)
'''),
    ('msgpackdoc', 'spyne/protocol/msgpack.py', 'MessagePackDocument', 'gen_method_request_string', 'whole', '''
def gen_method_request_string(self, ctx):
    mrs, = ctx.in_body_doc.keys()
    if not six.PY2 and isinstance(mrs, bytes):
        try:
            mrs = mrs.decode(self.key_encoding)
        except UnicodeDecodeError as e:
            raise MessagePackDecodeError(str(e))
    return HOLE_msgpackdoc_fmt % (self.app.interface.get_tns(), mrs)
'''),
    ('msgpackrpc', 'spyne/protocol/msgpack.py', 'MessagePackRpc', 'decompose_incoming_envelope', 'mrs', '''
ctx.method_request_string = HOLE_msgpackrpc_fmt % (self.app.interface.get_tns(), msgname_or_error)
'''),
    ('wsgi', 'spyne/server/wsgi.py', 'WsgiApplication', 'decompose_incoming_envelope', 'mrs-if', '''
if ctx.method_request_string is None:
    ctx.method_request_string = HOLE_wsgi_fmt % (prot.app.interface.get_tns(), wsgi_env['PATH_INFO'].split(HOLE_wsgi_sep)[HOLE_wsgi_idx])
'''),
    ('xml', 'spyne/protocol/xml.py', 'XmlDocument', 'decompose_incoming_envelope', 'mrs', '''
ctx.method_request_string = ctx.in_body_doc.tag
'''),
    ('soap11', 'spyne/protocol/soap/soap11.py', 'Soap11', 'decompose_incoming_envelope', 'mrs', '''
ctx.method_request_string = ctx.in_body_doc.tag
'''),
    ('check_unique_method_keys', 'spyne/application.py', 'Application', 'check_unique_method_keys', 'whole', '''
def check_unique_method_keys(self):
    keys = {}
    for s in self.services:
        for mdesc in s.public_methods.values():
            other_mdesc = keys.get(mdesc.internal_key, None)
            if other_mdesc is not None:
                raise MethodAlreadyExistsError(mdesc.internal_key)
            keys[mdesc.internal_key] = mdesc
'''),
    ('httpbase_init', 'spyne/server/http.py', 'HttpBase', '__init__', 'whole', '''
def __init__(self, app, chunked=False, max_content_length=2 * 1024 * 1024, block_length=8 * 1024):
    super(HttpBase, self).__init__(app)
    self.chunked = chunked
    self.max_content_length = max_content_length
    self.block_length = block_length
    self._http_patterns = set()
    taken = {}
    for k, v in self.app.interface.service_method_map.items():
        p_method_descriptor = v[0]
        for patt in p_method_descriptor.patterns:
            if isinstance(patt, HttpPattern):
                other = taken.setdefault((patt.verb, patt.host, patt.address), patt)
                if other.endpoint is not patt.endpoint:
                    raise ValueError(HOLE_errmsg1)
                self._http_patterns.add(patt)
    self._http_patterns = list(reversed(sorted(self._http_patterns, key=lambda x: (x.address, x.host or b'', x.verb or ''))))
'''),
    ('match_pattern', 'spyne/server/http.py', 'HttpBase', 'match_pattern', 'whole', '''
def match_pattern(self, ctx, method='', path='', host=''):
    if not path.startswith(self.SLASH):
        path = self.SLASHPER % (path,)
    params = defaultdict(list)
    for patt in self._http_patterns:
        assert isinstance(patt, HttpPattern)
        if patt.verb is not None:
            match = self.get_patt_verb(patt).match(method)
            if match is None:
                continue
            if not match.span() == (0, len(method)):
                continue
            for k, v in match.groupdict().items():
                params[k].append(v)
        if patt.host is not None:
            match = self.get_patt_host(patt).match(host)
            if match is None:
                continue
            if not match.span() == (0, len(host)):
                continue
            for k, v in match.groupdict().items():
                params[k].append(v)
        if patt.address is None:
            if path.split(self.SLASH)[-1] != patt.endpoint.name:
                continue
        else:
            match = self.get_patt_address(patt).match(path)
            if match is None:
                continue
            if not match.span() == (0, len(path)):
                continue
            for k, v in match.groupdict().items():
                params[k].append(v)
        d = patt.endpoint
        assert isinstance(d, MethodDescriptor)
        ctx.method_request_string = d.name
        break
    return params
'''),
]

# constants of the repaired tree (written with rk_shape_ok := false when a skeleton does not match)
FALLBACK = {
    'pm_fmt': '{%s}%s', 'pm_insert_index': 0, 'gch_prefix': '{', 'gch_fmt': '{%s}%s', 'dictdoc_fmt': '{%s}%s',
    'msgpackdoc_fmt': '{%s}%s', 'msgpackrpc_fmt': '{%s}%s', 'wsgi_fmt': '{%s}%s', 'wsgi_sep': '/', 'wsgi_idx': -1,
}
KINDS = {'pm_fmt': 'fmt', 'pm_insert_index': 'int', 'gch_prefix': 'str', 'gch_fmt': 'fmt', 'dictdoc_fmt': 'fmt',
         'msgpackdoc_fmt': 'fmt', 'msgpackrpc_fmt': 'fmt', 'wsgi_fmt': 'fmt', 'wsgi_sep': 'str', 'wsgi_idx': 'int'}


def _strip(stmts):
    """drop docstrings / bare string statements and logger.<x>(...) calls, recursively"""
    out = []
    for st in stmts:
        if isinstance(st, ast.Expr):
            v = st.value
            if isinstance(v, ast.Constant) and isinstance(v.value, str):
                continue
            if (isinstance(v, ast.Call) and isinstance(v.func, ast.Attribute) and isinstance(v.func.value, ast.Name)
                    and v.func.value.id == 'logger'):
                continue
        for f in ('body', 'orelse', 'finalbody'):
            if hasattr(st, f) and isinstance(getattr(st, f), list):
                setattr(st, f, _strip(getattr(st, f)))
        out.append(st)
    return out


def _unify(sk, real, binds, where):
    """structural match of the skeleton node against the real node; Name('HOLE_x') matches any expression"""
    if isinstance(sk, ast.Name) and sk.id.startswith('HOLE_'):
        if not isinstance(real, ast.expr):
            raise TranslateError('%s: expression expected for %s' % (where, sk.id))
        name = sk.id[5:]
        if name.startswith('errmsg'):            # the text of an error message: anything
            return
        if name in binds and ast.dump(binds[name]) != ast.dump(real):
            raise TranslateError('%s: %s bound twice' % (where, sk.id))
        binds[name] = real
        return
    if type(sk) is not type(real):
        raise TranslateError('%s: line %s: %s where %s was expected' % (
            where, getattr(real, 'lineno', '?'), type(real).__name__, type(sk).__name__))
    if isinstance(sk, ast.AST):
        for f in sk._fields:
            if f in ('ctx', 'kind', 'type_comment'):
                continue
            _unify(getattr(sk, f, None), getattr(real, f, None), binds, where)
    elif isinstance(sk, list):
        if len(sk) != len(real):
            raise TranslateError('%s: line %s: %d items where %d were expected' % (
                where, getattr(real[0], 'lineno', '?') if real else '?', len(real), len(sk)))
        for a, b in zip(sk, real):
            _unify(a, b, binds, where)
    else:
        if sk != real:
            raise TranslateError('%s: %r where %r was expected' % (where, real, sk))


def _find_function(tree, cls, fn, where):
    for node in tree.body:
        if isinstance(node, ast.ClassDef) and node.name == cls:
            hits = [n for n in node.body if isinstance(n, ast.FunctionDef) and n.name == fn]
            if len(hits) != 1:
                raise TranslateError('%s: %d definitions of %s.%s' % (where, len(hits), cls, fn))
            return hits[0], node
    raise TranslateError('%s: class %s not found' % (where, cls))


def _is_mrs_target(t):
    return (isinstance(t, ast.Attribute) and t.attr == 'method_request_string'
            and isinstance(t.value, ast.Name) and t.value.id == 'ctx')


def _mrs_assignments(fn):
    """every statement of the function that assigns ctx.method_request_string (also inside tuple targets)"""
    out = []
    for node in ast.walk(fn):
        if isinstance(node, (ast.Assign, ast.AugAssign, ast.AnnAssign)):
            targets = node.targets if isinstance(node, ast.Assign) else [node.target]
            for t in targets:
                if any(_is_mrs_target(x) for x in ast.walk(t)):
                    out.append(node)
    return out


def _match_site(repo, key, path, cls, fn, mode, skeleton, binds):
    where = '%s:%s.%s' % (path, cls, fn)
    src = open(os.path.join(repo, path)).read()
    tree = ast.parse(src)
    f, cnode = _find_function(tree, cls, fn, where)
    sk = ast.parse(skeleton.strip() + '\n').body
    if mode == 'whole':
        # both sides go through the same behaviour-preserving normalisation (see c11norm.py): private helpers
        # of the class inlined, idioms brought to one form, locals renamed by order of first binding
        c11norm.normalise(f, cnode, tree)
        f.decorator_list = []
        f.returns = None
        skf = c11norm.normalise(sk[0])
        _unify(skf, f, binds, where)
    elif mode == 'mrs':
        hits = _mrs_assignments(f)
        if len(hits) != 1:
            raise TranslateError('%s: %d assignments to ctx.method_request_string, 1 expected' % (where, len(hits)))
        _unify(sk[0], hits[0], binds, where)
    elif mode == 'mrs-if':
        hits = _mrs_assignments(f)
        if len(hits) != 1:
            raise TranslateError('%s: %d assignments to ctx.method_request_string, 1 expected' % (where, len(hits)))
        ifs = [n for n in ast.walk(f) if isinstance(n, ast.If) and hits[0] in n.body]
        if len(ifs) != 1:
            raise TranslateError('%s: the assignment is not the body of one if' % where)
        _unify(sk[0], ifs[0], binds, where)
    else:
        raise TranslateError('unknown mode %r' % mode)


def _value(name, node):
    kind = KINDS[name]
    if kind == 'int':
        if isinstance(node, ast.UnaryOp) and isinstance(node.op, ast.USub) and isinstance(node.operand, ast.Constant) \
                and type(node.operand.value) is int:
            return -node.operand.value
        if isinstance(node, ast.Constant) and type(node.value) is int:
            return node.value
        raise TranslateError('%s: an integer literal was expected, found %s' % (name, ast.dump(node)[:80]))
    if not (isinstance(node, ast.Constant) and isinstance(node.value, str)):
        raise TranslateError('%s: a string literal was expected, found %s' % (name, ast.dump(node)[:80]))
    return node.value


def _gz(n):
    return '(%d)' % n if n < 0 else '%d' % n


def _gtext(s):
    return '[' + '; '.join(str(ord(c)) for c in s) + ']'


def _gfmt(name, s):
    """a %-format with %s directives only -> list ftok"""
    toks, i = [], 0
    while i < len(s):
        if s[i] == '%':
            if s[i:i + 2] == '%s':
                toks.append('FArg'); i += 2
            elif s[i:i + 2] == '%%':
                toks.append('FLit 37'); i += 2
            else:
                raise TranslateError('%s: unsupported directive in format %r' % (name, s))
        else:
            toks.append('FLit %d' % ord(s[i])); i += 1
    return '[' + '; '.join(toks) + ']'


def _emit(vals, ok, why):
    out = ['(** GENERATED by harness/translate/routekeys.py from the working tree of Spyne. Do not edit. *)',
           'From SpyneV Require Import Base.Prelude C11.SrcLang.', '']
    if not ok:
        out.append('(* shape mismatch: %s *)' % why.replace('*)', '* )').replace('(*', '( *'))
    out.append('Definition rk_shape_ok : bool := %s.' % ('true' if ok else 'false'))
    out.append('')
    for name in sorted(KINDS):
        v, kind = vals[name], KINDS[name]
        if kind == 'int':
            out.append('Definition rk_%s : Z := %s.' % (name, _gz(v)))
        elif kind == 'str':
            out.append('(* %r *)\nDefinition rk_%s : text := %s.' % (v, name, _gtext(v)))
        else:
            out.append('(* %r *)\nDefinition rk_%s : list ftok := %s.' % (v, name, _gfmt(name, v)))
    return '\n'.join(out) + '\n'


def generate(repo):
    binds, bad = {}, []
    for key, path, cls, fn, mode, skeleton in SITES:
        try:
            _match_site(repo, key, path, cls, fn, mode, skeleton, binds)
        except (TranslateError, SyntaxError, IOError) as e:
            # every skeleton is tried, so that the report names all the functions that moved
            bad.append('[skeleton %s] %s: %s' % (key, type(e).__name__, e))
    try:
        if bad:
            raise TranslateError('; '.join(bad))
        vals = {name: _value(name, binds[name]) for name in KINDS}
        text = _emit(vals, True, '')
    except (TranslateError, KeyError) as e:
        text = _emit(FALLBACK, False, '%s: %s' % (type(e).__name__, e))
    return {'RouteKeys.v': text}


def shape_report(gen_dir):
    """the 'shape mismatch' line of the generated file, or None (read by harness/c11.py)"""
    try:
        for line in open(os.path.join(gen_dir, 'RouteKeys.v')):
            if line.startswith('(* shape mismatch:'):
                return line.strip()[3:-2].strip()
    except IOError:
        return 'Gen/RouteKeys.v is missing'
    return None
