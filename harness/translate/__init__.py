"""Fail-closed translators: /repo source -> coq/Gen/*.v.  Each translator
module exposes generate(repo) -> {filename: coq_text}; a shape it does not
recognise raises TranslateError, which the check reports as a broken tie."""
import os, sys, importlib

ROOT = os.path.dirname(os.path.dirname(os.path.dirname(os.path.abspath(__file__))))
GEN = os.path.join(ROOT, 'coq', 'Gen')
REPO = os.environ.get('VERIF_REPO', '/repo')

class TranslateError(Exception):
    pass

HELPERS = ('__init__', 'pyexpr')      # modules of this package that are not translators

def _modules():
    """every module of this package that defines generate(repo) is a translator (no central list to
    keep in step: a property's branch only adds its own file)"""
    here = os.path.dirname(os.path.abspath(__file__))
    return sorted(f[:-3] for f in os.listdir(here)
                  if f.endswith('.py') and f[:-3] not in HELPERS
                  and 'def generate(' in open(os.path.join(here, f)).read())

MODULES = _modules()

def write_if_changed(path, text):
    try:
        with open(path) as f:
            if f.read() == text:
                return False
    except IOError:
        pass
    tmp = path + '.tmp%d' % os.getpid()
    with open(tmp, 'w') as f:
        f.write(text)
    os.replace(tmp, path)
    return True

def run(only=None):
    """returns dict name -> 'ok' | error string"""
    os.makedirs(GEN, exist_ok=True)
    res = {}
    for name in MODULES:
        if only and name not in only:
            continue
        try:
            mod = importlib.import_module('translate.' + name)
            for fn, text in mod.generate(REPO).items():
                write_if_changed(os.path.join(GEN, fn), text)
            res[name] = 'ok'
        except Exception as e:  # fail closed: any surprise is reported, nothing is written
            res[name] = '%s: %s' % (type(e).__name__, e)
    return res

def main():
    res = run()
    bad = {k: v for k, v in res.items() if v != 'ok'}
    for k, v in res.items():
        print('regen %s: %s' % (k, v))
    return 1 if bad else 0
