"""Semantic translation of two C08 codec functions  ->  Gen/C08Sem.v

  InProtocolBase.datetime_from_unicode_iso   (spyne/protocol/_inbase.py)
  OutProtocolBase.duration_to_unicode        (spyne/protocol/_outbase.py)

The function body is executed SYMBOLICALLY (continuation passing: every `if` on a symbolic condition
forks the rest of the body) over the vocabulary the hand-written models use, and the result is a
Gallina definition: a decision tree over the model's primitives.  coq/C08/SemTie.v proves the generated
definition equal to the model the theorems are stated over, for all inputs -- so the obligation is
about what the code computes, not about how it is spelt: renamed locals, `x = f(); return x`,
if/else vs early return, `is not None` vs truthiness of a match object, dropped always-true guards,
divmod vs // and %, a list vs a deque, an unrolled comprehension leave it standing; a change of a
constant, an operator, the order of the patterns, a format, a guard does not.

Vocabulary (anything else raises TranslateError: fail closed):
  datetime_from_unicode_iso: cls._utc_re/_offset_re/_local_re.match(string) (three `option env`
    parameters mu mo ml), match.group('k') with int(...) -> gint and .startswith('-') -> starts_minus,
    _parse_datetime_iso_match(match[, tz=...]) -> parse_datetime_iso_match, pytz.utc, FixedOffset(n, {})
    with its ValueError for |n| >= 1440 (caught by an enclosing `except ValueError`), integer + - *,
    raise ValidationError -> VFault.  MODEL ASSUMPTION (stated in the evidence): as_timezone is None
    (default attributes), so branches guarded by it are not translated.
  duration_to_unicode: a timedelta is its total microseconds n; .days/.seconds/.microseconds,
    -value, int(value.total_seconds()), // % divmod, float() of an integer-valued field (identity for
    '%i' and comparisons), comparisons, and/or, a local list/deque with append/len/''.join, '%i' '%d'
    '%06d' formats.
"""
import ast, os
from .pyexpr import TranslateError

FUNCS = [('gen_datetime_from_unicode_iso', 'spyne/protocol/_inbase.py', 'InProtocolBase', 'datetime_from_unicode_iso', 'dt'),
         ('gen_duration_to_unicode', 'spyne/protocol/_outbase.py', 'OutProtocolBase', 'duration_to_unicode', 'dur')]

RE_VARS = {'_utc_re': 'mu', '_offset_re': 'mo', '_local_re': 'ml'}


def gtext(s):
    return '[' + '; '.join(str(ord(c)) for c in s) + ']'


class Ex(object):
    def __init__(self, mode):
        self.mode = mode
        self.n = 0
        self.paths = 0

    def fresh(self, p):
        self.n += 1
        return '%s%d' % (p, self.n)

    def bad(self, node, why=''):
        raise TranslateError('c08sem: %s outside the vocabulary%s' % (ast.dump(node)[:120], ' (%s)' % why if why else ''))

    # ---------------------------------------------------------------- conditions
    def branch(self, v, st, kt, kf, rebinding=None):
        """fork on the truth of value v; rebinding = variable name that holds v (narrowed in the arms)"""
        k = v[0]
        if k == 'static':
            return kt(st) if v[1] else kf(st)
        if k == 'none':
            return kf(st)
        if k in ('env', 'dt'):
            return kt(st)
        if k == 'optenv':
            e = self.fresh('e')
            st1, st0 = dict(st), dict(st)
            if rebinding:
                st1[rebinding] = ('env', e)
                st0[rebinding] = ('none',)
            return '(match %s with Some %s => %s | None => %s end)' % (v[1], e, kt(st1), kf(st0))
        if k == 'bool':
            self.paths += 1
            if self.paths > 4000:
                raise TranslateError('c08sem: too many paths')
            return '(if %s then %s else %s)' % (v[1], kt(dict(st)), kf(dict(st)))
        if k == 'negbool':      # x != y: condition (x =? y) with the arms swapped
            return '(if %s then %s else %s)' % (v[1], kf(dict(st)), kt(dict(st)))
        raise TranslateError('c08sem: cannot branch on %r' % (v,))

    def as_bool_term(self, v):
        if v[0] == 'bool':
            return v[1]
        if v[0] == 'negbool':
            return '(negb %s)' % v[1]
        if v[0] == 'static':
            return 'true' if v[1] else 'false'
        raise TranslateError('c08sem: not a boolean: %r' % (v,))

    # ---------------------------------------------------------------- expressions (CPS)
    def ev(self, e, st, k):
        if isinstance(e, ast.Constant):
            v = e.value
            if v is None:
                return k(('none',), st)
            if isinstance(v, bool):
                return k(('static', v), st)
            if isinstance(v, int):
                return k(('z', '%d' % v if v >= 0 else '(%d)' % v), st)
            if isinstance(v, str):
                return k(('str', v), st)
            self.bad(e)
        if isinstance(e, ast.Name):
            if e.id not in st:
                self.bad(e, 'unbound name')
            return k(st[e.id], st)
        if isinstance(e, ast.Attribute):
            return self.ev_attr(e, st, k)
        if isinstance(e, ast.UnaryOp):
            if isinstance(e.op, ast.USub):
                def k1(v, st):
                    if v[0] == 'z':
                        return k(('z', '(- %s)' % v[1]), st)
                    if v[0] == 'td':
                        return k(('td', '(- %s)' % v[1]), st)
                    self.bad(e)
                return self.ev(e.operand, st, k1)
            if isinstance(e.op, ast.Not):
                def k1(v, st):
                    if v[0] == 'static':
                        return k(('static', not v[1]), st)
                    if v[0] == 'none':
                        return k(('static', True), st)
                    return k(('bool', '(negb %s)' % self.as_bool_term(v)), st)
                return self.ev(e.operand, st, k1)
            self.bad(e)
        if isinstance(e, ast.BinOp):
            if isinstance(e.op, ast.Mod) and isinstance(e.left, ast.Constant) and isinstance(e.left.value, str):
                return self.ev(e.right, st, lambda v, st: k(('text', self.fmt(e, e.left.value, v)), st))
            ops = {ast.Add: '+', ast.Sub: '-', ast.Mult: '*', ast.FloorDiv: '/', ast.Mod: 'mod'}
            if type(e.op) not in ops:
                self.bad(e)
            def kl(a, st):
                def kr(b, st):
                    if a[0] != 'z' or b[0] != 'z':
                        self.bad(e, 'arithmetic on non-integers')
                    return k(('z', '(%s %s %s)' % (a[1], ops[type(e.op)], b[1])), st)
                return self.ev(e.right, st, kr)
            return self.ev(e.left, st, kl)
        if isinstance(e, ast.BoolOp):
            op = '&&' if isinstance(e.op, ast.And) else '||'
            def go(i, acc, st):
                if i == len(e.values):
                    if all(a[0] == 'static' for a in acc):
                        vals = [a[1] for a in acc]
                        return k(('static', all(vals) if op == '&&' else any(vals)), st)
                    return k(('bool', '(' + (' %s ' % op).join(self.as_bool_term(a) for a in acc) + ')'), st)
                return self.ev(e.values[i], st, lambda v, st: go(i + 1, acc + [v], st))
            return go(0, [], st)
        if isinstance(e, ast.Compare):
            if len(e.ops) != 1:
                self.bad(e)
            op, right = e.ops[0], e.comparators[0]
            def kl(a, st):
                def kr(b, st):
                    return k(self.compare(e, op, a, b), st)
                return self.ev(right, st, kr)
            return self.ev(e.left, st, kl)
        if isinstance(e, ast.IfExp):
            return self.ev(e.test, st, lambda c, st: self.branch(
                c, st, lambda st1: self.ev(e.body, st1, k), lambda st0: self.ev(e.orelse, st0, k)))
        if isinstance(e, (ast.Tuple, ast.List)):
            def go(i, acc, st):
                if i == len(e.elts):
                    return k(('seq', acc), st)
                return self.ev(e.elts[i], st, lambda v, st: go(i + 1, acc + [v], st))
            return go(0, [], st)
        if isinstance(e, ast.ListComp):
            if len(e.generators) != 1 or e.generators[0].ifs or not isinstance(e.generators[0].target, ast.Name):
                self.bad(e)
            g = e.generators[0]
            def kit(it, st):
                if it[0] != 'seq':
                    self.bad(e, 'comprehension over a non-literal')
                def go(i, acc, st):
                    if i == len(it[1]):
                        return k(('seq', acc), st)
                    st2 = dict(st)
                    st2[g.target.id] = it[1][i]
                    return self.ev(e.elt, st2, lambda v, _st: go(i + 1, acc + [v], st))
                return go(0, [], st)
            return self.ev(g.iter, st, kit)
        if isinstance(e, ast.Dict) and not e.keys:
            return k(('emptydict',), st)
        if isinstance(e, ast.Call):
            return self.ev_call(e, st, k)
        self.bad(e)

    def compare(self, e, op, a, b):
        if isinstance(op, (ast.Is, ast.IsNot)):
            if b[0] != 'none':
                self.bad(e)
            pos = isinstance(op, ast.Is)
            if a[0] == 'none':
                return ('static', pos)
            if a[0] in ('env', 'dt', 'tz'):
                return ('static', not pos)
            if a[0] == 'optenv':
                return ('optenv_isnone' if pos else 'optenv', a[1])
            self.bad(e)
        if a[0] == 'static' and b[0] == 'static':
            self.bad(e)
        if a[0] == 'zs' and b[0] == 'z':          # len(list) == constant: decided on each path
            try:
                n = int(b[1])
            except ValueError:
                self.bad(e)
            table = {ast.Eq: a[1] == n, ast.NotEq: a[1] != n, ast.Lt: a[1] < n, ast.Gt: a[1] > n,
                     ast.LtE: a[1] <= n, ast.GtE: a[1] >= n}
            return ('static', table[type(op)])
        if a[0] != 'z' or b[0] != 'z':
            self.bad(e, 'comparison of non-integers')
        x, y = a[1], b[1]
        if isinstance(op, ast.Lt):
            return ('bool', '(%s <? %s)' % (x, y))
        if isinstance(op, ast.Gt):
            return ('bool', '(%s <? %s)' % (y, x))
        if isinstance(op, ast.LtE):
            return ('bool', '(%s <=? %s)' % (x, y))
        if isinstance(op, ast.GtE):
            return ('bool', '(%s <=? %s)' % (y, x))
        if isinstance(op, ast.Eq):
            return ('bool', '(%s =? %s)' % (x, y))
        if isinstance(op, ast.NotEq):
            return ('negbool', '(%s =? %s)' % (x, y))
        self.bad(e)

    def fmt(self, node, f, v):
        """'...%i...' % integer -> Coq text"""
        import re as _re
        parts = _re.split(r'(%0?\d*[id])', f)
        specs = [p for p in parts if p.startswith('%')]
        if len(specs) != 1 or v[0] != 'z' or '%' in ''.join(p for p in parts if not p.startswith('%')):
            self.bad(node, 'format')
        out = []
        for p in parts:
            if not p:
                continue
            if p in ('%i', '%d'):
                out.append('str_int %s' % v[1])
            elif _re.fullmatch(r'%0(\d)[id]', p):
                out.append('zpad %s %s' % (p[2], v[1]))
            elif p.startswith('%'):
                self.bad(node, 'format')
            else:
                out.append(gtext(p))
        return '(' + ' ++ '.join(out + ['[]']) + ')'

    def ev_attr(self, e, st, k):
        # self.get_cls_attrs(cls).as_timezone : None under the model's assumption (default attributes)
        if e.attr == 'as_timezone' and isinstance(e.value, ast.Call) and isinstance(e.value.func, ast.Attribute) \
                and e.value.func.attr == 'get_cls_attrs':
            return k(('none',), st)
        if isinstance(e.value, ast.Name) and e.value.id == 'pytz' and e.attr == 'utc':
            return k(('tz', '(Some 0)'), st)
        def k1(v, st):
            if v[0] == 'td':
                t = v[1]
                if e.attr == 'days':
                    return k(('z', '(%s / US_DAY)' % t), st)
                if e.attr == 'seconds':
                    return k(('z', '((%s mod US_DAY) / 1000000)' % t), st)
                if e.attr == 'microseconds':
                    return k(('z', '(%s mod 1000000)' % t), st)
            self.bad(e)
        return self.ev(e.value, st, k1)

    def ev_call(self, e, st, k):
        f = e.func
        if e.keywords and not (isinstance(f, ast.Name) and f.id == '_parse_datetime_iso_match'):
            self.bad(e, 'keyword arguments')
        # cls._utc_re.match(string)
        if isinstance(f, ast.Attribute) and f.attr == 'match' and isinstance(f.value, ast.Attribute) \
                and isinstance(f.value.value, ast.Name) and f.value.value.id == 'cls' and f.value.attr in RE_VARS:
            if self.mode != 'dt' or len(e.args) != 1 or not isinstance(e.args[0], ast.Name) or st.get(e.args[0].id) != ('param_string',):
                self.bad(e)
            return k(('optenv', RE_VARS[f.value.attr]), st)
        if isinstance(f, ast.Name) and f.id == '_parse_datetime_iso_match':
            if len(e.args) != 1 or any(kw.arg != 'tz' for kw in e.keywords) or len(e.keywords) > 1:
                self.bad(e)
            def km(mv, st):
                if mv[0] != 'env':
                    self.bad(e, 'match object not known to be a match')
                def kt(tz, st):
                    if tz[0] == 'none':
                        t = 'None'
                    elif tz[0] == 'tz':
                        t = tz[1]
                    else:
                        self.bad(e, 'tz')
                    r = self.fresh('r')
                    return '(bind (parse_datetime_iso_match %s %s) (fun %s => %s))' % (mv[1], t, r, k(('dt', r), st))
                if e.keywords:
                    return self.ev(e.keywords[0].value, st, kt)
                return kt(('none',), st)
            return self.ev(e.args[0], st, km)
        if isinstance(f, ast.Attribute) and f.attr == 'group' and len(e.args) == 1:
            def km(mv, st):
                def kn(nm, st):
                    if mv[0] != 'env' or nm[0] != 'str':
                        self.bad(e)
                    return k(('group', mv[1], nm[1]), st)
                return self.ev(e.args[0], st, kn)
            return self.ev(f.value, st, km)
        if isinstance(f, ast.Attribute) and f.attr == 'startswith' and len(e.args) == 1:
            def kg(g, st):
                if g[0] != 'group' or not (isinstance(e.args[0], ast.Constant) and e.args[0].value == '-'):
                    self.bad(e)
                return k(('bool', '(starts_minus (grp %s %s))' % (g[1], gtext(g[2]))), st)
            return self.ev(f.value, st, kg)
        if isinstance(f, ast.Name) and f.id == 'int' and len(e.args) == 1:
            a = e.args[0]
            # int(value.total_seconds())
            if isinstance(a, ast.Call) and isinstance(a.func, ast.Attribute) and a.func.attr == 'total_seconds' and not a.args:
                def kv(v, st):
                    if v[0] != 'td':
                        self.bad(e)
                    t = v[1]
                    return k(('z', '((%s / US_DAY) * 86400 + (%s mod US_DAY) / 1000000)' % (t, t)), st)
                return self.ev(a.func.value, st, kv)
            def kg(g, st):
                if g[0] == 'group':
                    if st.get('__handlers__'):
                        self.bad(e, 'int() of a group inside try/except')
                    v = self.fresh('v')
                    return '(bind (gint %s %s) (fun %s => %s))' % (g[1], gtext(g[2]), v, k(('z', v), st))
                if g[0] == 'z':
                    return k(g, st)
                self.bad(e)
            return self.ev(a, st, kg)
        if isinstance(f, ast.Name) and f.id == 'float' and len(e.args) == 1:
            # float() of an integer-valued field: the same number for '%i' and for comparisons
            return self.ev(e.args[0], st, lambda v, st: k(v, st) if v[0] == 'z' else self.bad(e))
        if isinstance(f, ast.Name) and f.id == 'divmod' and len(e.args) == 2:
            def ka(a, st):
                def kb(b, st):
                    if a[0] != 'z' or b[0] != 'z':
                        self.bad(e)
                    return k(('seq', [('z', '(%s / %s)' % (a[1], b[1])), ('z', '(%s mod %s)' % (a[1], b[1]))]), st)
                return self.ev(e.args[1], st, kb)
            return self.ev(e.args[0], st, ka)
        if isinstance(f, ast.Name) and f.id == 'FixedOffset' and len(e.args) == 2:
            def kn(nv, st):
                def kd(d, st):
                    if nv[0] != 'z' or d[0] != 'emptydict':
                        self.bad(e)
                    hs = st.get('__handlers__') or []
                    for types, body in reversed(hs):
                        if 'ValueError' in types:
                            bad_arm = self.ex(body, dict(st, __handlers__=None), lambda st: self.bad(e, 'handler falls through'))
                            break
                    else:
                        bad_arm = '(Crash ValueError)'
                    return '(if (-1440 <? %s) && (%s <? 1440) then %s else %s)' % (
                        nv[1], nv[1], k(('tz', '(Some %s)' % nv[1]), st), bad_arm)
                return self.ev(e.args[1], st, kd)
            return self.ev(e.args[0], st, kn)
        if isinstance(f, ast.Name) and f.id in ('deque', 'list') and not e.args:
            return k(('list', []), st)
        if isinstance(f, ast.Name) and f.id == 'len' and len(e.args) == 1:
            return self.ev(e.args[0], st, lambda v, st: k(('zs', len(v[1])), st) if v[0] == 'list' else self.bad(e))
        if isinstance(f, ast.Attribute) and f.attr == 'join' and isinstance(f.value, ast.Constant) and f.value.value == '' \
                and len(e.args) == 1:
            def kl(v, st):
                if v[0] != 'list':
                    self.bad(e)
                return k(('text', '(' + ' ++ '.join([self.as_text(x, e) for x in v[1]] + ['[]']) + ')'), st)
            return self.ev(e.args[0], st, kl)
        self.bad(e)

    def as_text(self, v, node):
        if v[0] == 'str':
            return gtext(v[1])
        if v[0] == 'text':
            return v[1]
        self.bad(node, 'not a text')

    # ---------------------------------------------------------------- statements (CPS)
    def ex(self, stmts, st, k):
        if not stmts:
            return k(st)
        s, rest = stmts[0], stmts[1:]
        nxt = lambda st: self.ex(rest, st, k)
        if isinstance(s, ast.Expr):
            if isinstance(s.value, ast.Constant) and isinstance(s.value.value, str):
                return nxt(st)                                   # docstring
            c = s.value
            if isinstance(c, ast.Call) and isinstance(c.func, ast.Attribute) and c.func.attr == 'append' \
                    and isinstance(c.func.value, ast.Name) and len(c.args) == 1 and not c.keywords:
                name = c.func.value.id
                def ka(v, st):
                    cur = st.get(name)
                    if not cur or cur[0] != 'list' or v[0] not in ('str', 'text'):
                        self.bad(s)
                    st2 = dict(st)
                    st2[name] = ('list', cur[1] + [v])
                    return nxt(st2)
                return self.ev(c.args[0], st, ka)
            self.bad(s)
        if isinstance(s, ast.Assign):
            if len(s.targets) != 1:
                self.bad(s)
            t = s.targets[0]
            def kv(v, st):
                st2 = dict(st)
                if isinstance(t, ast.Name):
                    if v[0] == 'seq' and all(x[0] in ('str', 'text') for x in v[1]):
                        v = ('list', list(v[1]))             # a list literal used as the local buffer
                    st2[t.id] = v
                elif isinstance(t, (ast.Tuple, ast.List)) and v[0] == 'seq' and len(v[1]) == len(t.elts) \
                        and all(isinstance(x, ast.Name) for x in t.elts):
                    for x, xv in zip(t.elts, v[1]):
                        st2[x.id] = xv
                else:
                    self.bad(s)
                return nxt(st2)
            return self.ev(s.value, st, kv)
        if isinstance(s, ast.AugAssign) and isinstance(s.target, ast.Name):
            e2 = ast.BinOp(left=ast.Name(id=s.target.id, ctx=ast.Load()), op=s.op, right=s.value)
            def kv(v, st):
                st2 = dict(st)
                st2[s.target.id] = v
                return nxt(st2)
            return self.ev(e2, st, kv)
        if isinstance(s, ast.If):
            reb = s.test.id if isinstance(s.test, ast.Name) else None
            if isinstance(s.test, ast.Compare) and isinstance(s.test.left, ast.Name) and len(s.test.ops) == 1 \
                    and isinstance(s.test.ops[0], (ast.Is, ast.IsNot)):
                reb = s.test.left.id
            def kc(c, st):
                kt = lambda st1: self.ex(s.body, st1, nxt)
                kf = lambda st0: self.ex(s.orelse, st0, nxt)
                if c[0] == 'optenv_isnone':
                    return self.branch(('optenv', c[1]), st, kf, kt, reb)
                return self.branch(c, st, kt, kf, reb)
            return self.ev(s.test, st, kc)
        if isinstance(s, ast.Return):
            def kv(v, st):
                if self.mode == 'dt' and v[0] == 'dt':
                    return '(Ok %s)' % v[1]
                if self.mode == 'dur' and v[0] in ('text', 'str'):
                    return self.as_text(v, s)
                self.bad(s, 'return value')
            return self.ev(s.value, st, kv)
        if isinstance(s, ast.Raise):
            x = s.exc
            if isinstance(x, ast.Call) and isinstance(x.func, ast.Name) and x.func.id == 'ValidationError' and self.mode == 'dt':
                return 'VFault'
            self.bad(s)
        if isinstance(s, ast.Try):
            if s.orelse or s.finalbody:
                self.bad(s)
            hs = []
            for h in s.handlers:
                if h.type is None:
                    self.bad(s)
                types = [ast.unparse(x) for x in (h.type.elts if isinstance(h.type, ast.Tuple) else [h.type])]
                hs.append((types, h.body))
            old = st.get('__handlers__')
            st2 = dict(st, __handlers__=(old or []) + hs)
            return self.ex(s.body, st2, lambda st3: nxt(dict(st3, __handlers__=old)))
        self.bad(s)


def find(tree, cls, name):
    for n in tree.body:
        if isinstance(n, ast.ClassDef) and n.name == cls:
            hits = [m for m in n.body if isinstance(m, ast.FunctionDef) and m.name == name]
            if len(hits) == 1:
                return hits[0]
    raise TranslateError('c08sem: %s.%s not found' % (cls, name))


HEADER = '''(* GENERATED by harness/translate/c08sem.py from the working tree; do not edit.
   Symbolic execution of the function bodies over the vocabulary of the C08 models. *)
From SpyneV Require Import Base.Prelude Base.Digits C08.DtModel C08.DurModel C08.Regex C08.RegexRef C08.SemPrims.
Open Scope Z_scope.
'''


def generate(repo):
    out = [HEADER]
    for name, fn, cls, func, mode in FUNCS:
        tree = ast.parse(open(os.path.join(repo, fn)).read())
        f = find(tree, cls, func)
        ex = Ex(mode)
        args = [a.arg for a in f.args.args]
        if mode == 'dt':
            if args != ['self', 'cls', 'string'] or f.args.vararg or f.args.kwonlyargs:
                raise TranslateError('c08sem: signature of %s' % func)
            st = {'string': ('param_string',)}
            body = ex.ex(f.body, st, lambda st: (_ for _ in ()).throw(TranslateError('c08sem: %s falls through' % func)))
            out.append('Definition %s (mu mo ml : option env) : out datetime :=\n  %s.\n' % (name, body))
        else:
            if args != ['self', 'cls', 'value'] or f.args.vararg:
                raise TranslateError('c08sem: signature of %s' % func)
            st = {'value': ('td', 'n')}
            body = ex.ex(f.body, st, lambda st: (_ for _ in ()).throw(TranslateError('c08sem: %s falls through' % func)))
            out.append('Definition %s (n : Z) : text :=\n  %s.\n' % (name, body))
    return {'C08Sem.v': '\n'.join(out)}
