"""spyne/error.py, spyne/protocol/_outbase.py, spyne/protocol/soap/soap11.py,
spyne/application.py  ->  Gen/FaultTables.v   (property C09)

What is read from the *source text* (``ast``), fail closed:

* ``spyne/error.py``: every class deriving (single inheritance) from ``Fault``,
  its base and its ``CODE`` constant -> ``ecls``, ``ecls_mro``, ``ecls_code``;
  cross-checked against the imported classes' ``__mro__`` / ``CODE``.
* ``OutProtocolBase.fault_to_http_response_code``: the ordered chain
  ``if isinstance(fault, X): return HTTP_nnn`` -> ``http_isinstance_chain``;
  the ``Client`` test (``isinstance(fault, Fault) and (startswith(c) or == c)``)
  -> ``http_client_prefixes`` / ``http_client_exacts`` / ``http_client_status``;
  the final ``return`` -> ``http_default_status``.  ``HTTP_nnn`` names are
  resolved through ``spyne.const.http`` to the number at the head of the status
  line that ``start_response`` will see.
* ``Soap11.fault_to_http_response_code``: a single ``return HTTP_nnn``.
* which of the two implementations each modelled output protocol class
  resolves to (``http_impl``), by ``__qualname__`` of the bound function.
* ``spyne.application.get_fault_string_from_exception``: a constant string, or
  ``str(e)`` / ``type(e).__name__`` (so that a leaking variant is *modelled*, and
  the no-leak theorem then fails to re-prove, instead of being hidden).
* ``Application.process_request``: the one ``try`` statement: which of
  ``fire_event('method_call')``, ``call_wrapper(ctx)``,
  ``fire_event('method_return_object')`` are inside its body and in which
  order (``funnel_steps``), the ``except`` classes in order and what each
  assigns to ``ctx.out_error`` (``funnel_handlers``).
* ``spyne/server/wsgi.py``: ``get_fault_string_from_exception`` is the one
  imported from ``spyne.application``; in ``WsgiApplication.handle_rpc`` the
  ``try`` around ``next(g)`` (the first item of a generator result) and the
  ``try`` around ``self.get_out_string(p_ctx)``: their ``except`` classes in
  order, what each assigns to ``p_ctx.out_error`` and that each ends in
  ``return self.handle_error(...)`` (``wsgi_first_item_handlers``,
  ``wsgi_serialise_handlers``); whether the ``chunked=False`` join of the
  response sits inside that second ``try`` (``wsgi_join_in_try``); the success
  status and whether it is defaulted before or after serialisation
  (``wsgi_ok_status``, ``wsgi_ok_default_after_serialise``); in
  ``handle_error`` where the status of a fault comes from
  (``wsgi_error_status``).
* ``XmlDocument.fault_to_parent`` / ``Soap12.fault_to_parent`` (pin, nothing emitted): followed
  through private helpers of the same class that receive ``inst``, the text handed to the
  ``faultcode`` / ``faultstring`` / ``faultactor`` resp. ``Text`` (+ ``lang``) / ``Role`` element
  constructors is the fault's own attribute (``'%s:%s' % (self.soap_env, inst.faultcode)`` for the
  code) — any call, conversion or conditional in between is a transformation the hand-written
  serialiser model does not have, and is refused.
"""
import ast, os, importlib

from .pyexpr import TranslateError, attr_chain

PROTOCOLS = [  # (Coq constructor, module, class)
    ('PSoap11', 'spyne.protocol.soap.soap11', 'Soap11'),
    ('PSoap12', 'spyne.protocol.soap.soap12', 'Soap12'),
    ('PXml', 'spyne.protocol.xml', 'XmlDocument'),
    ('PJson', 'spyne.protocol.json', 'JsonDocument'),
    ('PYaml', 'spyne.protocol.yaml', 'YamlDocument'),
    ('PMsgpack', 'spyne.protocol.msgpack', 'MessagePackDocument'),
    ('PMsgpackRpc', 'spyne.protocol.msgpack', 'MessagePackRpc'),
    ('PHttpRpc', 'spyne.protocol.http', 'HttpRpc'),
]


def gtext(s):
    return '[' + '; '.join(str(ord(c)) for c in s) + ']'


def parse(repo, rel):
    p = os.path.join(repo, rel)
    with open(p) as f:
        return ast.parse(f.read(), p)


def find_class(tree, name):
    for n in tree.body:
        if isinstance(n, ast.ClassDef) and n.name == name:
            return n
    raise TranslateError('class %s not found' % name)


def find_def(body, name):
    for n in body:
        if isinstance(n, ast.FunctionDef) and n.name == name:
            return n
    raise TranslateError('def %s not found' % name)


def strip_doc(body):
    if body and isinstance(body[0], ast.Expr) and isinstance(body[0].value, ast.Constant) \
            and isinstance(body[0].value.value, str):
        return body[1:]
    return body


def http_number(name):
    const = importlib.import_module('spyne.const.http')
    v = getattr(const, name, None)
    if not isinstance(v, str) or not v[:3].isdigit() or v[3:4] != ' ':
        raise TranslateError('cannot resolve HTTP constant %s (%r)' % (name, v))
    return int(v[:3])


# ------------------------------------------------------------------ error.py
def error_classes(repo):
    tree = parse(repo, 'spyne/error.py')
    fault_imported = False
    for n in tree.body:
        if isinstance(n, ast.ImportFrom) and n.module == 'spyne.model.fault' and \
                any(a.name == 'Fault' and a.asname is None for a in n.names):
            fault_imported = True
    if not fault_imported:
        raise TranslateError('spyne/error.py does not import Fault from spyne.model.fault')
    base, code, order = {'Fault': None}, {'Fault': None}, ['Fault']
    for n in tree.body:
        if not isinstance(n, ast.ClassDef):
            continue
        if len(n.bases) != 1 or not isinstance(n.bases[0], ast.Name):
            raise TranslateError('class %s: expected exactly one named base' % n.name)
        b = n.bases[0].id
        if b not in base:
            raise TranslateError('class %s: base %s is not a known Fault class' % (n.name, b))
        c = None
        for st in n.body:
            if isinstance(st, ast.Assign) and len(st.targets) == 1 and \
                    isinstance(st.targets[0], ast.Name) and st.targets[0].id == 'CODE':
                if not (isinstance(st.value, ast.Constant) and isinstance(st.value.value, str)):
                    raise TranslateError('class %s: CODE is not a string constant' % n.name)
                c = st.value.value
        base[n.name] = b
        code[n.name] = c if c is not None else code[b]
        order.append(n.name)
    mro = {}
    for k in order:
        chain, x = [], k
        while x is not None:
            chain.append(x)
            x = base[x]
        mro[k] = chain
    # cross-check against what the interpreter built
    err = importlib.import_module('spyne.error')
    if not os.path.abspath(err.__file__).startswith(os.path.abspath(repo) + os.sep):
        raise TranslateError('spyne imported from %s, not from %s' % (err.__file__, repo))
    Fault = importlib.import_module('spyne.model.fault').Fault
    for k in order:
        cls = Fault if k == 'Fault' else getattr(err, k, None)
        if cls is None or not isinstance(cls, type):
            raise TranslateError('spyne.error.%s missing at run time' % k)
        real = [c.__name__ for c in cls.__mro__ if isinstance(c, type) and issubclass(c, Fault)]
        if real != mro[k]:
            raise TranslateError('%s: run-time mro %r differs from the source chain %r' % (k, real, mro[k]))
        if getattr(cls, 'CODE', None) != code[k]:
            raise TranslateError('%s: run-time CODE %r differs from source %r' % (k, cls.CODE, code[k]))
    return order, mro, code


# ------------------------------------------------------------------ fault_to_http_response_code
def is_isinstance_fault(n):
    if isinstance(n, ast.Call) and isinstance(n.func, ast.Name) and n.func.id == 'isinstance' \
            and len(n.args) == 2 and not n.keywords and isinstance(n.args[0], ast.Name) \
            and n.args[0].id == 'fault' and isinstance(n.args[1], ast.Name):
        return n.args[1].id
    return None


def single_return_name(body, what):
    if len(body) != 1 or not isinstance(body[0], ast.Return) or not isinstance(body[0].value, ast.Name):
        raise TranslateError('%s: expected a single `return HTTP_nnn`' % what)
    return body[0].value.id


def client_test(n, known):
    """isinstance(fault, C) and (<code tests>)  ->  (C, prefixes, exacts)"""
    if not (isinstance(n, ast.BoolOp) and isinstance(n.op, ast.And) and len(n.values) == 2):
        raise TranslateError('unrecognised test in fault_to_http_response_code: %s' % ast.dump(n)[:120])
    c = is_isinstance_fault(n.values[0])
    if c is None or c not in known:
        raise TranslateError('unrecognised class guard in the Client test')
    tests = n.values[1]
    tests = tests.values if isinstance(tests, ast.BoolOp) and isinstance(tests.op, ast.Or) else [tests]
    prefixes, exacts = [], []
    for t in tests:
        if isinstance(t, ast.Call) and isinstance(t.func, ast.Attribute) and t.func.attr == 'startswith' \
                and attr_chain(t.func.value) == ['fault', 'faultcode'] and len(t.args) == 1 \
                and isinstance(t.args[0], ast.Constant) and isinstance(t.args[0].value, str) and not t.keywords:
            prefixes.append(t.args[0].value)
        elif isinstance(t, ast.Compare) and len(t.ops) == 1 and isinstance(t.ops[0], ast.Eq) \
                and attr_chain(t.left) == ['fault', 'faultcode'] \
                and isinstance(t.comparators[0], ast.Constant) and isinstance(t.comparators[0].value, str):
            exacts.append(t.comparators[0].value)
        else:
            raise TranslateError('unrecognised fault code test: %s' % ast.dump(t)[:120])
    return c, prefixes, exacts


def http_chain(repo, known):
    tree = parse(repo, 'spyne/protocol/_outbase.py')
    fn = find_def(find_class(tree, 'OutProtocolBase').body, 'fault_to_http_response_code')
    if [a.arg for a in fn.args.args] != ['self', 'fault']:
        raise TranslateError('fault_to_http_response_code: unexpected signature')
    body = strip_doc(fn.body)
    chain, client = [], None
    if not body or not isinstance(body[-1], ast.Return) or not isinstance(body[-1].value, ast.Name):
        raise TranslateError('fault_to_http_response_code: last statement is not `return HTTP_nnn`')
    default = http_number(body[-1].value.id)
    def pairs_of(v):
        """((Class, HTTP_nnn), ...) as a tuple or list literal of 2-element tuple/list literals of names"""
        if not isinstance(v, (ast.Tuple, ast.List)):
            return None
        out = []
        for el in v.elts:
            if not (isinstance(el, (ast.Tuple, ast.List)) and len(el.elts) == 2
                    and all(isinstance(x, ast.Name) for x in el.elts)):
                return None
            out.append((el.elts[0].id, el.elts[1].id))
        return out

    def loop_chain(st, tables):
        """`for c, s in <table>: if isinstance(fault, c): return s`  ==  the chain of
        `if isinstance(fault, C_i): return S_i` in table order (the body has no other effect and the
        first match returns)"""
        if not (isinstance(st.target, ast.Tuple) and len(st.target.elts) == 2
                and all(isinstance(x, ast.Name) for x in st.target.elts)) or st.orelse:
            return None
        c, sname = st.target.elts[0].id, st.target.elts[1].id
        if c == sname or 'fault' in (c, sname) or 'self' in (c, sname):
            return None
        if not (len(st.body) == 1 and isinstance(st.body[0], ast.If) and not st.body[0].orelse
                and is_isinstance_fault(st.body[0].test) == c and len(st.body[0].body) == 1
                and isinstance(st.body[0].body[0], ast.Return) and isinstance(st.body[0].body[0].value, ast.Name)
                and st.body[0].body[0].value.id == sname):
            return None
        if isinstance(st.iter, ast.Name):
            return tables.get(st.iter.id)
        return pairs_of(st.iter)

    tables = {}
    for i, st in enumerate(body[:-1]):
        if isinstance(st, ast.Assign) and len(st.targets) == 1 and isinstance(st.targets[0], ast.Name) \
                and st.targets[0].id not in ('fault', 'self') and pairs_of(st.value) is not None:
            # a local table; it must be bound once and only read by a later loop
            name = st.targets[0].id
            if any(binds(o, name) for o in body if o is not st) or name in tables:
                raise TranslateError('fault_to_http_response_code: table %s is bound more than once' % name)
            for o in body[:i]:
                if any(isinstance(n, ast.Name) and n.id == name for n in ast.walk(o)):
                    raise TranslateError('fault_to_http_response_code: table %s is read before it is bound' % name)
            tables[name] = pairs_of(st.value)
            continue
        if isinstance(st, ast.For):
            prs = loop_chain(st, tables)
            if prs is None:
                raise TranslateError('fault_to_http_response_code: unrecognised loop')
            if client is not None:
                raise TranslateError('isinstance test after the Client test: order not modelled')
            for c, sname in prs:
                if c not in known:
                    raise TranslateError('isinstance against unknown class %s' % c)
                chain.append((c, http_number(sname)))
            continue
        if not isinstance(st, ast.If) or st.orelse:
            raise TranslateError('fault_to_http_response_code: expected a plain `if` chain')
        status = http_number(single_return_name(st.body, 'fault_to_http_response_code'))
        c = is_isinstance_fault(st.test)
        if c is not None:
            if c not in known:
                raise TranslateError('isinstance against unknown class %s' % c)
            if client is not None:
                raise TranslateError('isinstance test after the Client test: order not modelled')
            chain.append((c, status))
        else:
            if client is not None:
                raise TranslateError('more than one faultcode test')
            client = client_test(st.test, known) + (status,)
    if client is None:
        client = ('Fault', [], [], default)
    return chain, client, default


def soap_code(repo):
    tree = parse(repo, 'spyne/protocol/soap/soap11.py')
    fn = find_def(find_class(tree, 'Soap11').body, 'fault_to_http_response_code')
    return http_number(single_return_name(strip_doc(fn.body), 'Soap11.fault_to_http_response_code'))


def impls():
    out = []
    for con, mod, cn in PROTOCOLS:
        cls = getattr(importlib.import_module(mod), cn)
        qn = cls.fault_to_http_response_code.__qualname__
        if qn == 'OutProtocolBase.fault_to_http_response_code':
            out.append((con, 'HBase'))
        elif qn == 'Soap11.fault_to_http_response_code':
            out.append((con, 'HSoap'))
        else:
            raise TranslateError('%s.fault_to_http_response_code resolves to unmodelled %s' % (cn, qn))
    return out


# ------------------------------------------------------------------ application.py
def is_gfs_call(n, var):
    return isinstance(n, ast.Call) and isinstance(n.func, ast.Name) and \
        n.func.id == 'get_fault_string_from_exception' and len(n.args) == 1 and \
        isinstance(n.args[0], ast.Name) and n.args[0].id == var and not n.keywords


def fault_string_fn(tree):
    fn = find_def(tree.body, 'get_fault_string_from_exception')
    if [a.arg for a in fn.args.args] != ['e']:
        raise TranslateError('get_fault_string_from_exception: unexpected signature')
    body = strip_doc(fn.body)
    if len(body) != 1 or not isinstance(body[0], ast.Return):
        raise TranslateError('get_fault_string_from_exception: expected a single return')
    v = body[0].value
    if isinstance(v, ast.Constant) and isinstance(v.value, str):
        return gtext(v.value)
    if isinstance(v, ast.Call) and isinstance(v.func, ast.Name) and v.func.id == 'str' and \
            len(v.args) == 1 and isinstance(v.args[0], ast.Name) and v.args[0].id == 'e':
        return '(px_text e)'
    if attr_chain(v) == ['e', '__class__', '__name__'] or (
            isinstance(v, ast.Attribute) and v.attr == '__name__' and isinstance(v.value, ast.Call)
            and isinstance(v.value.func, ast.Name) and v.value.func.id == 'type'):
        return '(px_type e)'
    raise TranslateError('get_fault_string_from_exception: unmodelled return expression %s' % ast.dump(v)[:120])


def binds(node, name):
    """does `node` (re)bind the local `name` in any way? (assignment targets of every kind)"""
    for n in ast.walk(node):
        if isinstance(n, ast.Name) and n.id == name and isinstance(n.ctx, (ast.Store, ast.Del)):
            return True
        if isinstance(n, (ast.Global, ast.Nonlocal)) and name in n.names:
            return True
        if isinstance(n, ast.ExceptHandler) and n.name == name:
            return True
        if isinstance(n, (ast.Import, ast.ImportFrom)) and any((a.asname or a.name.split('.')[0]) == name for a in n.names):
            return True
        if isinstance(n, (ast.FunctionDef, ast.ClassDef)) and n.name == name:
            return True
    return False


def resolve_temps(body, upto, expr, keep, what, depth=0):
    """`expr` is evaluated by the top-level statement `upto` of the straight-line block `body`.
    A local name it reads that the block binds exactly once, by a plain top-level `name = value`
    before `upto`, is replaced by that value (`x = f(e); out = F(x)` == `out = F(f(e))`: nothing
    that runs in between can change what `value` denotes for the shapes accepted afterwards — a
    constant or the fault-string call on the caught exception).  Names in `keep` (the caught
    exception) are never replaced.  Anything else that binds the name: fail closed."""
    if depth > 8:
        raise TranslateError('%s: temporaries nested too deeply' % what)
    idx = body.index(upto)

    class Sub(ast.NodeTransformer):
        def visit_Name(self, n):
            if not isinstance(n.ctx, ast.Load) or n.id in keep:
                return n
            binders = [(i, st) for i, st in enumerate(body) if binds(st, n.id)]
            if not binders:
                return n                      # a global / builtin: left as it is
            if len(binders) != 1:
                raise TranslateError('%s: local %s is bound more than once' % (what, n.id))
            i, st = binders[0]
            if not (i < idx and isinstance(st, ast.Assign) and len(st.targets) == 1 and
                    isinstance(st.targets[0], ast.Name) and st.targets[0].id == n.id):
                raise TranslateError('%s: local %s is not a plain temporary assigned before its use' % (what, n.id))
            return resolve_temps(body, st, st.value, keep, what, depth + 1)
    import copy
    return Sub().visit(copy.deepcopy(expr))


def is_temp_assign(st, reserved):
    """a plain `name = value` binding a local that is not one of `reserved`"""
    return isinstance(st, ast.Assign) and len(st.targets) == 1 and isinstance(st.targets[0], ast.Name) \
        and st.targets[0].id not in reserved


def out_error_assignments_resolved(body, keep, what, target=('ctx', 'out_error')):
    """top-level `ctx.out_error = <expr>` statements of a handler body, temporaries resolved; an
    assignment to it anywhere deeper is not modelled"""
    found = []
    for st in body:
        top = isinstance(st, ast.Assign) and len(st.targets) == 1 and attr_chain(st.targets[0]) == list(target)
        for n in ast.walk(st):
            if isinstance(n, ast.Assign) and any(attr_chain(t) == list(target) for t in n.targets) and not (top and n is st):
                raise TranslateError('%s: %s is assigned in a nested statement' % (what, '.'.join(target)))
        if top:
            found.append(resolve_temps(body, st, st.value, keep, what))
    return found


def out_error_assignments(stmts):
    """all `ctx.out_error = <expr>` in the statements, not descending into nested handlers"""
    found = []
    for st in stmts:
        for n in ast.walk(st):
            if isinstance(n, ast.Assign) and len(n.targets) == 1 and \
                    attr_chain(n.targets[0]) == ['ctx', 'out_error']:
                found.append(n.value)
    return found


def new_fault_expr(v, var):
    """Fault('<code>', get_fault_string_from_exception(<var>)) -> code"""
    if isinstance(v, ast.Call) and isinstance(v.func, ast.Name) and v.func.id == 'Fault' and \
            len(v.args) == 2 and not v.keywords and isinstance(v.args[0], ast.Constant) and \
            isinstance(v.args[0].value, str) and is_gfs_call(v.args[1], var):
        return v.args[0].value
    return None


def funnel(tree):
    fn = find_def(find_class(tree, 'Application').body, 'process_request')
    body = strip_doc(fn.body)
    tries = [s for s in body if isinstance(s, ast.Try)]
    if len(tries) != 1 or tries[0].orelse or tries[0].finalbody:
        raise TranslateError('process_request: expected exactly one try/except without else/finally')
    tr = tries[0]

    def step_of(st):
        if isinstance(st, ast.Expr) and isinstance(st.value, ast.Call) and \
                attr_chain(st.value.func) == ['ctx', 'fire_event'] and len(st.value.args) == 1 and \
                isinstance(st.value.args[0], ast.Constant):
            return {'method_call': 'StFireCall', 'method_return_object': 'StFireReturn'}.get(
                st.value.args[0].value, 'other')
        if isinstance(st, ast.Assign) and isinstance(st.value, ast.Call) and \
                attr_chain(st.value.func) == ['self', 'call_wrapper'] and \
                attr_chain(st.targets[0]) == ['ctx', 'out_object']:
            return 'StCallUser'
        for n in ast.walk(st):
            if isinstance(n, ast.Call) and attr_chain(n.func) in (['ctx', 'fire_event'], ['self', 'call_wrapper']):
                raise TranslateError('process_request: user code is reached from an unrecognised statement')
        return None

    for st in body:
        if st is not tr and step_of(st) is not None:
            raise TranslateError('process_request: user code is reached outside the try statement')
    steps = [s for s in (step_of(st) for st in tr.body) if s not in (None, 'other')]
    handlers = []
    for h in tr.handlers:
        if not isinstance(h.type, ast.Name) or h.type.id not in ('Redirect', 'Fault', 'Exception') or not h.name:
            raise TranslateError('process_request: unmodelled except clause')
        if h.type.id == 'Redirect':
            inner = [s for s in h.body if isinstance(s, ast.Try)]
            if len(h.body) != 1 or len(inner) != 1 or len(inner[0].handlers) != 1:
                raise TranslateError('process_request: unmodelled Redirect handler')
            t2 = inner[0]
            first = t2.body[0]
            if not (isinstance(first, ast.Expr) and isinstance(first.value, ast.Call) and
                    attr_chain(first.value.func) == [h.name, 'do_redirect']):
                raise TranslateError('process_request: Redirect handler does not start with do_redirect()')
            h2 = t2.handlers[0]
            if not isinstance(h2.type, ast.Name) or h2.type.id != 'Exception' or not h2.name:
                raise TranslateError('process_request: unmodelled inner handler of Redirect')
            asg = out_error_assignments_resolved(h2.body, (h2.name,), 'process_request/Redirect')
            code = new_fault_expr(asg[0], h2.name) if len(asg) == 1 else None
            if code is None:
                raise TranslateError('process_request: unmodelled out_error in the Redirect handler')
            handlers.append(('HRedirect', '(HENew %s)' % gtext(code)))
            continue
        if binds(ast.Module(body=h.body, type_ignores=[]), h.name):
            raise TranslateError('process_request: the caught exception is re-bound in except %s' % h.type.id)
        asg = out_error_assignments_resolved(h.body, (h.name,), 'process_request/except %s' % h.type.id)
        if not asg:
            handlers.append(('H' + h.type.id, 'HENothing'))
        elif len(asg) == 1 and isinstance(asg[0], ast.Name) and asg[0].id == h.name:
            handlers.append(('H' + h.type.id, 'HECaught'))
        elif len(asg) == 1 and new_fault_expr(asg[0], h.name) is not None:
            handlers.append(('H' + h.type.id, '(HENew %s)' % gtext(new_fault_expr(asg[0], h.name))))
        else:
            raise TranslateError('process_request: unmodelled ctx.out_error assignment in except %s' % h.type.id)
    return steps, handlers


# ------------------------------------------------------------------ server/wsgi.py
def contains_call(stmts, chain):
    for st in stmts:
        for n in ast.walk(st):
            if isinstance(n, ast.Call) and attr_chain(n.func) == chain:
                return True
    return False


def is_resp_code(n):
    return attr_chain(n) == ['p_ctx', 'transport', 'resp_code']


def is_none_test(n):
    """`p_ctx.transport.resp_code is None`"""
    return isinstance(n, ast.Compare) and len(n.ops) == 1 and isinstance(n.ops[0], ast.Is) and \
        is_resp_code(n.left) and isinstance(n.comparators[0], ast.Constant) and n.comparators[0].value is None


def ends_in_handle_error(body, what):
    """the clause must hand p_ctx.out_error (or the caught exception) to handle_error and return its result"""
    last = body[-1]
    if not (isinstance(last, ast.Return) and isinstance(last.value, ast.Call) and
            attr_chain(last.value.func) == ['self', 'handle_error'] and len(last.value.args) == 4 and
            not last.value.keywords and attr_chain(last.value.args[0]) == ['p_ctx'] and
            attr_chain(last.value.args[2]) == ['p_ctx', 'out_error'] and
            attr_chain(last.value.args[3]) == ['start_response']):
        raise TranslateError('%s: the except clause does not end in '
                             '`return self.handle_error(p_ctx, others, p_ctx.out_error, start_response)`' % what)


def wsgi_handler(h, what):
    """one except clause of handle_rpc -> (hcls, herr)"""
    if not isinstance(h.type, ast.Name) or h.type.id not in ('StopIteration', 'Fault', 'Exception'):
        raise TranslateError('%s: unmodelled except clause' % what)
    if h.type.id == 'StopIteration':
        # the generator ended: not an error path; must not touch out_error nor return
        for n in ast.walk(h):
            if isinstance(n, ast.Return) or (isinstance(n, ast.Assign) and
                                             attr_chain(n.targets[0]) == ['p_ctx', 'out_error']):
                raise TranslateError('%s: unmodelled StopIteration clause' % what)
        return ('HStopIteration', 'HENothing')
    if not h.name:
        raise TranslateError('%s: except %s without a name' % (what, h.type.id))
    ends_in_handle_error(h.body, what)
    # statements that decide p_ctx.out_error: direct assignments, and the optional re-binding
    #   if not isinstance(e, Fault): ...; e = Fault('<code>', get_fault_string_from_exception(e))
    rebind = None
    asg = []
    for st in h.body[:-1]:
        if isinstance(st, ast.If):
            t = st.test
            if not (isinstance(t, ast.UnaryOp) and isinstance(t.op, ast.Not) and isinstance(t.operand, ast.Call)
                    and isinstance(t.operand.func, ast.Name) and t.operand.func.id == 'isinstance'
                    and len(t.operand.args) == 2 and attr_chain(t.operand.args[0]) == [h.name]
                    and attr_chain(t.operand.args[1]) == ['Fault']) or st.orelse or rebind is not None:
                raise TranslateError('%s: unmodelled `if` in except %s' % (what, h.type.id))
            for s2 in st.body:
                if isinstance(s2, ast.Assign):
                    if len(s2.targets) == 1 and attr_chain(s2.targets[0]) == [h.name] and \
                            new_fault_expr(s2.value, h.name) is not None and rebind is None:
                        rebind = new_fault_expr(s2.value, h.name)
                    else:
                        raise TranslateError('%s: unmodelled assignment under `if not isinstance(e, Fault)`' % what)
                elif not isinstance(s2, ast.Expr):
                    raise TranslateError('%s: unmodelled statement under `if not isinstance(e, Fault)`' % what)
            if rebind is None:
                raise TranslateError('%s: `if not isinstance(e, Fault)` does not re-bind the exception' % what)
        elif isinstance(st, ast.Assign):
            if len(st.targets) != 1:
                raise TranslateError('%s: unmodelled assignment' % what)
            tg = attr_chain(st.targets[0])
            if tg == ['p_ctx', 'out_error']:
                asg.append(resolve_temps(h.body, st, st.value, (h.name,), what))
            elif is_temp_assign(st, (h.name, 'p_ctx', 'self', 'others', 'start_response')):
                pass                      # a temporary: only matters through resolve_temps
            elif tg == [h.name]:
                raise TranslateError('%s: the caught exception is re-bound unconditionally' % what)
            elif tg not in (['p_ctx', 'out_document'], ['p_ctx', 'out_string']):
                raise TranslateError('%s: unmodelled assignment to %r' % (what, tg))
        elif isinstance(st, ast.Expr) and isinstance(st.value, ast.Call):
            if attr_chain(st.value.func) not in (['logger', 'exception'], ['logger', 'error'], ['p_ctx', 'fire_event']):
                raise TranslateError('%s: unmodelled call in except %s' % (what, h.type.id))
        else:
            raise TranslateError('%s: unmodelled statement in except %s' % (what, h.type.id))
    if len(asg) != 1:
        raise TranslateError('%s: expected exactly one assignment to p_ctx.out_error in except %s' % (what, h.type.id))
    v = asg[0]
    if isinstance(v, ast.Name) and v.id == h.name:
        if rebind is not None:
            if h.type.id != 'Exception':
                raise TranslateError('%s: re-binding under except %s' % (what, h.type.id))
            return ('HException', '(HECaughtOrNew %s)' % gtext(rebind))
        return ('H' + h.type.id, 'HECaught')
    if rebind is None and new_fault_expr(v, h.name) is not None:
        return ('H' + h.type.id, '(HENew %s)' % gtext(new_fault_expr(v, h.name)))
    raise TranslateError('%s: unmodelled p_ctx.out_error in except %s' % (what, h.type.id))


def wsgi_tables(repo):
    tree = parse(repo, 'spyne/server/wsgi.py')
    ok = False
    for n in tree.body:
        if isinstance(n, ast.ImportFrom) and n.module == 'spyne.application' and n.level == 0 and \
                any(a.name == 'get_fault_string_from_exception' and a.asname is None for a in n.names):
            ok = True
        if isinstance(n, (ast.FunctionDef, ast.ClassDef)) and n.name == 'get_fault_string_from_exception':
            ok = None
            break
        if isinstance(n, ast.Assign) and any(attr_chain(t) == ['get_fault_string_from_exception'] for t in n.targets):
            ok = None
            break
    if not ok:
        raise TranslateError('server/wsgi.py: get_fault_string_from_exception is not (only) the one of spyne.application')
    cls = find_class(tree, 'WsgiApplication')
    rpc = find_def(cls.body, 'handle_rpc')
    for n in ast.walk(rpc):
        if isinstance(n, (ast.Global, ast.Nonlocal)):
            raise TranslateError('handle_rpc: global/nonlocal')
    tries = [s for s in ast.walk(rpc) if isinstance(s, ast.Try)]
    first = [t for t in tries if any(isinstance(n, ast.Call) and isinstance(n.func, ast.Name) and n.func.id == 'next'
                                     and len(n.args) == 1 and attr_chain(n.args[0]) == ['g']
                                     for st in t.body for n in ast.walk(st))]
    ser = [t for t in tries if contains_call(t.body, ['self', 'get_out_string'])]
    if len(first) != 1 or len(ser) != 1 or first[0] is ser[0]:
        raise TranslateError('handle_rpc: expected one try around next(g) and one around self.get_out_string(p_ctx)')
    first, ser = first[0], ser[0]
    if ser not in rpc.body:
        raise TranslateError('handle_rpc: the try around get_out_string is not a top-level statement')
    for t in (first, ser):
        if t.orelse or t.finalbody:
            raise TranslateError('handle_rpc: try with else/finally')
    # every next(g) / get_out_string call of handle_rpc is inside those two
    def count(chain_test):
        return sum(1 for n in ast.walk(rpc) if isinstance(n, ast.Call) and chain_test(n))
    if count(lambda n: attr_chain(n.func) == ['self', 'get_out_string']) != 1:
        raise TranslateError('handle_rpc: get_out_string is called more than once')
    if count(lambda n: isinstance(n.func, ast.Name) and n.func.id == 'next' and len(n.args) == 1
             and attr_chain(n.args[0]) == ['g']) != 1:
        raise TranslateError('handle_rpc: next(g) is called more than once')
    h_first = [wsgi_handler(h, 'handle_rpc/next(g)') for h in first.handlers]
    h_ser = [wsgi_handler(h, 'handle_rpc/get_out_string') for h in ser.handlers]
    if any(h[0] == 'HStopIteration' for h in h_ser):
        raise TranslateError('handle_rpc: StopIteration clause on the serialisation try')

    # where is the unchunked response joined?  `if not self.chunked: p_ctx.out_string = [b''.join(p_ctx.out_string)]`
    def is_join_stmt(st):
        if not (isinstance(st, ast.If) and isinstance(st.test, ast.UnaryOp) and isinstance(st.test.op, ast.Not)
                and attr_chain(st.test.operand) == ['self', 'chunked'] and not st.orelse):
            return False
        return any(isinstance(n, ast.Call) and isinstance(n.func, ast.Attribute) and n.func.attr == 'join'
                   and len(n.args) == 1 and attr_chain(n.args[0]) == ['p_ctx', 'out_string'] for n in ast.walk(st))
    join_in_try = any(is_join_stmt(st) for st in ser.body)

    # the success status: `if p_ctx.transport.resp_code is None: p_ctx.transport.resp_code = HTTP_nnn`
    defaults = []
    for i, st in enumerate(rpc.body):
        for n in ast.walk(st):
            if isinstance(n, ast.Assign) and any(is_resp_code(t) for t in n.targets):
                if not (st is not ser and isinstance(st, ast.If) and is_none_test(st.test) and not st.orelse
                        and len(st.body) == 1 and st.body[0] is n and isinstance(n.value, ast.Name)):
                    raise TranslateError('handle_rpc: unmodelled assignment to p_ctx.transport.resp_code')
                defaults.append((i, http_number(n.value.id)))
    if len(defaults) != 1:
        raise TranslateError('handle_rpc: expected exactly one default for p_ctx.transport.resp_code')
    after = defaults[0][0] > rpc.body.index(ser)
    sr = [i for i, st in enumerate(rpc.body) if contains_call([st], ['start_response'])]
    if not sr or min(sr) < defaults[0][0] or min(sr) < rpc.body.index(ser):
        raise TranslateError('handle_rpc: start_response is reachable before the status is decided')

    # handle_error: `if p_ctx.transport.resp_code is None: p_ctx.transport.resp_code = p_ctx.out_protocol.fault_to_http_response_code(error)`
    he = find_def(cls.body, 'handle_error')
    if [a.arg for a in he.args.args] != ['self', 'p_ctx', 'others', 'error', 'start_response']:
        raise TranslateError('handle_error: unexpected signature')
    es = []
    for st in strip_doc(he.body):
        for n in ast.walk(st):
            if isinstance(n, ast.Assign) and any(is_resp_code(t) for t in n.targets):
                v = n.value
                if isinstance(st, ast.If) and is_none_test(st.test) and not st.orelse and len(st.body) == 1 \
                        and st.body[0] is n and isinstance(v, ast.Call) and not v.keywords and len(v.args) == 1 \
                        and attr_chain(v.func) == ['p_ctx', 'out_protocol', 'fault_to_http_response_code'] \
                        and attr_chain(v.args[0]) == ['error']:
                    es.append('ESFromFault')
                elif isinstance(st, ast.If) and is_none_test(st.test) and not st.orelse and len(st.body) == 1 \
                        and st.body[0] is n and isinstance(v, ast.Name):
                    es.append('(ESConst %d)' % http_number(v.id))
                else:
                    raise TranslateError('handle_error: unmodelled assignment to p_ctx.transport.resp_code')
    if len(es) != 1:
        raise TranslateError('handle_error: expected exactly one assignment to p_ctx.transport.resp_code')
    body = strip_doc(he.body)
    gi = [i for i, st in enumerate(body) if contains_call([st], ['self', 'get_out_string'])]
    si = [i for i, st in enumerate(body) if contains_call([st], ['start_response'])]
    if len(gi) != 1 or len(si) != 1 or not gi[0] < si[0]:
        raise TranslateError('handle_error: expected get_out_string once, then start_response once')
    if any(isinstance(n, ast.Try) for st in body[:si[0] + 1] for n in ast.walk(st)):
        raise TranslateError('handle_error: a try statement before start_response is not modelled')
    return h_first, h_ser, join_in_try, defaults[0][1], after, es[0]


# ------------------------------------------------------------------ the XML fault writers (pin)
def elt_local_name(n):
    """first argument of an E(...) call -> local element name: "name" or "{%s}Name" % <ns expr>"""
    if isinstance(n, ast.Constant) and isinstance(n.value, str):
        return n.value.rsplit('}', 1)[-1]
    if isinstance(n, ast.BinOp) and isinstance(n.op, ast.Mod) and isinstance(n.left, ast.Constant) \
            and isinstance(n.left.value, str) and n.left.value.startswith('{%s}'):
        return n.left.value[4:]
    return None


def fault_writer_calls(cls, fname, what):
    """every E(<name>, ...) call reachable from cls.<fname> through private helpers of the same class
    that are called as self._helper(<the fault instance>): [(local name, call, aliases of `inst`)]"""
    out, seen = [], set()

    def walk(fn, aliases, depth):
        if depth > 3 or fn.name in seen:
            raise TranslateError('%s: helper chain too deep or recursive' % what)
        seen.add(fn.name)
        for n in ast.walk(fn):
            if isinstance(n, ast.Assign) and any(isinstance(t, ast.Name) and t.id in aliases for t in n.targets):
                raise TranslateError('%s: the fault instance is re-bound in %s' % (what, fn.name))
            if not isinstance(n, ast.Call):
                continue
            if isinstance(n.func, ast.Name) and n.func.id == 'E' and n.args:
                out.append((elt_local_name(n.args[0]), n, set(aliases), fn))
            ch = attr_chain(n.func)
            if ch and len(ch) == 2 and ch[0] == 'self' and ch[1].startswith('_') and not ch[1].startswith('__'):
                passed = [i for i, a in enumerate(n.args) if isinstance(a, ast.Name) and a.id in aliases]
                if not passed and not any(isinstance(k.value, ast.Name) and k.value.id in aliases for k in n.keywords):
                    continue                # does not see the fault: cannot write its fields
                if n.keywords and any(isinstance(k.value, ast.Name) and k.value.id in aliases for k in n.keywords):
                    raise TranslateError('%s: fault instance passed by keyword to %s' % (what, ch[1]))
                try:
                    helper = find_def(cls.body, ch[1])
                except TranslateError:
                    continue                # inherited (e.g. _fault_to_parent_impl): pinned where it is defined
                params = [a.arg for a in helper.args.args][1:]
                walk(helper, {params[i] for i in passed if i < len(params)}, depth + 1)
    fn = find_def(cls.body, fname)
    if 'inst' not in [a.arg for a in fn.args.args]:
        raise TranslateError('%s: no `inst` parameter' % what)
    walk(fn, {'inst'}, 0)
    return out


def pin_verbatim(calls, name, attr, what, fmt_code=False, kw=None):
    hits = [c for c in calls if c[0] == name]
    if len(hits) != 1:
        raise TranslateError('%s: expected exactly one %s element constructor, found %d' % (what, name, len(hits)))
    _, call, aliases, fn = hits[0]
    if len(call.args) != 2:
        raise TranslateError('%s: %s is not built from exactly one text argument' % (what, name))
    v = call.args[1]
    # a single-assignment temporary of the enclosing function is looked through
    if isinstance(v, ast.Name) and v.id not in aliases:
        asg = [st for st in ast.walk(fn) if isinstance(st, ast.Assign) and any(binds(t, v.id) for t in st.targets)]
        others = [st for st in ast.walk(fn) if not isinstance(st, ast.Assign) and st is not fn
                  and isinstance(st, (ast.For, ast.With, ast.AugAssign, ast.ExceptHandler, ast.Import, ast.ImportFrom))
                  and binds(st, v.id)]
        if len(asg) != 1 or others or len(asg[0].targets) != 1 or not isinstance(asg[0].targets[0], ast.Name):
            raise TranslateError('%s: the text of %s is not the fault attribute itself' % (what, name))
        v = asg[0].value

    def is_attr(x, a):
        ch = attr_chain(x)
        return bool(ch) and len(ch) == 2 and ch[0] in aliases and ch[1] == a
    if fmt_code:
        ok = isinstance(v, ast.BinOp) and isinstance(v.op, ast.Mod) and isinstance(v.left, ast.Constant) \
            and v.left.value == '%s:%s' and isinstance(v.right, ast.Tuple) and len(v.right.elts) == 2 \
            and attr_chain(v.right.elts[0]) == ['self', 'soap_env'] and is_attr(v.right.elts[1], attr)
    else:
        ok = is_attr(v, attr)
    if not ok:
        raise TranslateError('%s: the text of <%s> is not the fault\'s own %s but %s'
                             % (what, name, attr, ast.dump(v)[:100]))
    if kw is None:
        if call.keywords:
            raise TranslateError('%s: unexpected attributes on <%s>' % (what, name))
    else:
        # **{'{%s}lang' % NS_XML: inst.lang}   or   an equivalent single keyword
        if len(call.keywords) != 1:
            raise TranslateError('%s: expected exactly the %s attribute on <%s>' % (what, kw[0], name))
        k = call.keywords[0]
        if k.arg is None and isinstance(k.value, ast.Dict) and len(k.value.keys) == 1:
            key, val = k.value.keys[0], k.value.values[0]
            kn = elt_local_name(key)
        else:
            kn, val = k.arg, k.value
        if kn != kw[0] or not is_attr(val, kw[1]):
            raise TranslateError('%s: attribute %s of <%s> is not the fault\'s own %s' % (what, kw[0], name, kw[1]))


def xml_fault_writers(repo):
    xcls = find_class(parse(repo, 'spyne/protocol/xml.py'), 'XmlDocument')
    calls = fault_writer_calls(xcls, 'fault_to_parent', 'XmlDocument.fault_to_parent')
    pin_verbatim(calls, 'faultcode', 'faultcode', 'XmlDocument.fault_to_parent', fmt_code=True)
    pin_verbatim(calls, 'faultstring', 'faultstring', 'XmlDocument.fault_to_parent')
    pin_verbatim(calls, 'faultactor', 'faultactor', 'XmlDocument.fault_to_parent')
    scls = find_class(parse(repo, 'spyne/protocol/soap/soap12.py'), 'Soap12')
    calls = fault_writer_calls(scls, 'fault_to_parent', 'Soap12.fault_to_parent')
    pin_verbatim(calls, 'Text', 'faultstring', 'Soap12.fault_to_parent', kw=('lang', 'lang'))
    pin_verbatim(calls, 'Role', 'faultactor', 'Soap12.fault_to_parent')
    # which function each modelled XML protocol really dispatches a Fault to
    for con, mod, cn in PROTOCOLS:
        if con not in ('PXml', 'PSoap11', 'PSoap12'):
            continue
        c = getattr(importlib.import_module(mod), cn)
        want = 'Soap12.fault_to_parent' if con == 'PSoap12' else 'XmlDocument.fault_to_parent'
        if c.fault_to_parent.__qualname__ != want:
            raise TranslateError('%s.fault_to_parent resolves to unmodelled %s' % (cn, c.fault_to_parent.__qualname__))


# ------------------------------------------------------------------ emit
def generate(repo):
    order, mro, code = error_classes(repo)
    chain, client, default = http_chain(repo, set(order))
    soap = soap_code(repo)
    app_tree = parse(repo, 'spyne/application.py')
    fs = fault_string_fn(app_tree)
    steps, handlers = funnel(app_tree)
    w_first, w_ser, w_join, w_ok, w_after, w_es = wsgi_tables(repo)
    xml_fault_writers(repo)
    E = lambda k: 'E_' + k
    o = ['(* GENERATED by harness/translate/faultpipe.py from spyne/error.py, spyne/protocol/_outbase.py,',
         '   spyne/protocol/soap/soap11.py, spyne/application.py and spyne/server/wsgi.py.  Do not edit. *)',
         'From SpyneV Require Import Base.Prelude.', 'Open Scope Z_scope.', '',
         '(** Fault classes of spyne/error.py (single inheritance below spyne.model.fault.Fault) *)',
         'Inductive ecls := ' + ' | '.join(E(k) for k in order) + '.',
         'Definition all_ecls : list ecls := [' + '; '.join(E(k) for k in order) + '].',
         'Definition ecls_idx (c : ecls) : Z := match c with ' +
         ' '.join('| %s => %d' % (E(k), i) for i, k in enumerate(order)) + ' end.',
         'Definition ecls_eqb (a b : ecls) : bool := ecls_idx a =? ecls_idx b.',
         'Definition ecls_mro (c : ecls) : list ecls := match c with',
         ] + ['  | %s => [%s]' % (E(k), '; '.join(E(x) for x in mro[k])) for k in order] + ['  end.',
         'Definition ecls_code (c : ecls) : option text := match c with',
         ] + ['  | %s => %s' % (E(k), 'None' if code[k] is None else '(Some %s) (* %s *)' % (gtext(code[k]), code[k]))
              for k in order] + ['  end.', '',
         '(** a non-Fault Python exception, as far as any modelled code could look at it *)',
         'Record pyexn := { px_type : text; px_text : text }.', '',
         '(** spyne.application.get_fault_string_from_exception *)',
         'Definition fault_string_from_exception (e : pyexn) : text := %s.' % fs, '',
         '(** OutProtocolBase.fault_to_http_response_code *)',
         'Definition http_isinstance_chain : list (ecls * Z) := [%s].' %
         '; '.join('(%s, %d)' % (E(c), s) for c, s in chain),
         'Definition http_client_guard : ecls := %s.' % E(client[0]),
         'Definition http_client_prefixes : list text := [%s].' % '; '.join(gtext(x) for x in client[1]),
         'Definition http_client_exacts : list text := [%s].' % '; '.join(gtext(x) for x in client[2]),
         'Definition http_client_status : Z := %d.' % client[3],
         'Definition http_default_status : Z := %d.' % default,
         '(** Soap11.fault_to_http_response_code *)',
         'Definition http_soap_status : Z := %d.' % soap, '',
         'Inductive prot := ' + ' | '.join(p[0] for p in PROTOCOLS) + '.',
         'Definition all_prots : list prot := [' + '; '.join(p[0] for p in PROTOCOLS) + '].',
         'Inductive httpimpl := HBase | HSoap.',
         'Definition http_impl (p : prot) : httpimpl := match p with ' +
         ' '.join('| %s => %s' % (c, i) for c, i in impls()) + ' end.', '',
         '(** Application.process_request: what runs inside the try, and the except clauses in order *)',
         'Inductive fstep := StFireCall | StCallUser | StFireReturn.',
         'Inductive hcls := HRedirect | HFault | HException | HStopIteration.',
         '(** what a clause leaves in out_error: the caught exception, a new Fault(code, fault string), the caught',
         '    exception when it is a Fault and a new Fault(code, fault string) otherwise, or nothing *)',
         'Inductive herr := HECaught | HENew (code : text) | HECaughtOrNew (code : text) | HENothing.',
         'Definition funnel_steps : list fstep := [%s].' % '; '.join(steps),
         'Definition funnel_handlers : list (hcls * herr) := [%s].' %
         '; '.join('(%s, %s)' % h for h in handlers), '',
         '(** WsgiApplication.handle_rpc / handle_error *)',
         'Definition wsgi_first_item_handlers : list (hcls * herr) := [%s].' % '; '.join('(%s, %s)' % h for h in w_first),
         'Definition wsgi_serialise_handlers : list (hcls * herr) := [%s].' % '; '.join('(%s, %s)' % h for h in w_ser),
         'Definition wsgi_join_in_try : bool := %s.' % ('true' if w_join else 'false'),
         'Definition wsgi_ok_status : Z := %d.' % w_ok,
         'Definition wsgi_ok_default_after_serialise : bool := %s.' % ('true' if w_after else 'false'),
         'Inductive estatus := ESFromFault | ESConst (s : Z).',
         'Definition wsgi_error_status : estatus := %s.' % w_es, '']
    return {'FaultTables.v': '\n'.join(o)}
