"""spyne/error.py, spyne/protocol/_outbase.py, spyne/protocol/soap/soap11.py,
spyne/application.py  ->  Gen/FaultTables.v   (property C09)

What is read from the *source text* (``ast``), fail closed:

* ``spyne/error.py``: every class deriving (single inheritance) from ``Fault``,
  its base and its ``CODE`` constant -> ``ecls``, ``ecls_mro``, ``ecls_code``;
  cross-checked against the imported classes' ``__mro__`` / ``CODE``.
* ``OutProtocolBase.fault_to_http_response_code``: the ordered chain
  ``if isinstance(fault, X): return HTTP_nnn`` -> ``http_isinstance_chain``;
  the ``Client`` test (``isinstance(fault, Fault) and (startswith(c) or == c)``)
  -> ``http_client_prefixes`` / ``http_client_exacts`` / ``http_client_status``;
  the final ``return`` -> ``http_default_status``.  ``HTTP_nnn`` names are
  resolved through ``spyne.const.http`` to the number at the head of the status
  line that ``start_response`` will see.
* ``Soap11.fault_to_http_response_code``: a single ``return HTTP_nnn``.
* which of the two implementations each modelled output protocol class
  resolves to (``http_impl``), by ``__qualname__`` of the bound function.
* ``spyne.application.get_fault_string_from_exception``: a constant string, or
  ``str(e)`` / ``type(e).__name__`` (so that a leaking variant is *modelled*, and
  the no-leak theorem then fails to re-prove, instead of being hidden).
* ``Application.process_request``: the one ``try`` statement: which of
  ``fire_event('method_call')``, ``call_wrapper(ctx)``,
  ``fire_event('method_return_object')`` are inside its body and in which
  order (``funnel_steps``), the ``except`` classes in order and what each
  assigns to ``ctx.out_error`` (``funnel_handlers``).
"""
import ast, os, importlib

from .pyexpr import TranslateError, attr_chain

PROTOCOLS = [  # (Coq constructor, module, class)
    ('PSoap11', 'spyne.protocol.soap.soap11', 'Soap11'),
    ('PSoap12', 'spyne.protocol.soap.soap12', 'Soap12'),
    ('PXml', 'spyne.protocol.xml', 'XmlDocument'),
    ('PJson', 'spyne.protocol.json', 'JsonDocument'),
    ('PYaml', 'spyne.protocol.yaml', 'YamlDocument'),
    ('PMsgpack', 'spyne.protocol.msgpack', 'MessagePackDocument'),
    ('PMsgpackRpc', 'spyne.protocol.msgpack', 'MessagePackRpc'),
    ('PHttpRpc', 'spyne.protocol.http', 'HttpRpc'),
]


def gtext(s):
    return '[' + '; '.join(str(ord(c)) for c in s) + ']'


def parse(repo, rel):
    p = os.path.join(repo, rel)
    with open(p) as f:
        return ast.parse(f.read(), p)


def find_class(tree, name):
    for n in tree.body:
        if isinstance(n, ast.ClassDef) and n.name == name:
            return n
    raise TranslateError('class %s not found' % name)


def find_def(body, name):
    for n in body:
        if isinstance(n, ast.FunctionDef) and n.name == name:
            return n
    raise TranslateError('def %s not found' % name)


def strip_doc(body):
    if body and isinstance(body[0], ast.Expr) and isinstance(body[0].value, ast.Constant) \
            and isinstance(body[0].value.value, str):
        return body[1:]
    return body


def http_number(name):
    const = importlib.import_module('spyne.const.http')
    v = getattr(const, name, None)
    if not isinstance(v, str) or not v[:3].isdigit() or v[3:4] != ' ':
        raise TranslateError('cannot resolve HTTP constant %s (%r)' % (name, v))
    return int(v[:3])


# ------------------------------------------------------------------ error.py
def error_classes(repo):
    tree = parse(repo, 'spyne/error.py')
    fault_imported = False
    for n in tree.body:
        if isinstance(n, ast.ImportFrom) and n.module == 'spyne.model.fault' and \
                any(a.name == 'Fault' and a.asname is None for a in n.names):
            fault_imported = True
    if not fault_imported:
        raise TranslateError('spyne/error.py does not import Fault from spyne.model.fault')
    base, code, order = {'Fault': None}, {'Fault': None}, ['Fault']
    for n in tree.body:
        if not isinstance(n, ast.ClassDef):
            continue
        if len(n.bases) != 1 or not isinstance(n.bases[0], ast.Name):
            raise TranslateError('class %s: expected exactly one named base' % n.name)
        b = n.bases[0].id
        if b not in base:
            raise TranslateError('class %s: base %s is not a known Fault class' % (n.name, b))
        c = None
        for st in n.body:
            if isinstance(st, ast.Assign) and len(st.targets) == 1 and \
                    isinstance(st.targets[0], ast.Name) and st.targets[0].id == 'CODE':
                if not (isinstance(st.value, ast.Constant) and isinstance(st.value.value, str)):
                    raise TranslateError('class %s: CODE is not a string constant' % n.name)
                c = st.value.value
        base[n.name] = b
        code[n.name] = c if c is not None else code[b]
        order.append(n.name)
    mro = {}
    for k in order:
        chain, x = [], k
        while x is not None:
            chain.append(x)
            x = base[x]
        mro[k] = chain
    # cross-check against what the interpreter built
    err = importlib.import_module('spyne.error')
    if not os.path.abspath(err.__file__).startswith(os.path.abspath(repo) + os.sep):
        raise TranslateError('spyne imported from %s, not from %s' % (err.__file__, repo))
    Fault = importlib.import_module('spyne.model.fault').Fault
    for k in order:
        cls = Fault if k == 'Fault' else getattr(err, k, None)
        if cls is None or not isinstance(cls, type):
            raise TranslateError('spyne.error.%s missing at run time' % k)
        real = [c.__name__ for c in cls.__mro__ if isinstance(c, type) and issubclass(c, Fault)]
        if real != mro[k]:
            raise TranslateError('%s: run-time mro %r differs from the source chain %r' % (k, real, mro[k]))
        if getattr(cls, 'CODE', None) != code[k]:
            raise TranslateError('%s: run-time CODE %r differs from source %r' % (k, cls.CODE, code[k]))
    return order, mro, code


# ------------------------------------------------------------------ fault_to_http_response_code
def is_isinstance_fault(n):
    if isinstance(n, ast.Call) and isinstance(n.func, ast.Name) and n.func.id == 'isinstance' \
            and len(n.args) == 2 and not n.keywords and isinstance(n.args[0], ast.Name) \
            and n.args[0].id == 'fault' and isinstance(n.args[1], ast.Name):
        return n.args[1].id
    return None


def single_return_name(body, what):
    if len(body) != 1 or not isinstance(body[0], ast.Return) or not isinstance(body[0].value, ast.Name):
        raise TranslateError('%s: expected a single `return HTTP_nnn`' % what)
    return body[0].value.id


def client_test(n, known):
    """isinstance(fault, C) and (<code tests>)  ->  (C, prefixes, exacts)"""
    if not (isinstance(n, ast.BoolOp) and isinstance(n.op, ast.And) and len(n.values) == 2):
        raise TranslateError('unrecognised test in fault_to_http_response_code: %s' % ast.dump(n)[:120])
    c = is_isinstance_fault(n.values[0])
    if c is None or c not in known:
        raise TranslateError('unrecognised class guard in the Client test')
    tests = n.values[1]
    tests = tests.values if isinstance(tests, ast.BoolOp) and isinstance(tests.op, ast.Or) else [tests]
    prefixes, exacts = [], []
    for t in tests:
        if isinstance(t, ast.Call) and isinstance(t.func, ast.Attribute) and t.func.attr == 'startswith' \
                and attr_chain(t.func.value) == ['fault', 'faultcode'] and len(t.args) == 1 \
                and isinstance(t.args[0], ast.Constant) and isinstance(t.args[0].value, str) and not t.keywords:
            prefixes.append(t.args[0].value)
        elif isinstance(t, ast.Compare) and len(t.ops) == 1 and isinstance(t.ops[0], ast.Eq) \
                and attr_chain(t.left) == ['fault', 'faultcode'] \
                and isinstance(t.comparators[0], ast.Constant) and isinstance(t.comparators[0].value, str):
            exacts.append(t.comparators[0].value)
        else:
            raise TranslateError('unrecognised fault code test: %s' % ast.dump(t)[:120])
    return c, prefixes, exacts


def http_chain(repo, known):
    tree = parse(repo, 'spyne/protocol/_outbase.py')
    fn = find_def(find_class(tree, 'OutProtocolBase').body, 'fault_to_http_response_code')
    if [a.arg for a in fn.args.args] != ['self', 'fault']:
        raise TranslateError('fault_to_http_response_code: unexpected signature')
    body = strip_doc(fn.body)
    chain, client = [], None
    if not body or not isinstance(body[-1], ast.Return) or not isinstance(body[-1].value, ast.Name):
        raise TranslateError('fault_to_http_response_code: last statement is not `return HTTP_nnn`')
    default = http_number(body[-1].value.id)
    for st in body[:-1]:
        if not isinstance(st, ast.If) or st.orelse:
            raise TranslateError('fault_to_http_response_code: expected a plain `if` chain')
        status = http_number(single_return_name(st.body, 'fault_to_http_response_code'))
        c = is_isinstance_fault(st.test)
        if c is not None:
            if c not in known:
                raise TranslateError('isinstance against unknown class %s' % c)
            if client is not None:
                raise TranslateError('isinstance test after the Client test: order not modelled')
            chain.append((c, status))
        else:
            if client is not None:
                raise TranslateError('more than one faultcode test')
            client = client_test(st.test, known) + (status,)
    if client is None:
        client = ('Fault', [], [], default)
    return chain, client, default


def soap_code(repo):
    tree = parse(repo, 'spyne/protocol/soap/soap11.py')
    fn = find_def(find_class(tree, 'Soap11').body, 'fault_to_http_response_code')
    return http_number(single_return_name(strip_doc(fn.body), 'Soap11.fault_to_http_response_code'))


def impls():
    out = []
    for con, mod, cn in PROTOCOLS:
        cls = getattr(importlib.import_module(mod), cn)
        qn = cls.fault_to_http_response_code.__qualname__
        if qn == 'OutProtocolBase.fault_to_http_response_code':
            out.append((con, 'HBase'))
        elif qn == 'Soap11.fault_to_http_response_code':
            out.append((con, 'HSoap'))
        else:
            raise TranslateError('%s.fault_to_http_response_code resolves to unmodelled %s' % (cn, qn))
    return out


# ------------------------------------------------------------------ application.py
def is_gfs_call(n, var):
    return isinstance(n, ast.Call) and isinstance(n.func, ast.Name) and \
        n.func.id == 'get_fault_string_from_exception' and len(n.args) == 1 and \
        isinstance(n.args[0], ast.Name) and n.args[0].id == var and not n.keywords


def fault_string_fn(tree):
    fn = find_def(tree.body, 'get_fault_string_from_exception')
    if [a.arg for a in fn.args.args] != ['e']:
        raise TranslateError('get_fault_string_from_exception: unexpected signature')
    body = strip_doc(fn.body)
    if len(body) != 1 or not isinstance(body[0], ast.Return):
        raise TranslateError('get_fault_string_from_exception: expected a single return')
    v = body[0].value
    if isinstance(v, ast.Constant) and isinstance(v.value, str):
        return gtext(v.value)
    if isinstance(v, ast.Call) and isinstance(v.func, ast.Name) and v.func.id == 'str' and \
            len(v.args) == 1 and isinstance(v.args[0], ast.Name) and v.args[0].id == 'e':
        return '(px_text e)'
    if attr_chain(v) == ['e', '__class__', '__name__'] or (
            isinstance(v, ast.Attribute) and v.attr == '__name__' and isinstance(v.value, ast.Call)
            and isinstance(v.value.func, ast.Name) and v.value.func.id == 'type'):
        return '(px_type e)'
    raise TranslateError('get_fault_string_from_exception: unmodelled return expression %s' % ast.dump(v)[:120])


def out_error_assignments(stmts):
    """all `ctx.out_error = <expr>` in the statements, not descending into nested handlers"""
    found = []
    for st in stmts:
        for n in ast.walk(st):
            if isinstance(n, ast.Assign) and len(n.targets) == 1 and \
                    attr_chain(n.targets[0]) == ['ctx', 'out_error']:
                found.append(n.value)
    return found


def new_fault_expr(v, var):
    """Fault('<code>', get_fault_string_from_exception(<var>)) -> code"""
    if isinstance(v, ast.Call) and isinstance(v.func, ast.Name) and v.func.id == 'Fault' and \
            len(v.args) == 2 and not v.keywords and isinstance(v.args[0], ast.Constant) and \
            isinstance(v.args[0].value, str) and is_gfs_call(v.args[1], var):
        return v.args[0].value
    return None


def funnel(tree):
    fn = find_def(find_class(tree, 'Application').body, 'process_request')
    body = strip_doc(fn.body)
    tries = [s for s in body if isinstance(s, ast.Try)]
    if len(tries) != 1 or tries[0].orelse or tries[0].finalbody:
        raise TranslateError('process_request: expected exactly one try/except without else/finally')
    tr = tries[0]

    def step_of(st):
        if isinstance(st, ast.Expr) and isinstance(st.value, ast.Call) and \
                attr_chain(st.value.func) == ['ctx', 'fire_event'] and len(st.value.args) == 1 and \
                isinstance(st.value.args[0], ast.Constant):
            return {'method_call': 'StFireCall', 'method_return_object': 'StFireReturn'}.get(
                st.value.args[0].value, 'other')
        if isinstance(st, ast.Assign) and isinstance(st.value, ast.Call) and \
                attr_chain(st.value.func) == ['self', 'call_wrapper'] and \
                attr_chain(st.targets[0]) == ['ctx', 'out_object']:
            return 'StCallUser'
        for n in ast.walk(st):
            if isinstance(n, ast.Call) and attr_chain(n.func) in (['ctx', 'fire_event'], ['self', 'call_wrapper']):
                raise TranslateError('process_request: user code is reached from an unrecognised statement')
        return None

    for st in body:
        if st is not tr and step_of(st) is not None:
            raise TranslateError('process_request: user code is reached outside the try statement')
    steps = [s for s in (step_of(st) for st in tr.body) if s not in (None, 'other')]
    handlers = []
    for h in tr.handlers:
        if not isinstance(h.type, ast.Name) or h.type.id not in ('Redirect', 'Fault', 'Exception') or not h.name:
            raise TranslateError('process_request: unmodelled except clause')
        if h.type.id == 'Redirect':
            inner = [s for s in h.body if isinstance(s, ast.Try)]
            if len(h.body) != 1 or len(inner) != 1 or len(inner[0].handlers) != 1:
                raise TranslateError('process_request: unmodelled Redirect handler')
            t2 = inner[0]
            first = t2.body[0]
            if not (isinstance(first, ast.Expr) and isinstance(first.value, ast.Call) and
                    attr_chain(first.value.func) == [h.name, 'do_redirect']):
                raise TranslateError('process_request: Redirect handler does not start with do_redirect()')
            h2 = t2.handlers[0]
            if not isinstance(h2.type, ast.Name) or h2.type.id != 'Exception' or not h2.name:
                raise TranslateError('process_request: unmodelled inner handler of Redirect')
            asg = out_error_assignments(h2.body)
            code = new_fault_expr(asg[0], h2.name) if len(asg) == 1 else None
            if code is None:
                raise TranslateError('process_request: unmodelled out_error in the Redirect handler')
            handlers.append(('HRedirect', '(HENew %s)' % gtext(code)))
            continue
        asg = out_error_assignments(h.body)
        if not asg:
            handlers.append(('H' + h.type.id, 'HENothing'))
        elif len(asg) == 1 and isinstance(asg[0], ast.Name) and asg[0].id == h.name:
            handlers.append(('H' + h.type.id, 'HECaught'))
        elif len(asg) == 1 and new_fault_expr(asg[0], h.name) is not None:
            handlers.append(('H' + h.type.id, '(HENew %s)' % gtext(new_fault_expr(asg[0], h.name))))
        else:
            raise TranslateError('process_request: unmodelled ctx.out_error assignment in except %s' % h.type.id)
    return steps, handlers


# ------------------------------------------------------------------ emit
def generate(repo):
    order, mro, code = error_classes(repo)
    chain, client, default = http_chain(repo, set(order))
    soap = soap_code(repo)
    app_tree = parse(repo, 'spyne/application.py')
    fs = fault_string_fn(app_tree)
    steps, handlers = funnel(app_tree)
    E = lambda k: 'E_' + k
    o = ['(* GENERATED by harness/translate/faultpipe.py from spyne/error.py, spyne/protocol/_outbase.py,',
         '   spyne/protocol/soap/soap11.py and spyne/application.py.  Do not edit. *)',
         'From SpyneV Require Import Base.Prelude.', 'Open Scope Z_scope.', '',
         '(** Fault classes of spyne/error.py (single inheritance below spyne.model.fault.Fault) *)',
         'Inductive ecls := ' + ' | '.join(E(k) for k in order) + '.',
         'Definition all_ecls : list ecls := [' + '; '.join(E(k) for k in order) + '].',
         'Definition ecls_idx (c : ecls) : Z := match c with ' +
         ' '.join('| %s => %d' % (E(k), i) for i, k in enumerate(order)) + ' end.',
         'Definition ecls_eqb (a b : ecls) : bool := ecls_idx a =? ecls_idx b.',
         'Definition ecls_mro (c : ecls) : list ecls := match c with',
         ] + ['  | %s => [%s]' % (E(k), '; '.join(E(x) for x in mro[k])) for k in order] + ['  end.',
         'Definition ecls_code (c : ecls) : option text := match c with',
         ] + ['  | %s => %s' % (E(k), 'None' if code[k] is None else '(Some %s) (* %s *)' % (gtext(code[k]), code[k]))
              for k in order] + ['  end.', '',
         '(** a non-Fault Python exception, as far as any modelled code could look at it *)',
         'Record pyexn := { px_type : text; px_text : text }.', '',
         '(** spyne.application.get_fault_string_from_exception *)',
         'Definition fault_string_from_exception (e : pyexn) : text := %s.' % fs, '',
         '(** OutProtocolBase.fault_to_http_response_code *)',
         'Definition http_isinstance_chain : list (ecls * Z) := [%s].' %
         '; '.join('(%s, %d)' % (E(c), s) for c, s in chain),
         'Definition http_client_guard : ecls := %s.' % E(client[0]),
         'Definition http_client_prefixes : list text := [%s].' % '; '.join(gtext(x) for x in client[1]),
         'Definition http_client_exacts : list text := [%s].' % '; '.join(gtext(x) for x in client[2]),
         'Definition http_client_status : Z := %d.' % client[3],
         'Definition http_default_status : Z := %d.' % default,
         '(** Soap11.fault_to_http_response_code *)',
         'Definition http_soap_status : Z := %d.' % soap, '',
         'Inductive prot := ' + ' | '.join(p[0] for p in PROTOCOLS) + '.',
         'Definition all_prots : list prot := [' + '; '.join(p[0] for p in PROTOCOLS) + '].',
         'Inductive httpimpl := HBase | HSoap.',
         'Definition http_impl (p : prot) : httpimpl := match p with ' +
         ' '.join('| %s => %s' % (c, i) for c, i in impls()) + ' end.', '',
         '(** Application.process_request: what runs inside the try, and the except clauses in order *)',
         'Inductive fstep := StFireCall | StCallUser | StFireReturn.',
         'Inductive hcls := HRedirect | HFault | HException.',
         'Inductive herr := HECaught | HENew (code : text) | HENothing.',
         'Definition funnel_steps : list fstep := [%s].' % '; '.join(steps),
         'Definition funnel_handlers : list (hcls * herr) := [%s].' %
         '; '.join('(%s, %s)' % h for h in handlers), '']
    return {'FaultTables.v': '\n'.join(o)}
