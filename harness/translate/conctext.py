"""The shared-state functions of C12  ->  Gen/ConcText.v  (skeletons of shared accesses)

For each function the interleaving model of coq/C12/Model.v mirrors

    spyne/server/wsgi.py            WsgiApplication.handle_wsdl_request
    spyne/interface/wsdl/wsdl11.py  Wsdl11.get_interface_document / build_interface_document
    spyne/protocol/_base.py         ProtocolMixin.get_cls_attrs / sort_fields
    spyne/protocol/xml.py           XmlDocument.__validate_lxml
    spyne/util/memo.py              memoize.__call__
    spyne/util/cdict.py             cdict.__getitem__

the function body is walked statement by statement, in evaluation order.  An expression that
touches a modelled shared variable, lock or call must be one of the shapes listed for that
function and becomes a token of the skeleton language of coq/C12/Text.v (Rd/Wr/Acq/Rel/Call/
New/Upd/SortIt); the `if` / `with` / `try` / loop around tokens is kept (If <kind of test>,
With <lock>, Try body handlers finally, Loop); statements without tokens are dropped.  Any other
mention of one of the guarded names (`_wsdl`, `_attrcache`, `memo`, `error_log`, ...) or a test
of an unknown kind around tokens raises TranslateError: fail closed.

Props/C12.v proves, against the generated definitions, that (a) they are the skeletons the
model was written against and (b) on every listed path through them the model's step function
performs exactly the accesses of the path, in the same order - so moving a store out of the
locked region, dropping a lock, publishing a dictionary before it is complete or reordering a
check breaks a proof obligation directly.
"""
import ast, os, re

from .pyexpr import TranslateError


def U(n):
    return ast.unparse(n)


class Fn(object):
    """configuration of one function: how expressions become tokens"""

    def __init__(self, name, loads=None, stores=None, calls=None, call_res=None, compares=None, locks=None,
                 ignored=(), guarded=(), track_exits=True, ctor=None):
        self.name = name
        self.loads = loads or {}         # unparse(expr) in Load context -> token
        self.stores = stores or {}       # unparse(target) in Store context -> token
        self.calls = calls or {}         # unparse(call) -> token
        self.call_res = call_res or []   # (regex on unparse(call), token)
        self.compares = compares or {}   # unparse(compare) -> token
        self.locks = locks or {}         # unparse(with item) -> lock name
        self.ignored = set(ignored)      # unparse(expr) that is known to be harmless
        self.guarded = set(guarded)      # attribute / variable names that must not occur unrecognised
        self.track_exits = track_exits
        self.ctor = ctor                 # name of a constructor call that creates the private object -> 'New'


NEW_MUTATORS = {'update', 'setdefault', 'pop', 'popitem', 'clear', '__setitem__', '__delitem__'}

def paren(t):
    return t if re.match(r'^[A-Za-z]+$', t) else '(%s)' % t

def seq(toks):
    return ' ;; '.join(toks) if toks else 'Skip'

def arg(toks):
    return paren(seq(toks))


def lookup(table, u):
    """exact key first, then keys written as 're:<pattern>' (local variable names are not part of the shape)"""
    if u in table:
        return table[u]
    for k, v in table.items():
        if k.startswith('re:') and re.match(k[3:] + '$', u):
            return v
    return None


class Walker(object):
    def __init__(self, cfg, where, klass=None):
        self.c, self.where, self.klass = cfg, where, klass
        self.newvars = set()      # local names bound to the object the constructor call created

    def err(self, node, msg):
        raise TranslateError('%s: line %s: %s: %s' % (self.where, getattr(node, 'lineno', '?'), msg, U(node)[:120]))

    # ---- expressions, in evaluation order
    def scan(self, n):
        c = self.c
        if n is None:
            return []
        if isinstance(n, ast.expr):
            u = U(n)
            if u in c.ignored:
                return []
            if isinstance(n, ast.Call):
                tok = lookup(c.calls, u)
                if tok is None:
                    for rx, t in c.call_res:
                        if re.match(rx, u):
                            tok = t
                            break
                if tok is None:       # either spelling of a lock-protected region
                    for lk, name in c.locks.items():
                        if u == lk + '.acquire()':
                            tok = 'Acq ' + name
                        elif u == lk + '.release()':
                            tok = 'Rel ' + name
                if tok is None and c.ctor and isinstance(n.func, ast.Name) and n.func.id == c.ctor:
                    tok = 'New'
                # any in-place change of the object the constructor call created (whatever the arguments are
                # called, however many such statements there are) is an update of the - possibly already
                # published - dictionary
                if tok is None and isinstance(n.func, ast.Attribute) and isinstance(n.func.value, ast.Name) \
                        and n.func.value.id in self.newvars and n.func.attr in NEW_MUTATORS:
                    tok = 'Upd'
                if tok is not None:
                    inner = []
                    for a in list(n.args) + [k.value for k in n.keywords]:
                        inner += self.scan(a)
                    return inner + [tok]
            if isinstance(n, ast.Compare) and lookup(c.compares, u) is not None:
                return [lookup(c.compares, u)]
            if isinstance(n, (ast.Attribute, ast.Subscript, ast.Name)) and isinstance(getattr(n, 'ctx', None), ast.Load):
                if lookup(c.loads, u) is not None:
                    return [lookup(c.loads, u)]
            if isinstance(n, ast.Attribute) and n.attr in c.guarded:
                self.err(n, 'unrecognised use of guarded name %r' % n.attr)
            if isinstance(n, ast.Name) and n.id in c.guarded:
                self.err(n, 'unrecognised use of guarded name %r' % n.id)
            if isinstance(n, (ast.Lambda, ast.ListComp, ast.SetComp, ast.DictComp, ast.GeneratorExp)):
                inner = []
                for ch in ast.iter_child_nodes(n):
                    inner += self.scan(ch)
                if inner:
                    self.err(n, 'shared access inside a lambda / comprehension')
                return []
        out = []
        for ch in ast.iter_child_nodes(n):
            if isinstance(ch, (ast.expr_context, ast.operator, ast.boolop, ast.unaryop, ast.cmpop)):
                continue
            out += self.scan(ch)
        return out

    def store(self, t):
        c = self.c
        if isinstance(t, (ast.Tuple, ast.List)):
            out = []
            for e in t.elts:
                out += self.store(e)
            return out
        if isinstance(t, ast.Starred):
            return self.store(t.value)
        u = U(t)
        if lookup(c.stores, u) is not None:
            return [lookup(c.stores, u)]
        if isinstance(t, ast.Attribute):
            if t.attr in c.guarded:
                self.err(t, 'unrecognised store to guarded name %r' % t.attr)
            return self.scan(t.value)
        if isinstance(t, ast.Subscript):
            return self.scan(t.value) + self.scan(t.slice)
        if isinstance(t, ast.Name):
            if t.id in c.guarded:
                self.err(t, 'unrecognised store to guarded name %r' % t.id)
            return []
        self.err(t, 'unrecognised assignment target')

    def const_test(self, test):
        """`self.<m>(...)` where <m> is a method of the SAME class whose whole body is `return True` / `return
        False` (a hook subclasses override; the pinned function is the one instances of this class run): the value
        of the test for this class, else None.  The arguments must not touch shared state."""
        if self.klass is None or not isinstance(test, ast.Call) or not isinstance(test.func, ast.Attribute) \
                or not isinstance(test.func.value, ast.Name) or test.func.value.id != 'self':
            return None
        defs = [n for n in self.klass.body if isinstance(n, ast.FunctionDef) and n.name == test.func.attr]
        if len(defs) != 1 or defs[0].decorator_list:
            return None
        body = [st for st in defs[0].body
                if not (isinstance(st, ast.Expr) and isinstance(st.value, ast.Constant) and isinstance(st.value.value, str))]
        if len(body) != 1 or not isinstance(body[0], ast.Return) or not isinstance(body[0].value, ast.Constant) \
                or not isinstance(body[0].value.value, bool):
            return None
        for a in list(test.args) + [k.value for k in test.keywords]:
            if self.scan(a):
                self.err(test, 'shared access in the arguments of a constant hook')
        return body[0].value.value

    # ---- statements
    def kind(self, test):
        if isinstance(test, ast.Compare) and len(test.ops) == 1:
            op, rhs = test.ops[0], test.comparators[0]
            if isinstance(rhs, ast.Constant) and rhs.value is None:
                if isinstance(op, ast.Is):
                    return 'CNone'
                if isinstance(op, ast.IsNot):
                    return 'CSome'
            if isinstance(op, ast.Eq) and isinstance(rhs, ast.Constant) and rhs.value is False:
                return 'CFalse'
            if isinstance(op, ast.NotIn):
                return 'CMiss'
        if isinstance(test, ast.UnaryOp) and isinstance(test.op, ast.Not) and isinstance(test.operand, ast.Compare) \
                and len(test.operand.ops) == 1 and isinstance(test.operand.ops[0], ast.In):
            return 'CMiss'
        if isinstance(test, (ast.Name, ast.Attribute)):
            return 'CTrue'
        # `entry is not None and entry[0] is <name>`: a cached pair whose first component is (by identity) the
        # object it was computed from
        if isinstance(test, ast.BoolOp) and isinstance(test.op, ast.And) and len(test.values) == 2:
            a, b = test.values
            if self.kind(a) == 'CSome' and isinstance(a.left, ast.Name) \
                    and isinstance(b, ast.Compare) and len(b.ops) == 1 and isinstance(b.ops[0], ast.Is) \
                    and U(b.left) == '%s[0]' % a.left.id and isinstance(b.comparators[0], ast.Name):
                return 'CFresh'
        return None

    def block(self, stmts):
        out = []
        for s in stmts:
            out += self.stmt(s)
        return out

    def stmt(self, s):
        c = self.c
        if isinstance(s, ast.Assign):
            out = self.scan(s.value)
            if c.ctor and isinstance(s.value, ast.Call) and isinstance(s.value.func, ast.Name) \
                    and s.value.func.id == c.ctor:
                self.newvars |= {t.id for t in s.targets if isinstance(t, ast.Name)}
            for t in s.targets:
                if isinstance(t, ast.Subscript) and isinstance(t.value, ast.Name) and t.value.id in self.newvars:
                    out += self.scan(t.slice) + ['Upd']       # attr[k] = v
                    continue
                out += self.store(t)
            return out
        if isinstance(s, ast.AnnAssign):
            return self.scan(s.value) + self.store(s.target)
        if isinstance(s, ast.AugAssign):
            out = self.scan(s.value) + self.store(s.target)
            if out:
                self.err(s, 'augmented assignment touching shared state')
            return out
        if isinstance(s, ast.Expr):
            return self.scan(s.value)
        if isinstance(s, ast.Return):
            return self.scan(s.value) + (['Ret'] if c.track_exits else [])
        if isinstance(s, ast.Raise):
            return self.scan(s.exc) + self.scan(s.cause) + (['Raise'] if c.track_exits else [])
        if isinstance(s, ast.If):
            cv = self.const_test(s.test)
            if cv is not None:          # the test is a constant for instances of this class: no branch at all
                return self.block(s.body if cv else s.orelse)
            t = self.scan(s.test)
            b = self.block(s.body)
            o = self.block(s.orelse)
            if not b and not o:
                return t
            k = self.kind(s.test)
            if k is None:
                self.err(s.test, 'test of unknown kind around shared accesses')
            if o:
                # `if c: ...; return x  else: rest` is `if c: ...; return x` followed by `rest`
                if c.track_exits and b and b[-1] in ('Ret', 'Raise'):
                    return t + ['If %s %s' % (k, arg(b))] + o
                self.err(s, 'else branch touching shared state')
            return t + ['If %s %s' % (k, arg(b))]
        if isinstance(s, ast.Try):
            b = self.block(s.body)
            h = []
            for hd in s.handlers:
                h += self.block(hd.body)
            if self.block(s.orelse):
                self.err(s, 'try/else touching shared state')
            f = self.block(s.finalbody)
            if not (b or h or f):
                return []
            return ['Try %s %s %s' % (arg(b), arg(h), arg(f))]
        if isinstance(s, ast.With):
            b = self.block(s.body)
            for it in reversed(s.items):
                u = U(it.context_expr)
                if u in c.locks and it.optional_vars is None:
                    b = ['With %s %s' % (c.locks[u], arg(b))]
                else:
                    pre = self.scan(it.context_expr)
                    if pre:
                        self.err(it.context_expr, 'shared access in a with item')
            return b
        if isinstance(s, (ast.For, ast.While)):
            head = self.scan(s.iter if isinstance(s, ast.For) else s.test)
            b = self.block(s.body)
            if head or self.block(s.orelse):
                self.err(s, 'loop head / else touching shared state')
            return ['Loop %s' % arg(b)] if b else []
        if isinstance(s, ast.Assert):
            return self.scan(s.test)
        if isinstance(s, (ast.Pass, ast.Break, ast.Continue, ast.Import, ast.ImportFrom, ast.Global, ast.Nonlocal)):
            return []
        # anything else (nested def/class, delete, match, async ...) must not touch shared state
        if self.scan(s):
            self.err(s, 'statement of unknown kind touching shared state')
        return []


# ---------------------------------------------------------------- the functions
CFG = {
    'wsdl': Fn('handle_wsdl_request',
               loads={'self._wsdl': 'Rd AppWsdl'}, stores={'self._wsdl': 'Wr AppWsdl'},
               calls={'self.doc.wsdl11.get_interface_document()': 'Rd BWsdl',
                      'self.doc.wsdl11.build_interface_document(url)': 'Call Build',
                      'self._mtx_build_interface_document.acquire()': 'Acq WLock',
                      'self._mtx_build_interface_document.release()': 'Rel WLock'},
               locks={'self._mtx_build_interface_document': 'WLock'},
               guarded={'_wsdl', '_mtx_build_interface_document', 'get_interface_document', 'build_interface_document'},
               track_exits=False),
    'get': Fn('get_interface_document', loads={'self.__wsdl': 'Rd BWsdl'}, stores={'self.__wsdl': 'Wr BWsdl'},
              guarded={'__wsdl'}),
    'build': Fn('build_interface_document', loads={'self.__wsdl': 'Rd BWsdl'}, stores={'self.__wsdl': 'Wr BWsdl'},
                guarded={'__wsdl'}, track_exits=False),
    'attrs': Fn('get_cls_attrs',
                calls={'self._attrcache.get(cls, None)': 'Rd AttrCache'},
                loads={'self._attrcache[cls]': 'Rd AttrCache'}, stores={'self._attrcache[cls]': 'Wr AttrCache'},
                ignored={'len(self._attrcache)'}, guarded={'_attrcache', 'update', 'setdefault', 'pop', 'clear'},
                ctor='DefaultAttrDict'),
    'validate': Fn('__validate_lxml',
                   calls={'self.validation_schema.validate(payload)': 'Call Validate'},
                   loads={'self.validation_schema.error_log.last_error': 'Rd ErrLog'},
                   locks={'self._validation_lock': 'VLock'},
                   guarded={'validation_schema', 'error_log', 'last_error', '_validation_lock', 'validate'}),
    'memo': Fn('__call__',
               compares={r're:\w+ in self\.memo': 'Rd MemoIn', r're:\w+ not in self\.memo': 'Rd MemoIn'},
               stores={r're:self\.memo\[\w+\]': 'Wr MemoIn'},
               calls={r're:self\.memo\.get\(\w+\)': 'Rd MemoGet', 'self.func(*args, **kwargs)': 'Call Func'},
               locks={'self.lock': 'MLock'}, guarded={'memo', 'lock', 'func'}),
    'sort': Fn('sort_fields',
               calls={'self._sortcache.get(cls, None)': 'Rd SortCache',
                      'cls.get_flat_type_info(cls)': 'Call Func'},
               call_res=[(r'^\w+\.(sort|reverse)\(', 'SortIt')],
               loads={'self._sortcache[cls]': 'Rd SortCache'}, stores={'self._sortcache[cls]': 'Wr SortCache'},
               ignored={'len(self._sortcache)'}, guarded={'_sortcache', 'sort', 'reverse'}),
    'cdict': Fn('__getitem__',
                calls={'dict.__getitem__(self, cls)': 'Rd CDict'},
                loads={r're:self\[\w+\]': 'Rd CDict'}, stores={r're:self\[\w+\]': 'Wr CDict'},
                guarded={'__setitem__', 'setdefault', 'update', 'pop'}),
}

SITES = [  # key, file, class, function
    ('wsdl', 'spyne/server/wsgi.py', 'WsgiApplication', 'handle_wsdl_request'),
    ('get', 'spyne/interface/wsdl/wsdl11.py', 'Wsdl11', 'get_interface_document'),
    ('build', 'spyne/interface/wsdl/wsdl11.py', 'Wsdl11', 'build_interface_document'),
    ('attrs', 'spyne/protocol/_base.py', 'ProtocolMixin', 'get_cls_attrs'),
    ('validate', 'spyne/protocol/xml.py', 'XmlDocument', '__validate_lxml'),
    ('memo', 'spyne/util/memo.py', 'memoize', '__call__'),
    ('sort', 'spyne/protocol/_base.py', 'ProtocolMixin', 'sort_fields'),
    ('cdict', 'spyne/util/cdict.py', 'cdict', '__getitem__'),
]

_TREES = {}

def tree(repo, rel):
    p = os.path.join(repo, rel)
    if p not in _TREES:
        with open(p) as f:
            _TREES[p] = ast.parse(f.read(), p)
    return _TREES[p]

def find_class(mod, cls, rel):
    got = [n for n in mod.body if isinstance(n, ast.ClassDef) and n.name == cls]
    if len(got) != 1:
        raise TranslateError('%s: expected exactly one class %s, found %d' % (rel, cls, len(got)))
    return got[0]

def find_func(klass, fn, rel):
    got = [n for n in klass.body if isinstance(n, ast.FunctionDef) and n.name == fn]
    if len(got) != 1:
        raise TranslateError('%s: expected exactly one %s.%s, found %d' % (rel, klass.name, fn, len(got)))
    if got[0].decorator_list:
        raise TranslateError('%s: %s.%s is decorated' % (rel, klass.name, fn))
    return got[0]


def stores_of(node, attr):
    """every assignment / deletion of an attribute called `attr` under node"""
    return [n for n in ast.walk(node) if isinstance(n, ast.Attribute) and n.attr == attr
            and isinstance(n.ctx, (ast.Store, ast.Del))]

def enclosing_funcs(mod):
    """{id(node): (class name or None, function name)} for every node inside a function"""
    out = {}
    def rec(n, cls, fn):
        for ch in ast.iter_child_nodes(n):
            c2, f2 = cls, fn
            if isinstance(ch, ast.ClassDef):
                c2, f2 = ch.name, None
            elif isinstance(ch, (ast.FunctionDef, ast.AsyncFunctionDef, ast.Lambda)):
                f2 = getattr(ch, 'name', '<lambda>') if fn is None else fn
            out[id(ch)] = (c2, f2)
            rec(ch, c2, f2)
    rec(mod, None, None)
    return out

def only_written_in(mod, attr, allowed, also_subscript=False):
    """every store to `<x>.attr` (and, optionally, `<x>.attr[...] = ` / del) is inside one of the allowed functions"""
    enc = enclosing_funcs(mod)
    nodes = stores_of(mod, attr)
    if also_subscript:
        for n in ast.walk(mod):
            if isinstance(n, ast.Subscript) and isinstance(n.ctx, (ast.Store, ast.Del)) \
                    and isinstance(n.value, ast.Attribute) and n.value.attr == attr:
                nodes.append(n)
    return bool(nodes) and all(enc.get(id(n)) in allowed for n in nodes)

def init_assigns(klass, attr, ctor, rel):
    """__init__ of the class assigns self.<attr> = <ctor>() exactly once"""
    init = find_func(klass, '__init__', rel)
    hits = [s for s in ast.walk(init) if isinstance(s, ast.Assign) and len(s.targets) == 1
            and U(s.targets[0]) == 'self.' + attr]
    return len(hits) == 1 and U(hits[0].value) == ctor


# ---------------------------------------------------------------- who writes instance state of shared objects
# Every object of these modules except the per-request contexts is shared by all threads.  Any statement outside
# __init__ that assigns, deletes, fills or mutates an attribute of `self` is listed; the list is pinned by
# Props/C12.v, so a new lazily filled table or cache on a protocol / transport / interface / application object
# breaks an obligation until it has been looked at (and, if it is filled at request time, modelled).
STATE_FILES = [
    'spyne/application.py', 'spyne/interface/_base.py', 'spyne/protocol/_base.py', 'spyne/protocol/_inbase.py',
    'spyne/protocol/_outbase.py', 'spyne/protocol/xml.py', 'spyne/protocol/soap/soap11.py',
    'spyne/protocol/soap/soap12.py', 'spyne/protocol/dictdoc/_base.py', 'spyne/protocol/dictdoc/hier.py',
    'spyne/protocol/dictdoc/simple.py', 'spyne/protocol/json.py', 'spyne/protocol/http.py',
    'spyne/server/_base.py', 'spyne/server/http.py', 'spyne/server/wsgi.py',
    'spyne/interface/wsdl/wsdl11.py', 'spyne/interface/xml_schema/_base.py',
]
MUTATORS = {'append', 'extend', 'insert', 'remove', 'pop', 'popitem', 'clear', 'update', 'setdefault', 'add',
            'discard', 'sort', 'reverse'}

def per_request(cls):
    return cls.name.endswith('Context') or cls.name in ('_ResponseIterator',)

def self_attr(n):
    return n.attr if isinstance(n, ast.Attribute) and isinstance(n.value, ast.Name) and n.value.id == 'self' else None

def state_writers(repo):
    out = set()
    for rel in STATE_FILES:
        mod = tree(repo, rel)
        short = rel[len('spyne/'):]
        for cls in [n for n in ast.walk(mod) if isinstance(n, ast.ClassDef)]:
            if per_request(cls):
                continue
            for fn in [n for n in cls.body if isinstance(n, (ast.FunctionDef, ast.AsyncFunctionDef))]:
                if fn.name == '__init__':
                    continue
                for n in ast.walk(fn):
                    what = None
                    if isinstance(n, ast.Attribute) and isinstance(n.ctx, (ast.Store, ast.Del)) and self_attr(n):
                        what = 'self.%s=' % n.attr
                    elif isinstance(n, ast.Subscript) and isinstance(n.ctx, (ast.Store, ast.Del)) and self_attr(n.value):
                        what = 'self.%s[]=' % n.value.attr
                    elif isinstance(n, ast.Call) and isinstance(n.func, ast.Attribute) and n.func.attr in MUTATORS \
                            and self_attr(n.func.value):
                        what = 'self.%s.%s()' % (n.func.value.attr, n.func.attr)
                    elif isinstance(n, ast.Call) and isinstance(n.func, ast.Name) and n.func.id in ('setattr', 'delattr') \
                            and n.args and isinstance(n.args[0], ast.Name) and n.args[0].id == 'self':
                        what = '%s(self)' % n.func.id
                    elif isinstance(n, ast.Attribute) and n.attr == '__dict__' and isinstance(n.value, ast.Name) \
                            and n.value.id == 'self':
                        what = 'self.__dict__'
                    if what:
                        out.add('%s:%s.%s:%s' % (short, cls.name, fn.name, what))
    for x in out:
        if '"' in x:
            raise TranslateError('quote in a state-writer entry: %r' % x)
    return sorted(out)


def generate(repo):
    sk = {}
    for key, rel, cls, fn in SITES:
        mod = tree(repo, rel)
        f = find_func(find_class(mod, cls, rel), fn, rel)
        w = Walker(CFG[key], '%s:%s.%s' % (rel, cls, fn), find_class(mod, cls, rel))
        sk[key] = seq(w.block(f.body))

    wsgi = tree(repo, 'spyne/server/wsgi.py')
    w11 = tree(repo, 'spyne/interface/wsdl/wsdl11.py')
    base = tree(repo, 'spyne/protocol/_base.py')
    xml = tree(repo, 'spyne/protocol/xml.py')
    memo = tree(repo, 'spyne/util/memo.py')
    build = find_func(find_class(w11, 'Wsdl11', 'wsdl11.py'), 'build_interface_document', 'wsdl11.py')
    last = build.body[-1]
    bstmts = [st for st in build.body
              if not (isinstance(st, ast.Expr) and isinstance(st.value, ast.Constant) and isinstance(st.value.value, str))]
    resets = sorted(U(st) for st in bstmts[:3])
    sortfn = find_func(find_class(base, 'ProtocolMixin', '_base.py'), 'sort_fields', '_base.py')
    stores = [n for n in ast.walk(sortfn) if isinstance(n, ast.Assign) and len(n.targets) == 1
              and U(n.targets[0]) == 'self._sortcache[cls]']
    sort_tagged = False
    if len(stores) == 1 and isinstance(stores[0].value, ast.Tuple) and len(stores[0].value.elts) == 2 \
            and all(isinstance(e, ast.Name) for e in stores[0].value.elts):
        tag = stores[0].value.elts[0].id            # the local holding the flat type info
        tests = [n.test for n in ast.walk(sortfn) if isinstance(n, ast.If) and isinstance(n.test, ast.BoolOp)
                 and Walker(CFG['sort'], 'sort_fields').kind(n.test) == 'CFresh']
        tag_assigns = sorted(U(n.value) for n in ast.walk(sortfn) if isinstance(n, ast.Assign)
                             and len(n.targets) == 1 and U(n.targets[0]) == tag)
        sort_tagged = (len(tests) == 1 and U(tests[0].values[1].comparators[0]) == tag
                       and tag_assigns in (['None', 'cls.get_flat_type_info(cls)'], ['cls.get_flat_type_info(cls)']))
    side = [
        ('wlock_is_lock', 'WsgiApplication.__init__: self._mtx_build_interface_document = threading.Lock()',
         init_assigns(find_class(wsgi, 'WsgiApplication', 'wsgi.py'), '_mtx_build_interface_document', 'threading.Lock()', 'wsgi.py')),
        ('app_wsdl_writers', 'wsgi.py: ._wsdl is assigned only in WsgiApplication.__init__ / handle_wsdl_request',
         only_written_in(wsgi, '_wsdl', {('WsgiApplication', '__init__'), ('WsgiApplication', 'handle_wsdl_request')})),
        ('b_wsdl_writers', 'wsdl11.py: .__wsdl is assigned only in Wsdl11.__init__ / build_interface_document',
         only_written_in(w11, '__wsdl', {('Wsdl11', '__init__'), ('Wsdl11', 'build_interface_document')})),
        ('build_write_last', 'build_interface_document: the assignment of self.__wsdl is its last statement',
         isinstance(last, ast.Assign) and [U(t) for t in last.targets] == ['self.__wsdl']),
        ('build_resets_first', 'build_interface_document starts by emptying the three node tables of the builder '
                               '(port_type_dict, binding_dict, service_elt_dict), before anything is built',
         resets == ['self.binding_dict = {}', 'self.port_type_dict = {}', 'self.service_elt_dict = {}']),
        ('attrcache_writers', '_base.py: _attrcache is assigned / filled only in __init__ / get_cls_attrs',
         only_written_in(base, '_attrcache', {('ProtocolMixin', '__init__'), ('ProtocolMixin', 'get_cls_attrs')}, True)),
        ('sortcache_writers', '_base.py: _sortcache is assigned / filled only in __init__ / sort_fields',
         only_written_in(base, '_sortcache', {('ProtocolMixin', '__init__'), ('ProtocolMixin', 'sort_fields')}, True)),
        ('mlock_is_rlock', 'memoize.__init__: self.lock = threading.RLock()',
         init_assigns(find_class(memo, 'memoize', 'memo.py'), 'lock', 'threading.RLock()', 'memo.py')),
        ('vlock_is_lock', 'XmlDocument.__init__: self._validation_lock = threading.Lock()',
         init_assigns(find_class(xml, 'XmlDocument', 'xml.py'), '_validation_lock', 'threading.Lock()', 'xml.py')),
        ('sort_entry_tagged', 'sort_fields: the entry stored is (fti, items), the entry returned is one whose first '
                              'component IS the fti read from cls.get_flat_type_info(cls) in this call', sort_tagged),
        ('caches_exact', 'ProtocolMixin.__init__: _attrcache / _sortcache are WeakKeyDictionary() - looked up by the '
                         'exact class, never through a base-class fall-back (cdict)',
         init_assigns(find_class(base, 'ProtocolMixin', '_base.py'), '_attrcache', 'WeakKeyDictionary()', '_base.py') and
         init_assigns(find_class(base, 'ProtocolMixin', '_base.py'), '_sortcache', 'WeakKeyDictionary()', '_base.py')),
    ]

    out = ['(** GENERATED by harness/translate/conctext.py from the shared-state functions of',
           '    spyne/server/wsgi.py, interface/wsdl/wsdl11.py, protocol/_base.py, protocol/xml.py,',
           '    util/memo.py, util/cdict.py.  Do not edit. *)',
           'From Coq Require Import String List.', 'From SpyneV Require Import C12.Text.', 'Open Scope sk_scope.', '']
    for key, rel, cls, fn in SITES:
        out.append('(* %s : %s.%s *)' % (rel, cls, fn))
        out.append('Definition g_%s : sk := %s.' % (key, sk[key]))
    out.append('')
    for name, what, val in side:
        out.append('(* %s *)' % what)
        out.append('Definition g_%s : bool := %s.' % (name, 'true' if val else 'false'))
    out.append('')
    out.append('Definition g_side : bool := %s.' % ' && '.join('g_' + n for n, _, _ in side))
    out.append('')
    out.append('(* every statement outside __init__ that writes instance state of a shared object *)')
    out.append('Definition g_state_writers : list string := (')
    out.append('\n'.join('  "%s" ::' % x for x in state_writers(repo)))
    out.append('  nil)%string.')
    return {'ConcText.v': '\n'.join(out) + '\n'}
