"""Statement-level translation of four small decision procedures  ->  Gen/C05Steps.v

  XmlDocument.from_element, the xsi:nil block            -> xml_nil      (nillable / default / replace_null_with_default)
  XmlDocument._get_xsi_target                            -> xsi_target   (which class an xsi:type-tagged element is read as)
  EnumBase.validate_string, InProtocolBase.enum_base_from_bytes,
  XmlDocument.enum_from_element                          -> enum_vs, enum_from_bytes, enum_from_element
  InProtocolBase.decimal_from_unicode                    -> decimal_number_reader (what Decimal() is applied to when the
                                                            document carries a number)

Each function body is read as a sequence of ``if <cond>: raise ValidationError`` / ``if <cond>: return <e>`` /
``return <e>`` steps (nested ifs, elif / else allowed) and becomes nested Gallina ``if``s in the SAME ORDER; conditions
go through pyexpr.BoolTranslator with a closed vocabulary of atoms.  Re-ordering two steps, dropping a ``return``,
turning an ``if`` into an ``elif`` or replacing a membership test therefore yields a different Gallina function and
the theorems of coq/C05 about it stop proving.  Fail closed: any statement or atom outside the vocabulary raises
TranslateError.
"""
import ast, sys, inspect, importlib, textwrap
from .pyexpr import BoolTranslator, TranslateError, find_function, attr_chain, body_as_expr, TRUE, FALSE


def _doc_or_log(s):
    if isinstance(s, ast.Expr) and isinstance(s.value, ast.Constant) and isinstance(s.value.value, str):
        return True
    if isinstance(s, ast.Expr) and isinstance(s.value, ast.Call):
        ch = attr_chain(s.value.func)
        return bool(ch) and ch[0] in ('logger', 'logger_invalid')
    return False


def _is_validation_error(s):
    if not isinstance(s, ast.Raise) or s.exc is None:
        return False
    e = s.exc
    return isinstance(e, ast.Call) and isinstance(e.func, ast.Name) and e.func.id == 'ValidationError'


class Steps(object):
    """cond: ast -> coq bool text; ret: ast -> coq text of the returned outcome; assign: ast.Assign -> None (accepted) or raise"""

    def __init__(self, cond, ret, assign=None, where='?'):
        self.cond, self.ret, self.assign, self.where = cond, ret, assign, where

    def block(self, stmts, k):
        """Gallina text of running `stmts` and then continuing with `k` (None: nothing follows)"""
        stmts = [s for s in stmts if not _doc_or_log(s)]
        if not stmts:
            if k is None:
                raise TranslateError('%s: control can fall off the end' % self.where)
            return k
        s, rest = stmts[0], stmts[1:]
        if isinstance(s, ast.Return):
            return self.ret(s.value)
        if _is_validation_error(s):
            return 'VFault'
        if isinstance(s, ast.Assign):
            if self.assign is None:
                raise TranslateError('%s: unexpected assignment' % self.where)
            self.assign(s)
            return self.block(rest, k)
        if isinstance(s, ast.If):
            after = self.block(rest, k) if (rest or k is not None) else None
            c = self.cond(s.test)
            th = self.block(s.body, after)
            el = self.block(s.orelse, after) if s.orelse else after
            if el is None:
                raise TranslateError('%s: control can fall off the end after an if' % self.where)
            if c == TRUE:
                return th
            if c == FALSE:
                return el
            return '(if %s then %s else %s)' % (c, th, el)
        raise TranslateError('%s: unsupported statement %s' % (self.where, ast.dump(s)[:120]))


def _bool(leaf):
    def no_cmp(op, l, r):
        raise TranslateError('unsupported comparison %s / %s' % (ast.dump(l)[:60], ast.dump(r)[:60]))
    return BoolTranslator(leaf, no_cmp, None, lambda n: None, None)


def _fn(mod, path):
    return find_function(ast.parse(inspect.getsource(mod)), path)


# ---------------------------------------------------------------- xsi:nil block of XmlDocument.from_element
def tr_xml_nil(xml):
    fn = _fn(xml, ['XmlDocument', 'from_element'])
    body = [s for s in fn.body if not _doc_or_log(s)]
    if not (len(body) >= 2 and isinstance(body[0], ast.Assign)
            and ast.dump(body[0]) == ast.dump(ast.parse('cls_attrs = self.get_cls_attrs(cls)').body[0])):
        raise TranslateError('from_element: first statement is not cls_attrs = self.get_cls_attrs(cls)')
    nil_if = body[1]
    want_test = ast.parse("element.get(XSI('nil')) in ('true', '1')").body[0].value
    if not isinstance(nil_if, ast.If) or ast.dump(nil_if.test) != ast.dump(want_test) or nil_if.orelse:
        raise TranslateError('from_element: the xsi:nil test is not the recognised one')

    def leaf(n):
        ch = attr_chain(n)
        if ch == ['self', 'replace_null_with_default']:
            return 'replace'
        if ch in (['cls_attrs', 'nillable'], ['cls_attrs', 'nullable']):
            return 'nillable'
        if isinstance(n, ast.Compare) and len(n.ops) == 1 and isinstance(n.comparators[0], ast.Attribute) \
                and attr_chain(n.left) == ['self', 'validator'] and attr_chain(n.comparators[0]) == ['self', 'SOFT_VALIDATION']:
            return {ast.Is: 'soft', ast.IsNot: '(negb soft)'}.get(type(n.ops[0]))
        if isinstance(n, ast.Compare) and len(n.ops) == 1 and attr_chain(n.left) == ['cls_attrs', 'default'] \
                and isinstance(n.comparators[0], ast.Constant) and n.comparators[0].value is None:
            return {ast.Is: '(is_none default)', ast.IsNot: '(negb (is_none default))'}.get(type(n.ops[0]))
        return None

    def ret(e):
        if e is None or (isinstance(e, ast.Constant) and e.value is None):
            return '(Ok None)'
        if attr_chain(e) == ['cls_attrs', 'default']:
            return '(Ok default)'
        raise TranslateError('from_element: unexpected value returned for xsi:nil')

    text = Steps(_bool(leaf).tr, ret, where='from_element[xsi:nil]').block(nil_if.body, None)
    return ('(* the block of XmlDocument.from_element run for an element with xsi:nil = "true" | "1" *)\n'
            'Definition xml_nil {V : Type} (soft nillable replace : bool) (default : option V) : out (option V) :=\n  %s.\n' % text)


# ---------------------------------------------------------------- XmlDocument._get_xsi_target
XSI_ASSIGNS = ["sup = getattr(cls, '__orig__', None) or cls", "sub = getattr(newclass, '__orig__', None) or newclass"]

def tr_xsi_target(xml):
    fn = _fn(xml, ['XmlDocument', '_get_xsi_target'])
    if [a.arg for a in fn.args.args] != ['cls', 'newclass', 'xsi_type']:
        raise TranslateError('_get_xsi_target: unexpected signature')
    seen = []

    def assign(s):
        d = ast.dump(s)
        for src in XSI_ASSIGNS:
            if d == ast.dump(ast.parse(src).body[0]):
                seen.append(src)
                return
        raise TranslateError('_get_xsi_target: unexpected assignment')
    names_differ = ast.parse('(newclass.get_namespace(), newclass.get_type_name()) != (cls.get_namespace(), cls.get_type_name())').body[0].value

    def leaf(n):
        if isinstance(n, ast.Compare) and len(n.ops) == 1 and isinstance(n.left, ast.Name) and isinstance(n.comparators[0], ast.Name):
            pair = (n.left.id, n.comparators[0].id)
            if pair in (('sub', 'sup'), ('sup', 'sub')):
                return {ast.Is: '(xq_same_orig q)', ast.IsNot: '(negb (xq_same_orig q))'}.get(type(n.ops[0]))
        if ast.dump(n) == ast.dump(names_differ):
            return '(xq_names_differ q)'
        if isinstance(n, ast.Call) and isinstance(n.func, ast.Name) and n.func.id == 'issubclass' and len(n.args) == 2 \
                and all(isinstance(a, ast.Name) for a in n.args) and not n.keywords:
            pair = (n.args[0].id, n.args[1].id)
            return {('sup', 'Array'): '(xq_sup_is_array q)', ('sup', 'ComplexModelBase'): '(xq_sup_is_complex q)',
                    ('sub', 'sup'): '(xq_sub_extends_sup q)'}.get(pair)
        return None

    def ret(e):
        if isinstance(e, ast.Name) and e.id == 'cls':
            return '(Ok Declared)'
        if isinstance(e, ast.Name) and e.id == 'newclass':
            return '(Ok Named)'
        raise TranslateError('_get_xsi_target: unexpected return value')

    text = Steps(_bool(leaf).tr, ret, assign, where='_get_xsi_target').block(fn.body, None)
    if sorted(seen) != sorted(XSI_ASSIGNS):
        raise TranslateError('_get_xsi_target: sup / sub are not computed from __orig__ as recognised')
    for nm, cls in (('Array', 'spyne.model.complex'), ('ComplexModelBase', 'spyne.model.complex')):
        if getattr(xml, nm, None) is not getattr(importlib.import_module(cls), nm):
            raise TranslateError('%s in xml.py is not %s.%s' % (nm, cls, nm))
    return ('(* XmlDocument._get_xsi_target(cls, newclass, xsi_type): q describes the pair (declared class, class named by xsi:type) *)\n'
            'Definition xsi_target (q : xsi_query) : out xsi_choice :=\n  %s.\n' % text)


# ---------------------------------------------------------------- enum
def tr_enum(enum_mod, inbase, xml, mbase):
    out = []
    # EnumBase.validate_string: a single return expression
    fn = _fn(enum_mod, ['EnumBase', 'validate_string'])
    vs_expr = body_as_expr(fn)
    if 'validate_string' in enum_mod.SimpleModel.__dict__ or getattr(enum_mod, 'SimpleModel') is not mbase.SimpleModel:
        raise TranslateError('SimpleModel.validate_string is not the one of ModelBase')
    mb = _fn(mbase, ['ModelBase', 'validate_string'])
    want = ast.parse('(cls.Attributes.nillable or value is not None)').body[0].value
    if ast.dump(body_as_expr(mb)) != ast.dump(want):
        raise TranslateError('ModelBase.validate_string: unexpected body')
    for mode in ('val', 'none'):
        def leaf(n, mode=mode):
            if isinstance(n, ast.Call) and isinstance(n.func, ast.Attribute) and n.func.attr == 'validate_string' \
                    and isinstance(n.func.value, ast.Name) and n.func.value.id == 'SimpleModel' and len(n.args) == 2:
                return TRUE if mode == 'val' else 'nillable'
            if isinstance(n, ast.Compare) and len(n.ops) == 1 and isinstance(n.ops[0], (ast.In, ast.NotIn)) \
                    and isinstance(n.left, ast.Name) and n.left.id == 'value' and attr_chain(n.comparators[0]) == ['cls', '__values__']:
                t = '(existsb (text_eqb v) values)' if mode == 'val' else FALSE      # None is not in a tuple of strings
                return t if isinstance(n.ops[0], ast.In) else ('(negb %s)' % t if t != FALSE else TRUE)
            return None
        text = _bool(leaf).tr(vs_expr)
        if mode == 'val':
            out.append('Definition enum_vs (nillable : bool) (values : list text) (v : text) : bool :=\n  %s.\n' % text)
        else:
            out.append('Definition enum_vs_none (nillable : bool) (values : list text) : bool :=\n  %s.\n' % text)
    # the two readers
    for name, mod, path, var in (('enum_from_bytes', inbase, ['InProtocolBase', 'enum_base_from_bytes'], ['value']),
                                 ('enum_from_element', xml, ['XmlDocument', 'enum_from_element'], ['element', 'text'])):
        fn = _fn(mod, path)

        def is_var(n):
            return attr_chain(n) == var

        def leaf(n):
            if isinstance(n, ast.Compare) and len(n.ops) == 1 and isinstance(n.comparators[0], ast.Attribute) \
                    and attr_chain(n.left) == ['self', 'validator'] and attr_chain(n.comparators[0]) == ['self', 'SOFT_VALIDATION']:
                return {ast.Is: 'soft', ast.IsNot: '(negb soft)'}.get(type(n.ops[0]))
            if isinstance(n, ast.Call) and attr_chain(n.func) == ['cls', 'validate_string'] and len(n.args) == 2 \
                    and isinstance(n.args[0], ast.Name) and n.args[0].id == 'cls' and is_var(n.args[1]):
                return '(match ov with Some v => enum_vs nillable values v | None => enum_vs_none nillable values end)'
            if isinstance(n, ast.Compare) and len(n.ops) == 1 and isinstance(n.ops[0], (ast.In, ast.NotIn)) \
                    and is_var(n.left) and attr_chain(n.comparators[0]) == ['cls', '__values__']:
                t = '(match ov with Some v => existsb (text_eqb v) values | None => false end)'
                return t if isinstance(n.ops[0], ast.In) else '(negb %s)' % t
            return None

        def ret(e):
            if isinstance(e, ast.Call) and isinstance(e.func, ast.Name) and e.func.id == 'getattr' and len(e.args) == 2 \
                    and isinstance(e.args[0], ast.Name) and e.args[0].id == 'cls' and is_var(e.args[1]):
                # getattr(cls, None) raises TypeError; getattr(cls, name) is whatever attribute the class has
                return '(match ov with Some v => Ok (class_attr v) | None => Crash TypeError end)'
            raise TranslateError('%s: unexpected return value' % name)
        text = Steps(_bool(leaf).tr, ret, where=name).block(fn.body, None)
        out.append('(* ov: the text handed to the reader (None: an element without text); class_attr: getattr(cls, .) *)\n'
                   'Definition %s {M : Type} (class_attr : text -> M) (soft nillable : bool) (values : list text) (ov : option text) : out M :=\n  %s.\n'
                   % (name, text))
    return '\n'.join(out)


# ---------------------------------------------------------------- decimal_from_unicode: what Decimal() is applied to
def tr_decimal_reader(inbase):
    fn = _fn(inbase, ['InProtocolBase', 'decimal_from_unicode'])
    if [a.arg for a in fn.args.args] != ['self', 'cls', 'string']:
        raise TranslateError('decimal_from_unicode: unexpected signature')
    num_test = ast.parse('isinstance(string, (six.integer_types, float, D)) and not isinstance(string, bool)').body[0].value
    num_branch = None
    for s in fn.body:
        if isinstance(s, ast.If) and ast.dump(s.test) == ast.dump(num_test):
            num_branch = s
    if num_branch is None:
        raise TranslateError('decimal_from_unicode: the branch for a document that carries a number was not found')
    as_text = set()           # names bound to str(string) in the number branch
    for s in num_branch.body:
        if isinstance(s, ast.Assign) and len(s.targets) == 1 and isinstance(s.targets[0], ast.Name) \
                and ast.dump(s.value) == ast.dump(ast.parse('str(string)').body[0].value):
            as_text.add(s.targets[0].id)
        elif not _doc_or_log(s):
            raise TranslateError('decimal_from_unicode: unexpected statement in the number branch')
    calls = [n for n in ast.walk(fn) if isinstance(n, ast.Call) and isinstance(n.func, ast.Name) and n.func.id == 'D']
    if len(calls) != 1 or len(calls[0].args) != 1 or calls[0].keywords or not isinstance(calls[0].args[0], ast.Name):
        raise TranslateError('decimal_from_unicode: expected exactly one call D(<name>)')
    arg = calls[0].args[0].id
    # every other assignment to that name would change what it holds
    others = [n for n in ast.walk(fn) if isinstance(n, ast.Assign) and any(isinstance(t, ast.Name) and t.id == arg for t in n.targets)
              and n not in num_branch.body]
    if others:
        raise TranslateError('decimal_from_unicode: %s is assigned outside the number branch' % arg)
    if arg in as_text:
        conv = 'ViaShortestText'
    elif arg == 'string':
        conv = 'ExactExpansion'
    else:
        raise TranslateError('decimal_from_unicode: cannot tell what D(%s) is applied to' % arg)
    if getattr(inbase, 'D', None) is not importlib.import_module('decimal').Decimal:
        raise TranslateError('D in _inbase.py is not decimal.Decimal')
    return ('(* a number found in a JSON / YAML / MessagePack document for a Decimal member: Decimal() is applied to its\n'
            '   str() (the shortest text that reads back as the same float) or to the number itself (a float is then\n'
            '   converted to its exact binary expansion) *)\n'
            'Definition decimal_number_reader : dec_num_conv := %s.\n' % conv)


def generate(repo):
    xml = importlib.import_module('spyne.protocol.xml')
    inbase = importlib.import_module('spyne.protocol._inbase')
    enum_mod = importlib.import_module('spyne.model.enum')
    mbase = importlib.import_module('spyne.model._base')
    for m in (xml, inbase, enum_mod, mbase):
        if not m.__file__.startswith(repo.rstrip('/') + '/'):
            raise TranslateError('%s imported from %s, not from %s' % (m.__name__, m.__file__, repo))
    out = ['(* GENERATED by harness/translate/c05steps.py from spyne/protocol/xml.py, spyne/protocol/_inbase.py and',
           '   spyne/model/enum.py. Do not edit. *)',
           'From SpyneV Require Import C05.Facets C05.StepTypes.', 'Open Scope Z_scope.', '',
           tr_xml_nil(xml), tr_xsi_target(xml), tr_enum(enum_mod, inbase, xml, mbase), tr_decimal_reader(inbase)]
    return {'C05Steps.v': '\n'.join(out) + '\n'}
