"""Normalisation of Python source trees for harness/translate/dictdoc.py (C02): the translator compares
what the code DECIDES, so two sources that decide the same thing must look the same to it.  Every
rewrite below preserves the behaviour of the code under Python 3 (the interpreter the property is
checked on); anything that is not recognised is left alone, so the translator still fails closed.

canon(tree)             structural normal form (applied to the code and to every template alike)
alpha(fn, vocabulary)   bijective renaming of the local names of a function, by order of first binding,
                        onto the vocabulary the translator's templates are written in
"""
import ast, copy

TERMINATORS = (ast.Return, ast.Raise, ast.Continue, ast.Break)

# six shims under Python 3
SIX_NAMES = {'text_type': 'str', 'binary_type': 'bytes'}
SIX_TUPLES = {'string_types': ('str',), 'integer_types': ('int',), 'class_types': ('type',)}


def _dump(n):
    return ast.dump(n)


def _is_logger_call(st):
    if not (isinstance(st, ast.Expr) and isinstance(st.value, ast.Call)):
        return False
    f = st.value.func
    return isinstance(f, ast.Attribute) and isinstance(f.value, ast.Name) and f.value.id in ('logger', 'logging') \
        and f.attr in ('debug', 'info', 'warning', 'warn', 'error', 'critical', 'exception', 'log')


def _is_docstring(st):
    return isinstance(st, ast.Expr) and isinstance(st.value, ast.Constant) and isinstance(st.value.value, str)


def _const_bool(n):
    """the truth value of a test that is a constant under Python 3, or None"""
    if isinstance(n, ast.Constant) and isinstance(n.value, bool):
        return n.value
    if isinstance(n, ast.UnaryOp) and isinstance(n.op, ast.Not):
        v = _const_bool(n.operand)
        return None if v is None else (not v)
    return None


class _Canon(ast.NodeTransformer):
    # ---- expressions
    def visit_Attribute(self, node):
        self.generic_visit(node)
        if isinstance(node.value, ast.Name) and node.value.id == 'six':
            if node.attr in SIX_NAMES:
                return ast.copy_location(ast.Name(id=SIX_NAMES[node.attr], ctx=ast.Load()), node)
            if node.attr in SIX_TUPLES:
                return ast.copy_location(ast.Tuple(elts=[ast.Name(id=x, ctx=ast.Load()) for x in SIX_TUPLES[node.attr]],
                                                   ctx=ast.Load()), node)
            if node.attr == 'PY2':
                return ast.copy_location(ast.Constant(value=False), node)
            if node.attr == 'PY3':
                return ast.copy_location(ast.Constant(value=True), node)
        return node

    def visit_UnaryOp(self, node):
        self.generic_visit(node)
        if isinstance(node.op, ast.Not) and isinstance(node.operand, ast.Compare) and len(node.operand.ops) == 1:
            flip = {ast.In: ast.NotIn, ast.NotIn: ast.In, ast.Is: ast.IsNot, ast.IsNot: ast.Is}
            op = node.operand.ops[0]
            if type(op) in flip:
                c = node.operand
                return ast.copy_location(ast.Compare(left=c.left, ops=[flip[type(op)]()], comparators=c.comparators), node)
        return node

    def visit_Compare(self, node):
        self.generic_visit(node)
        if len(node.ops) == 1 and isinstance(node.ops[0], (ast.In, ast.NotIn)) \
                and isinstance(node.comparators[0], (ast.List, ast.Set)) \
                and all(isinstance(e, ast.Constant) for e in node.comparators[0].elts):
            # membership in a literal of constants: list / set / tuple alike
            node.comparators = [ast.Tuple(elts=node.comparators[0].elts, ctx=ast.Load())]
        return node

    def visit_BoolOp(self, node):
        self.generic_visit(node)
        if isinstance(node.op, ast.Or):
            # `x is True or x is False` == isinstance(x, bool): bool has exactly these two instances
            def is_const(v, val):
                return isinstance(v, ast.Compare) and len(v.ops) == 1 and isinstance(v.ops[0], ast.Is) \
                    and isinstance(v.comparators[0], ast.Constant) and v.comparators[0].value is val
            vals = list(node.values)
            for i, v in enumerate(vals):
                if is_const(v, True) or is_const(v, False):
                    other = not v.comparators[0].value
                    for j, u in enumerate(vals):
                        if j != i and is_const(u, other) and _dump(u.left) == _dump(v.left):
                            call = ast.Call(func=ast.Name(id='isinstance', ctx=ast.Load()),
                                            args=[v.left, ast.Name(id='bool', ctx=ast.Load())], keywords=[])
                            lo, hi = min(i, j), max(i, j)
                            vals[lo] = call
                            del vals[hi]
                            node.values = vals
                            if len(vals) == 1:
                                return vals[0]
                            return self.visit_BoolOp(node) if False else node
        return node

    def visit_Call(self, node):
        self.generic_visit(node)
        kws = []
        for k in node.keywords:
            if k.arg is None and isinstance(k.value, ast.Dict) and k.value.keys \
                    and all(isinstance(x, ast.Constant) and isinstance(x.value, str) and x.value.isidentifier()
                            for x in k.value.keys):
                kws.extend(ast.keyword(arg=x.value, value=v) for x, v in zip(k.value.keys, k.value.values))
            else:
                kws.append(k)
        node.keywords = kws
        # isinstance(x, (T,)) == isinstance(x, T)
        if isinstance(node.func, ast.Name) and node.func.id == 'isinstance' and len(node.args) == 2 \
                and isinstance(node.args[1], ast.Tuple) and len(node.args[1].elts) == 1:
            node.args[1] = node.args[1].elts[0]
        return node

    def visit_Raise(self, node):
        self.generic_visit(node)
        # the text of a plain message is not a decision (a format applied to values is left alone)
        if isinstance(node.exc, ast.Call):
            node.exc.args = [ast.Constant(value='<message>') if isinstance(a, ast.Constant) and isinstance(a.value, str)
                             else a for a in node.exc.args]
        return node

    # ---- statement lists
    def _stmts(self, body, drop_doc=False):
        out = []
        for i, st in enumerate(body):
            if drop_doc and i == 0 and _is_docstring(st):
                continue
            if _is_logger_call(st) or isinstance(st, ast.Pass):
                continue
            st = self.visit(st)
            if st is None:
                continue
            sts = st if isinstance(st, list) else [st]
            for s in sts:
                out.append(s)
        # if c: ...terminator  else: X   ==   if c: ...terminator ; X
        flat = []
        for s in out:
            flat.append(s)
            while isinstance(flat[-1], ast.If) and flat[-1].orelse and flat[-1].body \
                    and isinstance(flat[-1].body[-1], TERMINATORS):
                tail = flat[-1].orelse
                flat[-1].orelse = []
                flat.extend(tail)
        # x = E ; return x   ==   return E
        if len(flat) >= 2 and isinstance(flat[-1], ast.Return) and isinstance(flat[-1].value, ast.Name) \
                and isinstance(flat[-2], ast.Assign) and len(flat[-2].targets) == 1 \
                and isinstance(flat[-2].targets[0], ast.Name) and flat[-2].targets[0].id == flat[-1].value.id:
            ret = ast.copy_location(ast.Return(value=flat[-2].value), flat[-2])
            flat[-2:] = [ret]
        return flat

    def _block(self, node, fields, drop_doc=False):
        for f in fields:
            body = getattr(node, f, None)
            if isinstance(body, list) and (not body or isinstance(body[0], ast.stmt)):
                new = self._stmts(body, drop_doc and f == 'body')
                if not new and f == 'body':
                    new = [ast.Pass()]
                setattr(node, f, new)
        return node

    def visit_Module(self, node):
        return self._block(node, ['body'], True)

    def visit_ClassDef(self, node):
        node.decorator_list = [self.visit(d) for d in node.decorator_list]
        return self._block(node, ['body'], True)

    def visit_FunctionDef(self, node):
        node.args = self.visit(node.args)
        node.decorator_list = [self.visit(d) for d in node.decorator_list]
        return self._block(node, ['body'], True)

    def visit_If(self, node):
        node.test = self.visit(node.test)
        self._block(node, ['body', 'orelse'])
        v = _const_bool(node.test)
        if v is True:
            return node.body
        if v is False:
            return node.orelse or None
        return node

    def visit_For(self, node):
        node.target = self.visit(node.target)
        node.iter = self.visit(node.iter)
        return self._block(node, ['body', 'orelse'])

    def visit_While(self, node):
        node.test = self.visit(node.test)
        return self._block(node, ['body', 'orelse'])

    def visit_With(self, node):
        node.items = [self.visit(i) for i in node.items]
        return self._block(node, ['body'])

    def visit_Try(self, node):
        self._block(node, ['body', 'orelse', 'finalbody'])
        node.handlers = [self.visit(h) for h in node.handlers]
        return node

    def visit_ExceptHandler(self, node):
        if node.type is not None:
            node.type = self.visit(node.type)
        self._block(node, ['body'])
        # `except E as e` whose name is not used == `except E`
        if node.name is not None and not any(isinstance(x, ast.Name) and x.id == node.name
                                             for b in node.body for x in ast.walk(b)):
            node.name = None
        return node


def canon(tree):
    """structural normal form, in place on a deep copy; idempotent"""
    t = _Canon().visit(copy.deepcopy(tree))
    if isinstance(t, list):        # a constant `if` at top level of a snippet
        t = ast.Module(body=t, type_ignores=[])
    ast.fix_missing_locations(t)
    return t


def cparse(src, mode='exec'):
    """parse a template and put it in the same normal form as the code"""
    t = ast.parse(src, mode=mode)
    if mode == 'eval':
        return ast.Expression(body=_Canon().visit(t.body))
    return canon(t)


# ------------------------------------------------------------------ alpha renaming
class _Scope(ast.NodeVisitor):
    """names bound at the scope of one function, in order of first binding (source order); names bound only
    in nested scopes (comprehensions, lambdas, inner functions) are collected apart"""

    def __init__(self):
        self.order = []
        self.inner = []
        self.uses0 = set()         # names read or written at the scope of the function itself
        self.bad = False
        self.depth = 0

    def visit_Name(self, n):
        if self.depth == 0:
            self.uses0.add(n.id)

    def bind(self, name):
        lst = self.order if self.depth == 0 else self.inner
        if name not in lst:
            lst.append(name)

    def target(self, t):
        if isinstance(t, ast.Name):
            self.bind(t.id)
        elif isinstance(t, (ast.Tuple, ast.List)):
            for e in t.elts:
                self.target(e)
        elif isinstance(t, ast.Starred):
            self.target(t.value)
        else:
            self.visit(t)          # attribute / subscript targets bind nothing

    def args(self, a):
        for x in list(a.posonlyargs) + list(a.args):
            self.bind(x.arg)
        if a.vararg:
            self.bind(a.vararg.arg)
        for x in a.kwonlyargs:
            self.bind(x.arg)
        if a.kwarg:
            self.bind(a.kwarg.arg)

    def visit_Assign(self, n):
        self.visit(n.value)
        for t in n.targets:
            self.target(t)

    def visit_AugAssign(self, n):
        self.visit(n.value)
        self.target(n.target)

    def visit_AnnAssign(self, n):
        if n.value is not None:
            self.visit(n.value)
        self.target(n.target)

    def visit_NamedExpr(self, n):
        self.visit(n.value)
        self.target(n.target)

    def visit_For(self, n):
        self.visit(n.iter)
        self.target(n.target)
        for s in n.body + n.orelse:
            self.visit(s)

    def visit_With(self, n):
        for i in n.items:
            self.visit(i.context_expr)
            if i.optional_vars is not None:
                self.target(i.optional_vars)
        for s in n.body:
            self.visit(s)

    def visit_ExceptHandler(self, n):
        if n.type is not None:
            self.visit(n.type)
        if n.name:
            self.bind(n.name)
        for s in n.body:
            self.visit(s)

    def visit_Import(self, n):
        for a in n.names:
            self.bind((a.asname or a.name).split('.')[0])

    visit_ImportFrom = visit_Import

    def visit_Global(self, n):
        self.bad = True

    visit_Nonlocal = visit_Global

    def _comp(self, n, elts):
        self.depth += 1
        for g in n.generators:
            self.visit(g.iter)
            self.target(g.target)
            for c in g.ifs:
                self.visit(c)
        for e in elts:
            self.visit(e)
        self.depth -= 1

    def visit_ListComp(self, n):
        self._comp(n, [n.elt])

    visit_SetComp = visit_ListComp
    visit_GeneratorExp = visit_ListComp

    def visit_DictComp(self, n):
        self._comp(n, [n.key, n.value])

    def visit_Lambda(self, n):
        self.depth += 1
        self.args(n.args)
        self.visit(n.body)
        self.depth -= 1

    def visit_FunctionDef(self, n):
        self.bind(n.name)
        self.depth += 1
        self.args(n.args)
        for s in n.body:
            self.visit(s)
        self.depth -= 1

    def visit_ClassDef(self, n):
        self.bind(n.name)
        self.bad = True            # a class body is its own scope: not worth following


def binding_order(fn):
    """(names bound in fn by order of first binding, parameters first; ok?)"""
    s = _Scope()
    s.args(fn.args)
    for st in fn.body:
        s.visit(st)
    # a name bound only in a nested scope may be a global elsewhere in the function: treat it as local only if
    # every use of it lies in a nested scope too -- simplest sound answer: give up renaming when such a name
    # also occurs at function scope
    names = list(s.order)
    ok = not s.bad
    for n in s.inner:
        if n not in names:
            if n in s.uses0:
                ok = False         # bound in a nested scope only, yet used at function scope: a global there
            names.append(n)
    return names, ok


class _Rename(ast.NodeTransformer):
    def __init__(self, m):
        self.m = m

    def visit_Name(self, n):
        if n.id in self.m:
            n.id = self.m[n.id]
        return n

    def visit_arg(self, n):
        if n.arg in self.m:
            n.arg = self.m[n.arg]
        return n

    def visit_ExceptHandler(self, n):
        self.generic_visit(n)
        if n.name in self.m:
            n.name = self.m[n.name]
        return n


def alpha(fn, vocabulary):
    """fn with its local names renamed onto `vocabulary` (the names, in order of first binding, that the templates
    of the translator use for this function).  The renaming is a bijection between local names, so it does not
    change what the function does; when the function does not bind exactly as many names, or the renaming could
    capture a name that is not local, fn is returned as it is (and whatever no longer matches fails closed)."""
    names, ok = binding_order(fn)
    if not ok or names == list(vocabulary) or len(names) != len(vocabulary) or len(set(vocabulary)) != len(vocabulary):
        return fn
    m = {a: b for a, b in zip(names, vocabulary) if a != b}
    if not m:
        return fn
    used = {x.id for x in ast.walk(fn) if isinstance(x, ast.Name)} | {k.arg for x in ast.walk(fn) if isinstance(x, ast.Call)
                                                                    for k in x.keywords if k.arg}
    free = used - set(names)
    if set(m.values()) & free:
        return fn                  # a target name is used as a global / builtin in this function
    # keyword names of calls and attribute names are not variables: _Rename leaves them alone
    return ast.fix_missing_locations(_Rename(m).visit(copy.deepcopy(fn)))
