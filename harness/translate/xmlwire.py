"""Fail-closed translator for C01: the tokens of spyne/protocol/xml.py, soap/soap11.py and
spyne/const that decide wire fidelity, regenerated as coq/Gen/XmlWire.v on every run.

  from_element            element.get(XSI('nil')) in (<literals>)             -> xw_nil_literals
  _get_members_etree      if subvalue is not None and mo > 1: ... elif
                          subvalue is not None or v.Attributes.min_occurs > 0 -> xw_write_each, xw_write_one
  complex_from_element    if mo > 1: value.append(...)                        -> xw_read_multi
                          if val < attr.min_occurs or val > attr.max_occurs   -> xw_freq_bad
  XmlDocument.serialize   result_inst = ctx.out_object[<i>]   (non-wrapped)   -> xw_xml_bare_index
  Soap11.serialize        out_object = ctx.out_object[<i>]    (non-wrapped)   -> xw_soap_bare_index
  spyne/const             RESPONSE_SUFFIX, RESULT_SUFFIX, REQUEST_SUFFIX      -> xw_*_suffix
  spyne/const/xml.py      NS_SOAP11_ENV, NS_SOAP12_ENV, NS_XSI                -> xw_ns_*

The model files C01/XmlX.v and C01/Call.v are written over these definitions, so an edit of one of
the tokens changes a definition the proofs depend on.  Any shape not recognised exactly raises
TranslateError (nothing is written)."""
import ast, os
from .pyexpr import BoolTranslator, TranslateError, find_function, attr_chain


def gtext(s):
    return '[' + '; '.join(str(ord(c)) for c in s) + ']'


def parse(repo, rel):
    path = os.path.join(repo, rel)
    with open(path) as f:
        return ast.parse(f.read(), path)


def walk_ifs(node):
    for n in ast.walk(node):
        if isinstance(n, ast.If):
            yield n


def is_name(n, name):
    return isinstance(n, ast.Name) and n.id == name


def const_str(tree, name):
    found = [s for s in tree.body if isinstance(s, ast.Assign) and len(s.targets) == 1 and is_name(s.targets[0], name)]
    if len(found) != 1 or not isinstance(found[0].value, ast.Constant) or not isinstance(found[0].value.value, str):
        raise TranslateError('%s is not assigned one string literal at module level' % name)
    return found[0].value.value


def nil_literals(fn):
    hits = []
    for i in walk_ifs(fn):
        t = i.test
        if isinstance(t, ast.Compare) and len(t.ops) == 1 and isinstance(t.ops[0], ast.In) and isinstance(t.left, ast.Call):
            c = t.left
            if attr_chain(c.func) == ['element', 'get'] and len(c.args) == 1 and isinstance(c.args[0], ast.Call) \
                    and is_name(c.args[0].func, 'XSI') and len(c.args[0].args) == 1 \
                    and isinstance(c.args[0].args[0], ast.Constant) and c.args[0].args[0].value == 'nil':
                tup = t.comparators[0]
                if not isinstance(tup, (ast.Tuple, ast.List)) or not all(isinstance(e, ast.Constant) and isinstance(e.value, str) for e in tup.elts):
                    raise TranslateError('from_element: xsi:nil is not compared with a tuple of string literals')
                hits.append([e.value for e in tup.elts])
    if len(hits) != 1:
        raise TranslateError('from_element: expected exactly one "element.get(XSI(\'nil\')) in (...)" test, found %d' % len(hits))
    return hits[0]


def members_tests(fn):
    """the if / elif pair of _get_members_etree that decides what is written for a member"""
    def leaf(n):
        return None

    def is_none(n):
        if is_name(n, 'subvalue'):
            return 'isnone'
        return None

    def cmp(op, l, r):
        if op == 'gt' and is_name(l, 'mo') and isinstance(r, ast.Constant) and isinstance(r.value, int):
            return '(ext_ltb (Fin %d) mo)' % r.value
        if op == 'ge' and is_name(l, 'mo') and isinstance(r, ast.Constant) and isinstance(r.value, int):
            return '(ext_leb (Fin %d) mo)' % r.value
        ch = attr_chain(l)
        if ch == ['v', 'Attributes', 'min_occurs'] and isinstance(r, ast.Constant) and isinstance(r.value, int):
            return {'gt': '(%d <? mn)', 'ge': '(%d <=? mn)'}.get(op, None) % r.value if op in ('gt', 'ge') else _bad(op)
        raise TranslateError('_get_members_etree: unsupported comparison %s' % ast.dump(l)[:120])

    cands = []
    for i in walk_ifs(fn):
        names = set(x.id for x in ast.walk(i.test) if isinstance(x, ast.Name))
        if 'subvalue' in names and 'mo' in names:
            cands.append(i)
    if len(cands) != 1:
        raise TranslateError('_get_members_etree: expected one test over subvalue and mo, found %d' % len(cands))
    first = cands[0]
    if len(first.orelse) != 1 or not isinstance(first.orelse[0], ast.If) or first.orelse[0].orelse:
        raise TranslateError('_get_members_etree: the member test is not an if / elif pair without else')
    second = first.orelse[0]
    # mo must be the member type's max_occurs
    ok = False
    for s in ast.walk(fn):
        if isinstance(s, ast.Assign) and len(s.targets) == 1 and is_name(s.targets[0], 'mo') \
                and attr_chain(s.value) == ['v', 'Attributes', 'max_occurs']:
            ok = True
    if not ok:
        raise TranslateError('_get_members_etree: mo is not v.Attributes.max_occurs')
    tr = BoolTranslator(leaf, cmp, is_none=is_none)
    return tr.tr(first.test), tr.tr(second.test)


def _bad(op):
    raise TranslateError('unsupported operator %s' % op)


def reader_tests(fn):
    """complex_from_element: the list-append test and the frequency test"""
    multi = []
    for i in walk_ifs(fn):
        t = i.test
        if isinstance(t, ast.Compare) and is_name(t.left, 'mo') and len(t.ops) == 1 and isinstance(t.comparators[0], ast.Constant):
            appends = [c for c in ast.walk(i) if isinstance(c, ast.Call) and attr_chain(c.func) == ['value', 'append']
                       and any(isinstance(a, ast.Call) and attr_chain(a.func) == ['self', 'from_element'] for a in c.args)]
            if appends and i in _stmts_of_loop(fn, 'elt'):
                op = t.ops[0]
                k = t.comparators[0].value
                if isinstance(op, ast.Gt):
                    multi.append('(ext_ltb (Fin %d) mo)' % k)
                elif isinstance(op, ast.GtE):
                    multi.append('(ext_leb (Fin %d) mo)' % k)
                else:
                    raise TranslateError('complex_from_element: unsupported max_occurs test')
    if len(multi) != 1:
        raise TranslateError('complex_from_element: expected one "mo > 1" test guarding value.append(self.from_element(...)) in the child loop, found %d' % len(multi))
    # mo = member_attrs.max_occurs
    if not any(isinstance(s, ast.Assign) and len(s.targets) == 1 and is_name(s.targets[0], 'mo')
               and attr_chain(s.value) == ['member_attrs', 'max_occurs'] for s in ast.walk(fn)):
        raise TranslateError('complex_from_element: mo is not member_attrs.max_occurs')
    freq = []
    for i in walk_ifs(fn):
        names = set(x.id for x in ast.walk(i.test) if isinstance(x, ast.Name))
        if names == {'val', 'attr'}:
            def cmp(op, l, r):
                if is_name(l, 'val') and attr_chain(r) == ['attr', 'min_occurs']:
                    return {'lt': '(n <? mn)', 'le': '(n <=? mn)'}[op] if op in ('lt', 'le') else _bad(op)
                if is_name(l, 'val') and attr_chain(r) == ['attr', 'max_occurs']:
                    return {'gt': '(ext_ltb mo (Fin n))', 'ge': '(ext_leb mo (Fin n))'}[op] if op in ('gt', 'ge') else _bad(op)
                raise TranslateError('frequency test: unsupported comparison')
            if not (len(i.body) == 1 and isinstance(i.body[0], ast.Raise)):
                raise TranslateError('frequency test does not raise')
            freq.append(BoolTranslator(lambda n: None, cmp).tr(i.test))
    if len(freq) != 1:
        raise TranslateError('complex_from_element: expected one frequency test, found %d' % len(freq))
    return multi[0], freq[0]


def _stmts_of_loop(fn, iter_name):
    out = []
    for s in ast.walk(fn):
        if isinstance(s, ast.For) and is_name(s.iter, iter_name):
            out.extend(ast.walk(s))
    return out


def bare_index(fn, target, where):
    """the subscript taken from ctx.out_object in the non-wrapped branch"""
    hits = []
    for s in ast.walk(fn):
        if isinstance(s, ast.Assign) and len(s.targets) == 1 and is_name(s.targets[0], target):
            v = s.value
            if isinstance(v, ast.Subscript) and attr_chain(v.value) == ['ctx', 'out_object']:
                idx = v.slice
                if isinstance(idx, ast.Constant) and isinstance(idx.value, int):
                    hits.append(idx.value)
                else:
                    raise TranslateError('%s: %s is not ctx.out_object[<integer literal>]' % (where, target))
            elif attr_chain(v) == ['ctx', 'out_object']:
                hits.append(None)          # the whole sequence is handed on: modelled, and refuted by the proofs
    if len(hits) != 1:
        raise TranslateError('%s: expected exactly one "%s = ctx.out_object[i]", found %d' % (where, target, len(hits)))
    return hits[0]


def alt_inherited(tree, xml):
    """are the alternate keys (sub_name / sub_ns) of INHERITED members known to the reader of a subclass?
    complex_from_element consults either flat_type_info.alt -- filled by get_flat_type_info from the flattened member
    table, parents included -- or cls._type_info_alt, which ComplexModelMeta.__new__ starts from the tables of the bases
    (for b in cls_bases: ... _type_info_alt.update(b._type_info_alt)) or not."""
    rd = find_function(xml, ['XmlDocument', 'complex_from_element'])
    chains = [attr_chain(c.func) for c in ast.walk(rd) if isinstance(c, ast.Call) and isinstance(c.func, ast.Attribute) and c.func.attr == 'get']
    alts = set(tuple(c[:-1]) for c in chains if c and len(c) == 3 and c[1] in ('alt', '_type_info_alt'))
    if alts == {('flat_type_info', 'alt')}:
        if not any(isinstance(x, ast.Assign) and any(is_name(t, 'flat_type_info') for t in x.targets) and isinstance(x.value, ast.Call)
                   and (attr_chain(x.value.func) or [None])[-1] == 'get_flat_type_info' for x in ast.walk(rd)):
            raise TranslateError('complex_from_element: flat_type_info is not cls.get_flat_type_info(cls)')
        fn = find_function(tree, ['ComplexModelBase', 'get_flat_type_info'])
        made = [x for x in ast.walk(fn) if isinstance(x, ast.Assign) and len(x.targets) == 1 and isinstance(x.targets[0], ast.Name)
                and isinstance(x.value, ast.Call) and is_name(x.value.func, '_get_flat_type_info')]
        if len(made) != 1:
            raise TranslateError('get_flat_type_info: the flattened table is not one _get_flat_type_info(...) result')
        tab = made[0].targets[0].id
        for loop in ast.walk(fn):
            if isinstance(loop, ast.For) and isinstance(loop.iter, ast.Call) and attr_chain(loop.iter.func) == [tab, 'items']:
                for x in ast.walk(loop):
                    if isinstance(x, ast.Assign) and len(x.targets) == 1 and isinstance(x.targets[0], ast.Subscript) \
                            and attr_chain(x.targets[0].value) == [tab, 'alt']:
                        return True
        return False
    if alts != {('cls', '_type_info_alt')}:
        raise TranslateError('complex_from_element: unrecognised alternate-key lookups %r' % sorted(alts))
    fn = find_function(tree, ['ComplexModelMeta', '__new__'])
    if not any(isinstance(s, ast.Assign) and any(is_name(t, '_type_info_alt') for t in s.targets) for s in ast.walk(fn)):
        raise TranslateError('ComplexModelMeta.__new__ does not create _type_info_alt')
    for loop in ast.walk(fn):
        if isinstance(loop, ast.For) and is_name(loop.iter, 'cls_bases') and isinstance(loop.target, ast.Name):
            b = loop.target.id
            for c in ast.walk(loop):
                if isinstance(c, ast.Call) and attr_chain(c.func) == ['_type_info_alt', 'update'] and len(c.args) == 1 \
                        and attr_chain(c.args[0]) == [b, '_type_info_alt']:
                    return True
    return False


def _dict_builder(v):
    """(key expr, value expr, loop variable name, iterable expr) of dict([(k, v) for x in it]) / dict((k, v) for x in it) /
    {k: v for x in it} -- the spellings that build the same dictionary (one generator, no condition); else None"""
    if isinstance(v, ast.DictComp):
        k, val, gens = v.key, v.value, v.generators
    elif isinstance(v, ast.Call) and is_name(v.func, 'dict') and len(v.args) == 1 and not v.keywords \
            and isinstance(v.args[0], (ast.ListComp, ast.GeneratorExp)) and isinstance(v.args[0].elt, (ast.Tuple, ast.List)) \
            and len(v.args[0].elt.elts) == 2:
        (k, val), gens = v.args[0].elt.elts, v.args[0].generators
    else:
        return None
    if len(gens) != 1 or gens[0].ifs or gens[0].is_async or not isinstance(gens[0].target, ast.Name):
        return None
    return k, val, gens[0].target.id, gens[0].iter


def _qualified_name_of(e):
    """the variable V when e spells '{' + V.__namespace__ + '}' + V.__type_name__ ("{%s}%s" % (..), "{{{}}}{}".format(..),
    an f-string); else None"""
    parts = None
    if isinstance(e, ast.BinOp) and isinstance(e.op, ast.Mod) and isinstance(e.left, ast.Constant) and e.left.value == '{%s}%s' \
            and isinstance(e.right, ast.Tuple) and len(e.right.elts) == 2:
        parts = e.right.elts
    elif isinstance(e, ast.Call) and isinstance(e.func, ast.Attribute) and e.func.attr == 'format' and not e.keywords \
            and isinstance(e.func.value, ast.Constant) and e.func.value.value in ('{{{}}}{}', '{{{0}}}{1}') and len(e.args) == 2:
        parts = e.args
    elif isinstance(e, ast.JoinedStr) and len(e.values) == 4 \
            and isinstance(e.values[0], ast.Constant) and e.values[0].value == '{' \
            and isinstance(e.values[2], ast.Constant) and e.values[2].value == '}' \
            and all(isinstance(x, ast.FormattedValue) and x.conversion == -1 and x.format_spec is None for x in (e.values[1], e.values[3])):
        parts = [e.values[1].value, e.values[3].value]
    if parts is None:
        return None
    c0, c1 = attr_chain(parts[0]), attr_chain(parts[1])
    if c0 and c1 and len(c0) == 2 and len(c1) == 2 and c0[0] == c1[0] and c0[1] == '__namespace__' and c1[1] == '__type_name__':
        return c0[0]
    return None


def hdr_key_qualified(fn):
    """Soap11.deserialize: the header blocks of ctx.in_header_doc are put in a dictionary keyed by element.tag and looked up
    with '{' + head_class.__namespace__ + '}' + head_class.__type_name__: True; keyed / looked up by the local name: False.
    Read up to the names of the locals and the equivalent spellings of the dictionary construction and of the key."""
    dicts = []
    for s in ast.walk(fn):
        if isinstance(s, ast.Assign) and len(s.targets) == 1 and isinstance(s.targets[0], ast.Name):
            b = _dict_builder(s.value)
            if b is not None and attr_chain(b[3]) == ['ctx', 'in_header_doc']:
                dicts.append((s.targets[0].id, b))
    if len(dicts) != 1:
        raise TranslateError('Soap11.deserialize: expected one dictionary built from ctx.in_header_doc '
                             '(dict([(key, element) for ...]) or {key: element for ...}), found %d' % len(dicts))
    dname, (k, val, var, _) = dicts[0]
    if not is_name(val, var):
        raise TranslateError('Soap11.deserialize: the header dictionary does not map to the header elements')
    if attr_chain(k) == [var, 'tag']:
        keyed = True
    elif any(isinstance(c, ast.Call) and isinstance(c.func, ast.Attribute) and c.func.attr in ('split', 'rsplit', 'partition')
             for c in ast.walk(k)) or any(isinstance(c, ast.Attribute) and c.attr == 'localname' for c in ast.walk(k)):
        keyed = False
    else:
        raise TranslateError('Soap11.deserialize: unrecognised header dictionary key')
    gets = [c for c in ast.walk(fn) if isinstance(c, ast.Call) and attr_chain(c.func) == [dname, 'get']]
    subs = [c for c in ast.walk(fn) if isinstance(c, ast.Subscript) and is_name(c.value, dname)]
    if len(gets) != 1 or subs or not gets[0].args or gets[0].keywords:
        raise TranslateError('Soap11.deserialize: expected one %s.get(key[, None]) and no other read of it' % dname)
    if len(gets[0].args) == 2 and not (isinstance(gets[0].args[1], ast.Constant) and gets[0].args[1].value is None):
        raise TranslateError('Soap11.deserialize: header lookup with a default other than None')
    arg = gets[0].args[0]
    if isinstance(arg, ast.Name):
        # a local bound once to the key expression
        binds = [x.value for x in ast.walk(fn) if isinstance(x, ast.Assign) and any(is_name(t, arg.id) for t in x.targets)]
        if len(binds) != 1:
            raise TranslateError('Soap11.deserialize: the header lookup key %s is not bound exactly once' % arg.id)
        arg = binds[0]
    if _qualified_name_of(arg) is not None:
        return keyed
    c = attr_chain(arg)
    if c and len(c) == 2 and c[1] == '__type_name__':
        return False
    raise TranslateError('Soap11.deserialize: unrecognised header lookup key')


def client_merge(fn):
    """RemoteProcedureBase.get_out_object: how sequential and name-based arguments become the request object.
    'MergeKwWins': a name-based argument that is PASSED (k in kwargs) replaces the sequential one, whatever its value;
    'MergeKwTruthyWins': it does so only when it is truthy (kwargs.get(k) or ...).  Anything else is not recognised."""
    def is_kwargs_get(e, nargs):
        return isinstance(e, ast.Call) and attr_chain(e.func) == ['kwargs', 'get'] and len(e.args) == nargs and not e.keywords
    sets = [c for c in ast.walk(fn) if isinstance(c, ast.Call) and is_name(c.func, 'setattr') and len(c.args) == 3]
    if not sets or any(not is_name(c.args[0], sets[0].args[0].id if isinstance(sets[0].args[0], ast.Name) else None) for c in sets):
        raise TranslateError('get_out_object: no setattr(request object, key, value) calls')
    vals = [c.args[2] for c in sets]
    if len(sets) == 1:
        v = vals[0]
        if isinstance(v, ast.BoolOp) and isinstance(v.op, ast.Or) and len(v.values) == 2 and is_kwargs_get(v.values[0], 1) \
                and isinstance(v.values[1], ast.Call) and isinstance(v.values[1].func, ast.Attribute) and v.values[1].func.attr == 'get':
            return 'MergeKwTruthyWins'
        if isinstance(v, ast.IfExp) and isinstance(v.test, ast.Compare) and len(v.test.ops) == 1 and isinstance(v.test.ops[0], ast.In) \
                and is_name(v.test.comparators[0], 'kwargs') and isinstance(v.body, ast.Subscript) and is_name(v.body.value, 'kwargs') \
                and isinstance(v.orelse, ast.Call) and isinstance(v.orelse.func, ast.Attribute) and v.orelse.func.attr == 'get':
            return 'MergeKwWins'
        if is_kwargs_get(v, 2) and isinstance(v.args[1], ast.Call) and isinstance(v.args[1].func, ast.Attribute) and v.args[1].func.attr == 'get':
            return 'MergeKwWins'
        raise TranslateError('get_out_object: unrecognised merge of sequential and name-based arguments')
    if len(sets) == 3:
        # for i in range(len(T)): if i < len(args): setattr(r, T.keys()[i], args[i]) else: setattr(r, T.keys()[i], None)
        # for k in T: if k in kwargs: setattr(r, k, kwargs[k])
        pos = [v for v in vals if isinstance(v, ast.Subscript) and is_name(v.value, 'args')]
        none = [v for v in vals if isinstance(v, ast.Constant) and v.value is None]
        kw = [v for v in vals if isinstance(v, ast.Subscript) and is_name(v.value, 'kwargs')]
        if len(pos) == 1 and len(none) == 1 and len(kw) == 1:
            guard = [i for i in ast.walk(fn) if isinstance(i, ast.If) and any(c is sets[vals.index(kw[0])] for c in ast.walk(i))]
            ok = [i for i in guard if isinstance(i.test, ast.Compare) and len(i.test.ops) == 1 and isinstance(i.test.ops[0], ast.In)
                  and is_name(i.test.comparators[0], 'kwargs') and not i.orelse]
            if ok and len(guard) == 1:
                return 'MergeKwWins'
    raise TranslateError('get_out_object: unrecognised merge of sequential and name-based arguments')


def parser_flag(init, key):
    """XmlDocument.__init__: the value of self.parser_kwargs[key] of a protocol built with the default arguments
    (a literal, or the default of the __init__ parameter handed on); a key that is not passed is lxml's default, False"""
    dicts = [s.value for s in ast.walk(init) if isinstance(s, ast.Assign) and len(s.targets) == 1
             and attr_chain(s.targets[0]) == ['self', 'parser_kwargs']]
    if len(dicts) != 1 or not (isinstance(dicts[0], ast.Call) and is_name(dicts[0].func, 'dict') and not dicts[0].args):
        raise TranslateError('XmlDocument.__init__: self.parser_kwargs is not one dict(key=value, ...)')
    kws = dicts[0].keywords
    if any(k.arg is None for k in kws):
        raise TranslateError('XmlDocument.__init__: **mapping inside parser_kwargs')
    vals = [k.value for k in kws if k.arg == key]
    if not vals:
        return False
    v = vals[-1]
    if isinstance(v, ast.Name):
        a = init.args
        pos = a.posonlyargs + a.args
        defaults = dict(zip([x.arg for x in pos[len(pos) - len(a.defaults):]], a.defaults))
        defaults.update((x.arg, d) for x, d in zip(a.kwonlyargs, a.kw_defaults) if d is not None)
        if v.id not in defaults:
            raise TranslateError('XmlDocument.__init__: parser_kwargs[%s] comes from %s, which has no default' % (key, v.id))
        v = defaults[v.id]
    if isinstance(v, ast.Constant) and isinstance(v.value, bool):
        return v.value
    raise TranslateError('XmlDocument.__init__: parser_kwargs[%s] is not a boolean literal' % key)


def generate(repo):
    cm = parse(repo, 'spyne/model/complex.py')
    xml = parse(repo, 'spyne/protocol/xml.py')
    alt_inh = alt_inherited(cm, xml)
    soap = parse(repo, 'spyne/protocol/soap/soap11.py')
    const = parse(repo, 'spyne/const/__init__.py')
    cxml = parse(repo, 'spyne/const/xml.py')
    nil = nil_literals(find_function(xml, ['XmlDocument', 'from_element']))
    each, one = members_tests(find_function(xml, ['XmlDocument', '_get_members_etree']))
    multi, freq = reader_tests(find_function(xml, ['XmlDocument', 'complex_from_element']))
    xi = bare_index(find_function(xml, ['XmlDocument', 'serialize']), 'result_inst', 'XmlDocument.serialize')
    si = bare_index(find_function(soap, ['Soap11', 'serialize']), 'out_object', 'Soap11.serialize')
    hq = hdr_key_qualified(find_function(soap, ['Soap11', 'deserialize']))
    cm_rule = client_merge(find_function(parse(repo, 'spyne/client/_base.py'), ['RemoteProcedureBase', 'get_out_object']))
    init = find_function(xml, ['XmlDocument', '__init__'])
    rc, rp = parser_flag(init, 'remove_comments'), parser_flag(init, 'remove_pis')
    out = ['(* GENERATED by harness/translate/xmlwire.py from spyne/protocol/xml.py, spyne/protocol/soap/soap11.py,',
           '   spyne/const/__init__.py and spyne/const/xml.py.  Do not edit. *)',
           'From SpyneV Require Import Base.Prelude Base.Ext.', 'Open Scope Z_scope.', '',
           "(* from_element: element.get(XSI('nil')) in %r *)" % (tuple(nil),),
           'Definition xw_nil_literals : list text := [%s].' % '; '.join(gtext(s) for s in nil), '',
           '(* _get_members_etree: isnone = (subvalue is None), mo = max_occurs, mn = min_occurs *)',
           'Definition xw_write_each (isnone : bool) (mo : ext) : bool := %s.' % each,
           'Definition xw_write_one (isnone : bool) (mn : Z) : bool := %s.' % one, '',
           '(* complex_from_element: n = number of occurrences seen *)',
           'Definition xw_read_multi (mo : ext) : bool := %s.' % multi,
           'Definition xw_freq_bad (n mn : Z) (mo : ext) : bool := %s.' % freq, '',
           '(* the alternate keys of inherited members are in the table complex_from_element consults (flat_type_info.alt / cls._type_info_alt) *)',
           'Definition xw_alt_inherited : bool := %s.' % ('true' if alt_inh else 'false'), '',
           '(* Soap11.deserialize: header blocks are matched to the declared classes by {namespace}name (false: by local name) *)',
           'Definition xw_hdr_qualified : bool := %s.' % ('true' if hq else 'false'), '',
           '(* RemoteProcedureBase.get_out_object: a name-based argument that is passed replaces the sequential one always / only when truthy *)',
           'Inductive merge_rule := MergeKwWins | MergeKwTruthyWins.',
           'Definition xw_client_merge : merge_rule := %s.' % cm_rule, '',
           '(* XmlDocument.__init__, self.parser_kwargs of a protocol built with the default arguments *)',
           'Definition xw_remove_comments : bool := %s.' % ('true' if rc else 'false'),
           'Definition xw_remove_pis : bool := %s.' % ('true' if rp else 'false'), '',
           '(* serialize, non-wrapped body styles: which item of ctx.out_object is written *)',
           '(* None: the whole ctx.out_object sequence is handed to to_parent *)',
           'Definition xw_xml_bare_index : option Z := %s.' % ('None' if xi is None else '(Some %d)' % xi),
           'Definition xw_soap_bare_index : option Z := %s.' % ('None' if si is None else '(Some %d)' % si), '']
    for name, coq in (('RESPONSE_SUFFIX', 'xw_response_suffix'), ('RESULT_SUFFIX', 'xw_result_suffix'), ('REQUEST_SUFFIX', 'xw_request_suffix')):
        v = const_str(const, name)
        out.append('Definition %s : text := %s.  (* %s = %r *)' % (coq, gtext(v), name, v))
    for name, coq in (('NS_SOAP11_ENV', 'xw_ns_soap11_env'), ('NS_SOAP12_ENV', 'xw_ns_soap12_env'), ('NS_XSI', 'xw_ns_xsi')):
        v = const_str(cxml, name)
        out.append('Definition %s : text := %s.  (* %s = %r *)' % (coq, gtext(v), name, v))
    return {'XmlWire.v': '\n'.join(out) + '\n'}
