"""spyne/protocol/dictdoc/hier.py, dictdoc/_base.py, json.py, yaml.py, msgpack.py  ->  Gen/DictDoc.v

The tokens that decide C02 are translated from the *source text* (ast) into Gallina:
  * msgpack.py  MessagePackDocument.integer_to_bytes   the range test `-1<<63 <= value < 1<<64`
  * hier.py     _get_member_pairs                      `val is not None or min_o > 0 or complex_as is list`
  * hier.py     _object_to_doc                         the wrapper-stripping `while` condition, `max_occurs > 1`
  * hier.py     _doc_to_object                         `mo > 1`, the null-document result, the wrapper arity tests
  * hier.py     _from_dict_value                       a null complex member is None (`if inst is None: retval = None`)
  * hier.py     deserialize                            the body lookup tries the str form of a bytes class name
  * hier.py     _from_dict_value                       text that arrives as a byte string is decoded first
  * _base.py    _check_freq_dict                       `val < min_o`, `val > max_o`, the `flat and ...` array clause
  * json.py, yaml.py, msgpack.py  _ret_number / _ret_bool / integer_from_bytes   the leaf readers' clauses
and the leaf handler each protocol instance actually dispatches to is read from the imported
classes (whatever the working tree computes).  Every shape that is not recognised exactly
raises TranslateError (fail closed)."""
import ast, sys, inspect, importlib
from .pyexpr import BoolTranslator, TranslateError, attr_chain, TRUE, FALSE
from .pyexpr import find_function as _find_function
from .dictdoc_norm import canon, cparse, alpha

# Every module is read in a structural normal form (dictdoc_norm.canon: docstrings, log calls and plain message
# texts dropped, else-after-return flattened, `not a in b` / `a not in b`, `x is True or x is False` /
# isinstance(x, bool), six shims resolved for Python 3, ...) and every template below is parsed into the same
# form; the local names of a pinned function are renamed, by order of first binding, onto the names its templates
# use (a bijection between locals: it changes nothing the function does).  Anything that still does not match
# fails closed as before.
VOCABULARY = {
    ('MessagePackDocument', 'integer_to_bytes'): ['self', 'cls', 'value'],
    ('MessagePackDocument', 'integer_from_bytes'): ['self', 'cls', 'value'],
    ('MessagePackDocument', '_ret_number'): ['self', 'cls', 'value'],
    ('MessagePackDocument', '_ret_bool'): ['self', 'cls', 'value'],
    ('JsonDocument', '_ret_number'): ['self', 'cls', 'value'],
    ('JsonDocument', '_ret_bool'): ['self', 'cls', 'value'],
    ('YamlDocument', '_ret_number'): ['self', 'cls', 'value'],
    ('YamlDocument', '_ret_bool'): ['self', 'cls', 'value'],
    ('MessagePackRpc', 'decompose_incoming_envelope'): ['self', 'ctx', 'message', 'msgparams', 'msgtype', 'msgid',
                                                        'msgname_or_error', 'e'],
    ('MessagePackRpc', 'deserialize'): ['self', 'ctx', 'message', 'body_class'],
    ('MessagePackDocument', 'gen_method_request_string'): ['self', 'ctx', 'mrs', 'e'],
    ('HierDictDocument', '_get_member_pairs'): ['self', 'cls', 'inst', 'tags', 'old_len', 'k', 'v', 'subattr', 'subinst', 'val',
                                                'min_o', 'complex_as', 'sub_name'],
    ('HierDictDocument', '_object_to_doc'): ['self', 'cls', 'inst', 'tags', 'retval', 'inst_id', 'cls_attrs', 'cls_orig', 'ti',
                                             'key', 'subinst'],
    ('HierDictDocument', '_doc_to_object'): ['self', 'ctx', 'cls', 'doc', 'validator', 'retval', 'serializer', 'i', 'child',
                                             'cls_attrs', 'subclasses', 'class_name', 'subcls', 'inst', 'flat_type_info',
                                             'frequencies', 'items', 'k', 'v', 'member', 'member_attrs', 'mo', 'subinst', 'a',
                                             'attrs'],
    ('HierDictDocument', '_from_dict_value'): ['self', 'ctx', 'key', 'cls', 'inst', 'validator', 'cls_attrs', 'complex_as',
                                               'check_complex_as', 'retval'],
    ('HierDictDocument', 'deserialize'): ['self', 'ctx', 'message', 'body_class', 'doc', 'class_name', 'sub_name', 'is_bare'],
    ('DictDocument', '_check_freq_dict'): ['self', 'cls', 'd', 'fti', 'flat', 'k', 'v', 'val', 'attrs', 'min_o', 'max_o'],
    ('ByteArray', 'to_base64'): ['cls', 'value'],
}


def find_function(tree, path):
    fn = _find_function(tree, path)
    voc = VOCABULARY.get(tuple(path))
    return alpha(fn, voc) if voc else fn


def zlit(v):
    return '(%d)' % int(v)


def const_int(n):
    """integer constant expressions: literals, unary minus, shifts"""
    if isinstance(n, ast.Constant) and isinstance(n.value, int) and not isinstance(n.value, bool):
        return n.value
    if isinstance(n, ast.UnaryOp) and isinstance(n.op, ast.USub):
        v = const_int(n.operand)
        return None if v is None else -v
    if isinstance(n, ast.BinOp) and isinstance(n.op, ast.LShift):
        a, b = const_int(n.left), const_int(n.right)
        return None if a is None or b is None else a << b
    return None


def cmp_ext(names):
    """comparison emitter over ext numbers; names: python name / attribute chain -> coq variable"""
    def num(n):
        v = const_int(n)
        if v is not None:
            return '(Fin %s)' % zlit(v)
        if isinstance(n, ast.Name) and n.id in names:
            return names[n.id]
        ch = attr_chain(n)
        if ch and '.'.join(ch) in names:
            return names['.'.join(ch)]
        if isinstance(n, ast.Call) and isinstance(n.func, ast.Name) and n.func.id == 'len' and len(n.args) == 1:
            a = n.args[0]
            if isinstance(a, ast.Name) and 'len(%s)' % a.id in names:
                return names['len(%s)' % a.id]
        return None

    def cmp(op, l, r):
        a, b = num(l), num(r)
        if a is None or b is None:
            raise TranslateError('unsupported comparison operand %s / %s' % (ast.dump(l)[:80], ast.dump(r)[:80]))
        return {'lt': '(ext_ltb %s %s)', 'le': '(ext_leb %s %s)', 'gt': '(ext_ltb %s %s)', 'ge': '(ext_leb %s %s)',
                'eq': '(ext_eqb %s %s)', 'ne': '(negb (ext_eqb %s %s))'}[op] % ((b, a) if op in ('gt', 'ge') else (a, b))
    return cmp, num


def module_tree(name, repo):
    mod = importlib.import_module(name)
    if not mod.__file__.startswith(repo.rstrip('/') + '/'):
        raise TranslateError('%s imported from %s, not from %s' % (name, mod.__file__, repo))
    return mod, canon(ast.parse(inspect.getsource(mod)))


def strip_doc(body):
    return [s for s in body if not (isinstance(s, ast.Expr) and isinstance(s.value, ast.Constant)
                                    and isinstance(s.value.value, str))]


def is_raise_validation(stmt):
    return isinstance(stmt, ast.Raise) and isinstance(stmt.exc, ast.Call) and \
        isinstance(stmt.exc.func, ast.Name) and stmt.exc.func.id == 'ValidationError'


def find_stmt(fn, pred, what):
    hits = [n for n in ast.walk(fn) if pred(n)]
    if len(hits) != 1:
        raise TranslateError('%s: expected exactly one %s, found %d' % (fn.name, what, len(hits)))
    return hits[0]


def has_assign(fn, target, value_dump_part):
    for n in ast.walk(fn):
        if isinstance(n, ast.Assign) and len(n.targets) == 1 and isinstance(n.targets[0], ast.Name) \
                and n.targets[0].id == target and value_dump_part in ast.dump(n.value):
            return True
    return False


# ---------------------------------------------------------------- msgpack integer range
def tr_mp_integer_to_bytes(tree):
    fn = find_function(tree, ['MessagePackDocument', 'integer_to_bytes'])
    if [a.arg for a in fn.args.args] != ['self', 'cls', 'value']:
        raise TranslateError('integer_to_bytes: unexpected signature')
    body = strip_doc(fn.body)
    # normal form of `if T: return value / else: return <inherited>`: the else is flattened
    if len(body) != 2 or not isinstance(body[0], ast.If) or body[0].orelse:
        raise TranslateError('integer_to_bytes: body is not `if ...: return value` followed by the inherited form')
    st = body[0]
    if [ast.dump(x) for x in st.body] != tmpl('return value'):
        raise TranslateError('integer_to_bytes: then-branch is not `return value`')
    if [ast.dump(body[1])] != tmpl('return super(MessagePackDocument, self).integer_to_bytes(cls, value)'):
        raise TranslateError('integer_to_bytes: otherwise it is not the inherited text form')
    cmp, num = cmp_ext({'value': '(Fin value)'})
    t = BoolTranslator(lambda n: None, cmp, num).tr(st.test)
    return 'Definition mp_native_int (value : Z) : bool :=\n  %s.\n' % t


def body_dumps(fn):
    return [ast.dump(x) for x in strip_doc(fn.body)]


def tmpl(src):
    return [ast.dump(x) for x in cparse(src).body]


def tr_mp_integer_from_bytes(tree):
    fn = find_function(tree, ['MessagePackDocument', 'integer_from_bytes'])
    if [a.arg for a in fn.args.args] != ['self', 'cls', 'value']:
        raise TranslateError('MessagePackDocument.integer_from_bytes: unexpected signature')
    want = tmpl('if isinstance(value, (six.text_type, six.binary_type)):\n'
                '    return super(MessagePackDocument, self).integer_from_bytes(cls, value)\n'
                'if isinstance(value, NON_NUMBER_TYPES):\n'
                '    raise ValidationError(value)\n'
                'if isinstance(value, float):\n'
                '    if not value.is_integer():\n'
                '        raise ValidationError(value)\n'
                '    return int(value)\n'
                'return value\n')
    if body_dumps(fn) != want:
        raise TranslateError('MessagePackDocument.integer_from_bytes: unrecognised shape')
    return ('(* msgpack.py integer_from_bytes: text goes to the inherited reader, a list or a map is refused,\n'
            '   a float is handed over as the int it equals or refused, anything else is returned *)\n'
            'Definition mp_int_reader_strict : bool := true.\n')


def non_number_types(tree, where):
    """NON_NUMBER_TYPES is (list, dict, str, bytes) in any order, spelled as a tuple / list literal or as
    tuple(<set / list / tuple literal>): isinstance only asks for membership"""
    want = sorted(ast.dump(cparse(x, mode='eval').body) for x in ('list', 'dict', 'six.text_type', 'six.binary_type'))
    for n in tree.body:
        if isinstance(n, ast.Assign) and len(n.targets) == 1 and isinstance(n.targets[0], ast.Name) \
                and n.targets[0].id == 'NON_NUMBER_TYPES':
            v = n.value
            if isinstance(v, ast.Call) and isinstance(v.func, ast.Name) and v.func.id == 'tuple' and len(v.args) == 1 \
                    and not v.keywords:
                v = v.args[0]
            if not isinstance(v, (ast.Tuple, ast.List, ast.Set)) or sorted(ast.dump(e) for e in v.elts) != want:
                raise TranslateError('%s: NON_NUMBER_TYPES is not (list, dict, str, bytes)' % where)
            return True
    return False


RET_NUMBER_OLD = ('if isinstance(value, NON_NUMBER_TYPES):\n    raise ValidationError(value)\n'
                  'if value in (True, False):\n    return int(value)\n'
                  'return value\n')
RET_NUMBER_NEW = ('if isinstance(value, NON_NUMBER_TYPES):\n    raise ValidationError(value)\n'
                  'if value in (True, False):\n    return int(value)\n'
                  'if isinstance(value, float) and issubclass(cls, Integer):\n'
                  '    if not value.is_integer():\n        raise ValidationError(value)\n'
                  '    return int(value)\n'
                  'return value\n')
RET_BOOL_OLD = 'if value is None or value in (True, False):\n    return value\nraise ValidationError(value)\n'
RET_BOOL_NEW = 'if value is None or value is True or value is False:\n    return value\nraise ValidationError(value)\n'


def tr_leaf_readers(trees):
    """trees: {'json': (cls name, tree), ...}"""
    ints, bools = set(), set()
    for mod, (cname, tree) in sorted(trees.items()):
        rn = find_function(tree, [cname, '_ret_number'])
        rb = find_function(tree, [cname, '_ret_bool'])
        for fn in (rn, rb):
            if len(fn.args.args) != 3 or fn.args.args[2].arg != 'value':
                raise TranslateError('%s.%s: unexpected signature' % (cname, fn.name))
        second = rn.args.args[1].arg
        got = body_dumps(rn)
        if got == tmpl(RET_NUMBER_OLD):
            v = False
        elif got == tmpl(RET_NUMBER_NEW) and second == 'cls':
            v = True
        else:
            raise TranslateError('%s._ret_number: unrecognised shape' % cname)
        if mod == 'msgpack':
            if v:
                raise TranslateError('MessagePackDocument._ret_number has an Integer clause (it only reads Double)')
        else:
            ints.add(v)
        got = body_dumps(rb)
        if got == tmpl(RET_BOOL_NEW):
            bools.add(True)
        elif got == tmpl(RET_BOOL_OLD):
            bools.add(False)
        else:
            raise TranslateError('%s._ret_bool: unrecognised shape' % cname)
    if len(ints) != 1 or len(bools) != 1:
        raise TranslateError('the json / yaml / msgpack leaf readers no longer agree with one another')
    return ('(* json.py, yaml.py _ret_number: a float in an Integer slot is the int it equals, or refused *)\n'
            'Definition int_slot_float_is_int : bool := %s.\n'
            '(* json.py, yaml.py, msgpack.py _ret_bool: `value is True or value is False` *)\n'
            'Definition ret_bool_by_identity : bool := %s.\n' % (TRUE if ints.pop() else FALSE, TRUE if bools.pop() else FALSE))


# ---------------------------------------------------------------- hier.py
def tr_member_written(tree):
    fn = find_function(tree, ['HierDictDocument', '_get_member_pairs'])
    st = find_stmt(fn, lambda n: isinstance(n, ast.If) and any(isinstance(x, ast.Expr) and isinstance(x.value, ast.Yield)
                                                               for x in n.body), 'if guarding the yield')
    if st.orelse:
        raise TranslateError('_get_member_pairs: the yield guard has an else branch')
    if not (has_assign(fn, 'min_o', "attr='min_occurs'") and has_assign(fn, 'complex_as', "attr='get_complex_as'")
            and has_assign(fn, 'val', "attr='_object_to_doc'")):
        raise TranslateError('_get_member_pairs: val / min_o / complex_as are not what they were')

    def leaf(n):
        if isinstance(n, ast.Compare) and len(n.ops) == 1 and isinstance(n.ops[0], ast.Is) and \
                isinstance(n.left, ast.Name) and n.left.id == 'complex_as' and \
                isinstance(n.comparators[0], ast.Name) and n.comparators[0].id == 'list':
            return 'as_list'
        return None

    def is_none(n):
        return 'val_none' if isinstance(n, ast.Name) and n.id == 'val' else None
    cmp, num = cmp_ext({'min_o': 'min_o'})
    t = BoolTranslator(leaf, cmp, num, is_none).tr(st.test)
    # the cycle guard: the set of ids handed down must be a copy per object (`tags = tags | {id(inst)}`), so that it
    # holds the ANCESTORS of a member only; grown in place (`tags.add(id(inst))`) it would also hold every object
    # written before, and an instance that occurs twice without being its own ancestor would be dropped
    head = [ast.dump(x) for x in strip_doc(fn.body) if not isinstance(x, ast.For)]
    copy_ = [ast.dump(x) for x in cparse("old_len = len(tags)\ntags = tags | {id(inst)}\n"
                                            "assert len(tags) > old_len, ('Offending instance: %r' % inst)").body]
    muts = [n for n in ast.walk(fn) if isinstance(n, ast.Call) and isinstance(n.func, ast.Attribute)
            and isinstance(n.func.value, ast.Name) and n.func.value.id == 'tags'
            and n.func.attr in ('add', 'update', 'discard', 'remove', 'clear', 'pop')]
    aug = [n for n in ast.walk(fn) if isinstance(n, ast.AugAssign) and isinstance(n.target, ast.Name) and n.target.id == 'tags']
    if head == copy_ and not muts and not aug:
        guard = TRUE
    elif muts or aug:
        guard = FALSE
    else:
        raise TranslateError('_get_member_pairs: unrecognised handling of the cycle-detection set')
    skip = [n for n in ast.walk(fn) if isinstance(n, ast.If) and ast.dump(n.test) == ast.dump(
        cparse('id(subinst) in tags', mode='eval').body)]
    if len(skip) != 1 or [ast.dump(x) for x in skip[0].body] != [ast.dump(ast.Continue())]:
        raise TranslateError('_get_member_pairs: the member of an ancestor is no longer skipped by `if id(subinst) in tags: continue`')
    return ('Definition member_written (val_none : bool) (min_o : ext) (as_list : bool) : bool :=\n  %s.\n'
            '(* the id set of the cycle guard is copied per object: it holds the ancestors of a member only, so an\n'
            '   instance that is shared but not its own ancestor is written every time (the model has no identities) *)\n'
            'Definition cycle_guard_per_branch : bool := %s.\n' % (t, guard))


def tr_object_to_doc(tree):
    fn = find_function(tree, ['HierDictDocument', '_object_to_doc'])
    loop = find_stmt(fn, lambda n: isinstance(n, ast.While), 'while loop')
    names = {'cls.Attributes.max_occurs': 'max_occurs', 'len(ti)': 'n_members'}

    def leaf(n):
        return 'wrapper' if attr_chain(n) == ['cls', 'Attributes', '_wrapper'] else None
    cmp, num = cmp_ext(names)
    cond = BoolTranslator(leaf, cmp, num).tr(loop.test)
    # the loop body: key, = ti.keys(); if not issubclass(cls, Array): inst = getattr(..); cls, = ti.values(); ti = ...
    dump = ast.dump(loop)
    for needle in ("attr='keys'", "id='issubclass'", "id='Array'", "attr='values'", "id='getattr'"):
        if needle not in dump:
            raise TranslateError('_object_to_doc: the wrapper loop body lost %s' % needle)
    guard = None
    for n in ast.walk(fn):
        if isinstance(n, ast.If) and n is not None and ast.dump(n.test).count("attr='ignore_wrappers'") == 1 \
                and any(x is loop for x in ast.walk(n)):
            guard = n
    if guard is None or ast.dump(guard.test) != ast.dump(cparse('self.ignore_wrappers', mode='eval').body):
        raise TranslateError('_object_to_doc: the wrapper loop is no longer guarded by `if self.ignore_wrappers:`')
    # the repeated / single split after the loop
    split = [n for n in fn.body if isinstance(n, ast.If) and "attr='max_occurs'" in ast.dump(n.test)]
    if len(split) != 1:
        raise TranslateError('_object_to_doc: expected one top-level `if cls.Attributes.max_occurs > 1`')
    sp = split[0]
    rep = BoolTranslator(lambda n: None, cmp, num).tr(sp.test)
    # else-branch: `elif inst is not None: retval = self._to_dict_value(...)` (repaired) or a bare else (pinned)
    none_guard = FALSE
    if len(sp.orelse) == 1 and isinstance(sp.orelse[0], ast.If):
        t = sp.orelse[0].test
        if ast.dump(t) == ast.dump(cparse('inst is not None', mode='eval').body) and not sp.orelse[0].orelse:
            none_guard = TRUE
        else:
            raise TranslateError('_object_to_doc: unrecognised elif after the max_occurs test')
    elif not (len(sp.orelse) == 1 and isinstance(sp.orelse[0], ast.Assign)):
        raise TranslateError('_object_to_doc: unrecognised else after the max_occurs test')
    first = strip_doc(fn.body)[0]
    if ast.dump(first) != ast.dump(cparse('if inst is None:\n    return None').body[0]):
        raise TranslateError('_object_to_doc: does not start with `if inst is None: return None`')
    return ('Definition strip_cond (wrapper : bool) (n_members max_occurs : ext) : bool :=\n  %s.\n'
            'Definition is_repeated (max_occurs : ext) : bool :=\n  %s.\n'
            '(* `elif inst is not None` before _to_dict_value of a single value *)\n'
            'Definition single_none_is_null : bool := %s.\n' % (cond, rep, none_guard))


def tr_doc_to_object(tree):
    fn = find_function(tree, ['HierDictDocument', '_doc_to_object'])
    first = strip_doc(fn.body)[0]
    if ast.dump(first) != ast.dump(cparse('if doc is None:\n    return []').body[0]):
        raise TranslateError('_doc_to_object: does not start with `if doc is None: return []`')
    st = find_stmt(fn, lambda n: isinstance(n, ast.If) and isinstance(n.test, ast.Compare)
                   and isinstance(n.test.left, ast.Name) and n.test.left.id == 'mo', '`if mo ...`')
    if not has_assign(fn, 'mo', "attr='max_occurs'"):
        raise TranslateError('_doc_to_object: mo is not member_attrs.max_occurs')
    cmp, num = cmp_ext({'mo': 'mo', 'len(doc)': 'n'})
    many = BoolTranslator(lambda n: None, cmp, num).tr(st.test)
    arity = [n for n in ast.walk(fn) if isinstance(n, ast.If) and isinstance(n.test, ast.Compare)
             and 'len' in ast.dump(n.test.left) and "id='doc'" in ast.dump(n.test.left)]
    if len(arity) != 2:
        raise TranslateError('_doc_to_object: expected the two wrapper arity tests on len(doc)')
    empty, toomany = arity
    if not (len(empty.body) == 1 and isinstance(empty.body[0], ast.Return) and isinstance(empty.body[0].value, ast.Constant)
            and empty.body[0].value.value is None):
        raise TranslateError('_doc_to_object: the empty wrapper document does not return None')
    if not (len(toomany.body) == 1 and is_raise_validation(toomany.body[0])):
        raise TranslateError('_doc_to_object: more than one wrapper key is not a ValidationError')
    e = BoolTranslator(lambda n: None, cmp, num).tr(empty.test)
    m = BoolTranslator(lambda n: None, cmp, num).tr(toomany.test)
    # inside `if mo > 1:` the items are iterated; is a value that cannot be iterated refused first?
    loops = [x for x in st.body if isinstance(x, ast.For)]
    if len(loops) != 1 or ast.dump(loops[0].iter) != ast.dump(cparse('v', mode='eval').body):
        raise TranslateError('_doc_to_object: the repeated branch no longer iterates `for a in v`')
    guard = ast.dump(cparse('if not isinstance(v, AbcIterable):\n    raise ValidationError(v)').body[0])
    before = [ast.dump(x) for x in st.body[:st.body.index(loops[0])]]
    scalar = TRUE if guard in before else FALSE
    if any('AbcIterable' in b for b in before if b != guard):
        raise TranslateError('_doc_to_object: unrecognised iterability test in the repeated branch')
    return ('Definition reads_many (mo : ext) : bool :=\n  %s.\n'
            'Definition wrapper_empty (n : ext) : bool :=\n  %s.\n'
            'Definition wrapper_too_many (n : ext) : bool :=\n  %s.\n'
            '(* a value that cannot be iterated, given for a repeated member, is a ValidationError (else TypeError) *)\n'
            'Definition scalar_for_repeated_refused : bool := %s.\n' % (many, e, m, scalar))


def tr_from_dict_value(tree):
    fn = find_function(tree, ['HierDictDocument', '_from_dict_value'])
    branch = find_stmt(fn, lambda n: isinstance(n, ast.If) and 'ComplexModelBase' in ast.dump(n.test)
                       and 'issubclass' in ast.dump(n.test), '`issubclass(cls, ComplexModelBase)` branch')
    body = branch.body
    repaired = cparse('if inst is None:\n    retval = None\nelse:\n    retval = self._doc_to_object(ctx, cls, inst, validator)').body
    pinned = cparse('retval = self._doc_to_object(ctx, cls, inst, validator)').body
    if [ast.dump(x) for x in body] == [ast.dump(x) for x in repaired]:
        v = TRUE
    elif [ast.dump(x) for x in body] == [ast.dump(x) for x in pinned]:
        v = FALSE
    else:
        raise TranslateError('_from_dict_value: unrecognised complex branch')
    dec = [n for n in ast.walk(fn) if isinstance(n, ast.Try) and 'UnicodeError' in ast.dump(n)]
    want = cparse("try:\n"
                     "    if issubclass(cls, Unicode):\n"
                     "        inst = self.unicode_from_bytes(cls, inst)\n"
                     "    else:\n"
                     "        inst = inst.decode(self.string_encoding or 'utf8')\n"
                     "except UnicodeError:\n"
                     "    raise ValidationError([key, inst])\n").body[0]
    if len(dec) != 1 or ast.dump(dec[0]) != ast.dump(want):
        raise TranslateError('_from_dict_value: byte strings are not decoded the way they were')
    guard = [n for n in ast.walk(fn) if isinstance(n, ast.If) and any(x is dec[0] for x in n.body)]
    gwant = cparse("isinstance(inst, six.binary_type) and not issubclass(cls, (ByteArray, File)) "
                      "and getattr(cls_attrs, 'serialize_as', None) not in ('bytes', 'bytes_le')", mode='eval').body
    if len(guard) != 1 or ast.dump(guard[0].test) != ast.dump(gwant) or guard[0].orelse:
        raise TranslateError('_from_dict_value: unrecognised guard of the byte string decoding')
    # the decoding precedes validate_string and the conversion in the same block
    blk = [n for n in ast.walk(fn) if isinstance(n, ast.If) and guard[0] in n.orelse]
    if len(blk) != 1:
        raise TranslateError('_from_dict_value: the byte string decoding moved')
    seq = blk[0].orelse
    i = seq.index(guard[0])
    rest = ''.join(ast.dump(x) for x in seq[i + 1:])
    if "attr='validate_string'" not in rest or "attr='from_serstr'" not in rest \
            or "attr='validate_string'" in ''.join(ast.dump(x) for x in seq[:i]):
        raise TranslateError('_from_dict_value: validate_string / from_serstr no longer follow the decoding')
    # the two guards in front of the leaf conversion (every validator)
    gtext = ast.dump(cparse(
        "if inst is not None and not isinstance(inst, self.VALID_UNICODE_SOURCES) "
        "and issubclass(cls, self.stringified_types + (ByteArray,)) "
        "and getattr(cls_attrs, 'serialize_as', None) is None:\n    raise ValidationError([key, inst])").body[0])
    gnum = ast.dump(cparse(
        "if inst is not None and issubclass(cls, Decimal) and not isinstance(inst, self.VALID_NUMBER_SOURCES):\n"
        "    raise ValidationError([key, inst])").body[0])
    head = [ast.dump(x) for x in seq[:i]]
    has_text, has_num = gtext in head, gnum in head
    for h in head:
        if h not in (gtext, gnum) and ('VALID_' in h or 'stringified_types' in h):
            raise TranslateError('_from_dict_value: unrecognised source guard before the leaf conversion')
    cls_ = [c for c in tree.body if isinstance(c, ast.ClassDef) and c.name == 'HierDictDocument'][0]
    consts = {a.targets[0].id: ast.dump(a.value) for a in cls_.body
              if isinstance(a, ast.Assign) and isinstance(a.targets[0], ast.Name)}
    if consts.get('VALID_UNICODE_SOURCES') != ast.dump(cparse(
            '(six.text_type, six.binary_type, memoryview, mmap, bytearray)', mode='eval').body):
        raise TranslateError('HierDictDocument.VALID_UNICODE_SOURCES is not what it was')
    if has_num and consts.get('VALID_NUMBER_SOURCES') != ast.dump(cparse(
            'six.integer_types + (float, decimal.Decimal, six.text_type, six.binary_type)', mode='eval').body):
        raise TranslateError('HierDictDocument.VALID_NUMBER_SOURCES is not (int, float, Decimal, str, bytes)')
    # empty_is_none: which nodes are read as null
    ein = [x for x in seq[:i] if isinstance(x, ast.If) and 'empty_is_none' in ast.dump(x.test)]
    if len(ein) != 1 or ein[0].orelse or [ast.dump(x) for x in ein[0].body] != tmpl('inst = None'):
        raise TranslateError('_from_dict_value: expected one `if cls_attrs.empty_is_none and ...: inst = None` before the decoding')
    t = ein[0].test
    ok = (isinstance(t, ast.BoolOp) and isinstance(t.op, ast.And) and len(t.values) == 2
          and attr_chain(t.values[0]) == ['cls_attrs', 'empty_is_none']
          and isinstance(t.values[1], ast.Compare) and len(t.values[1].ops) == 1 and isinstance(t.values[1].ops[0], ast.In)
          and isinstance(t.values[1].left, ast.Name) and t.values[1].left.id == 'inst'
          and isinstance(t.values[1].comparators[0], ast.Tuple))
    if not ok:
        raise TranslateError('_from_dict_value: empty_is_none is not decided by `inst in (<constants>)`')
    members = []
    for e in t.values[1].comparators[0].elts:
        if not (isinstance(e, ast.Constant) and e.value in ('', b'') and isinstance(e.value, (str, bytes))):
            raise TranslateError('_from_dict_value: empty_is_none reads something other than the empty text as null: %s' % ast.dump(e))
        members.append(type(e.value))
    if seq.index(ein[0]) < max([seq.index(x) for x in seq[:i] if ast.dump(x) in (gtext, gnum)] or [-1]):
        raise TranslateError('_from_dict_value: empty_is_none acts before the source guards')
    ein_text = ('(* empty_is_none: `inst in (...)`: the members of the tuple *)\n'
                'Definition ein_empty_str : bool := %s.\nDefinition ein_empty_bytes : bool := %s.\n'
                % (TRUE if str in members else FALSE, TRUE if bytes in members else FALSE))
    return (ein_text +
            '(* a non-text value for a ByteArray (or date / time / duration / uuid) member is refused under every validator *)\n'
            'Definition binary_source_checked : bool := %s.\n'
            '(* a value that is not a number or text (a list, a map, a tuple) for an Integer / Double / Decimal member is refused *)\n'
            'Definition number_source_checked : bool := %s.\n' % (TRUE if has_text else FALSE, TRUE if has_num else FALSE) +
            '(* a null complex / array member is read as None (not handed to _doc_to_object) *)\n'
            'Definition null_member_is_none : bool := %s.\n'
            '(* a byte string for a non-binary leaf is decoded (UnicodeError -> ValidationError) before\n'
            '   validate_string and the conversion *)\n'
            'Definition bytes_text_decoded_first : bool := true.\n' % v)


def tr_deserialize(tree):
    """the decisions of HierDictDocument.deserialize for a REQUEST, read statement by statement:
    which key the body is looked up under, and what a null body becomes"""
    fn = find_function(tree, ['HierDictDocument', 'deserialize'])
    st = find_stmt(fn, lambda n: isinstance(n, ast.If) and ast.dump(n.test) == ast.dump(
        cparse('self.ignore_wrappers', mode='eval').body) and 'class_name' in ast.dump(n), '`if self.ignore_wrappers:`')
    tail = [n for n in fn.body if isinstance(n, ast.If) and 'body_class' in ast.dump(n.test)]
    if len(tail) != 1:
        raise TranslateError('deserialize: expected one `if body_class:`')
    stmts = strip_doc(tail[0].body)
    if st not in stmts:
        raise TranslateError('deserialize: the body lookup is not a statement of `if body_class:`')
    i = stmts.index(st)
    pre = [ast.dump(x) for x in stmts[:i]]
    post = [ast.dump(x) for x in stmts[i + 1:]]
    d = lambda src: ast.dump(cparse(src).body[0])
    if d('class_name = self.get_class_name(body_class)') not in pre:
        raise TranslateError('deserialize: class_name is not self.get_class_name(body_class)')
    # -- inside `if self.ignore_wrappers:`: optional bare renaming, optional str form, then the lookup
    body = strip_doc(st.body)
    if not body or ast.dump(body[-1]) != d('doc = doc.get(class_name, None)') or st.orelse:
        raise TranslateError('deserialize: the lookup is not `doc = doc.get(class_name, None)`')
    rename = ("    if isinstance(class_name, bytes) and not isinstance(sub_name, bytes):\n"
              "        sub_name = sub_name.encode('utf8')\n"
              "    class_name = sub_name\n")
    both = d("if isinstance(class_name, bytes) and not (class_name in doc):\n"
             "    class_name = class_name.decode('utf8')\n")
    sub = d('sub_name = body_class.Attributes.sub_name')
    isb = d('is_bare = message is self.REQUEST and sub_name is not None')
    rest = [ast.dump(x) for x in body[:-1]]
    bare = FALSE
    bare_name = None       # how later statements say "this is a bare request"
    if rest and rest[0] == d('if is_bare:\n' + rename):
        if sub not in pre or isb not in pre or pre.index(sub) > pre.index(isb):
            raise TranslateError('deserialize: is_bare is not `message is self.REQUEST and sub_name is not None`')
        bare, bare_name, rest = TRUE, 'is_bare', rest[1:]
    elif len(rest) >= 2 and rest[0] == sub and rest[1] == d('if message is self.REQUEST and sub_name is not None:\n' + rename):
        bare, bare_name, rest = TRUE, 'inline', rest[2:]
    if rest == [both]:
        v = TRUE
    elif rest == []:
        v = FALSE
    else:
        raise TranslateError('deserialize: unrecognised request body lookup')
    # -- after the lookup: the branches that do not concern a wrapped in-message (a ComplexModel whose
    #    sub_name is None) are only recognised; what a null body becomes is translated
    call = 'self._doc_to_object(ctx, body_class, doc, self.validator)'
    simple = ("message is self.REQUEST and not issubclass(body_class, (ComplexModelBase, Any)):\n"
              "    if not self.ignore_wrappers:\n"
              "        doc, = doc.values()\n")
    absent = "[None] * len(body_class._type_info)"
    shapes = {
        ('plain', FALSE): "result_message = %s\nctx.in_object = result_message" % call,
        ('inline', FALSE): ("if message is self.REQUEST and doc is None and body_class.Attributes.sub_name is not None:\n"
                            "    result_message = None\n"
                            "elif " + simple +
                            "    result_message = self._from_dict_value(ctx, class_name, body_class, doc, self.validator)\n"
                            "else:\n"
                            "    result_message = %s\n"
                            "ctx.in_object = result_message" % call),
        ('is_bare', TRUE): ("if is_bare and doc is None:\n"
                            "    ctx.in_object = None\n"
                            "elif " + simple +
                            "    ctx.in_object = self._from_dict_value(ctx, class_name, body_class, doc, self.validator)\n"
                            "elif doc is None:\n"
                            "    ctx.in_object = %s\n"
                            "else:\n"
                            "    ctx.in_object = %s\n" % (absent, call)),
        ('plain', TRUE): ("if doc is None:\n"
                          "    ctx.in_object = %s\n"
                          "else:\n"
                          "    ctx.in_object = %s\n" % (absent, call)),
    }
    null_absent = None
    for (bn, na), src in shapes.items():
        if post == tmpl(src) and bn == (bare_name or 'plain'):
            null_absent = na
    if null_absent is None:
        raise TranslateError('deserialize: the wrapped in-message no longer goes to _doc_to_object as it did')
    return ('(* the request body is found under the str form of a bytes class name too *)\n'
            'Definition body_lookup_both_key_forms : bool := %s.\n'
            '(* the argument of a bare method is looked up under the message name (sub_name); the\n'
            '   in-message of a wrapped method has no sub_name, so this does not touch the modelled region *)\n'
            'Definition bare_body_under_message_name : bool := %s.\n'
            '(* {"method": null}: every argument is absent ([None] * n) instead of _doc_to_object(None) = [] *)\n'
            'Definition null_body_absent_args : bool := %s.\n' % (v, bare, null_absent))


def tr_bytearray_base64(tree):
    """spyne/model/binary.py ByteArray.to_base64: a value of several chunks is encoded as ONE text, that of the
    concatenation (chunk by chunk would pad in the middle)"""
    fn = find_function(tree, ['ByteArray', 'to_base64'])
    body = strip_doc(fn.body)
    if not body or not isinstance(body[-1], ast.Return):
        raise TranslateError('ByteArray.to_base64: does not end with a return')
    if ast.dump(body[-1].value) != ast.dump(cparse("b64encode(b''.join(value))", mode='eval').body):
        raise TranslateError('ByteArray.to_base64: a sequence of chunks is not encoded as b64encode(b\'\'.join(value))')
    one = ast.dump(cparse('if isinstance(value, (six.binary_type, memoryview, mmap)):\n    return b64encode(value)').body[0])
    mm = (ast.dump(cparse('if isinstance(value, (list, tuple)) and len(value) > 0 and isinstance(value[0], mmap):\n'
                             '    return b64encode(value[0])').body[0]),
          ast.dump(cparse('if isinstance(value, (list, tuple)) and isinstance(value[0], mmap):\n'
                             '    return b64encode(value[0])').body[0]))
    rest = [ast.dump(x) for x in body[:-1]]
    if one not in rest or any(r != one and r not in mm for r in rest):
        raise TranslateError('ByteArray.to_base64: unrecognised special cases')
    empty_ok = TRUE if (mm[1] not in rest) else FALSE
    imp = [n for n in tree.body if isinstance(n, ast.ImportFrom) and n.module == 'base64'
           and any(a.name == 'b64encode' and a.asname is None for a in n.names)]
    if not imp:
        raise TranslateError('binary.py: b64encode is not base64.b64encode')
    return ('(* ByteArray.to_base64: the text of a value of several chunks is that of their concatenation *)\n'
            'Definition bytes_encoded_as_one : bool := true.\n'
            '(* ... and a value of no chunks at all is not looked into (value[0]) *)\n'
            'Definition bytes_no_chunks_ok : bool := %s.\n' % empty_ok)


def tr_rpc_envelope(tree):
    """MessagePackRpc: what is not a request, and an undecodable method name, is a
    Client.MessagePackDecodeError; nil parameters are absent arguments"""
    fn = find_function(tree, ['MessagePackRpc', 'decompose_incoming_envelope'])
    chain = [n for n in fn.body if isinstance(n, ast.If) and 'MSGPACK_REQUEST' in ast.dump(n.test)]
    if len(chain) != 1:
        raise TranslateError('MessagePackRpc.decompose_incoming_envelope: expected one chain on msgtype')
    n = chain[0]
    seen = []
    pending = None
    is_dec = lambda x: isinstance(x, ast.Raise) and isinstance(x.exc, ast.Call) and \
        isinstance(x.exc.func, ast.Name) and x.exc.func.id == 'MessagePackDecodeError'
    while True:
        t = n.test
        ok = (isinstance(t, ast.Compare) and len(t.ops) == 1 and isinstance(t.ops[0], ast.Eq)
              and isinstance(t.left, ast.Name) and t.left.id == 'msgtype'
              and attr_chain(t.comparators[0]) and attr_chain(t.comparators[0])[0] == 'MessagePackRpc')
        if not ok:
            raise TranslateError('MessagePackRpc: unrecognised message type test')
        kind = attr_chain(t.comparators[0])[-1]
        b = n.body
        if kind == 'MSGPACK_NOTIFY':
            good = len(b) == 1 and is_dec(b[0])
        else:
            want = 'REQUEST' if kind == 'MSGPACK_REQUEST' else 'RESPONSE'
            good = (len(b) == 1 and isinstance(b[0], ast.If) and not b[0].orelse and len(b[0].body) == 1
                    and is_dec(b[0].body[0])
                    and ast.dump(b[0].test) == ast.dump(cparse('message != MessagePackRpc.%s' % want, mode='eval').body))
        if not good:
            raise TranslateError('MessagePackRpc: message type %s is not answered with MessagePackDecodeError' % kind)
        seen.append(kind)
        rest = n.orelse if pending is None else pending
        pending = None
        if len(rest) == 1 and isinstance(rest[0], ast.If):
            n = rest[0]
            continue
        if len(rest) == 2 and isinstance(rest[0], ast.If) and not rest[0].orelse:
            # normal form: a branch that ends in raise has its else flattened behind it
            n, pending = rest[0], rest[1:]
            continue
        if not (len(rest) == 1 and is_dec(rest[0])
                and ast.dump(rest[0].exc.args[0]) == ast.dump(cparse('"Unknown message type %r" % (msgtype,)', mode='eval').body)):
            raise TranslateError('MessagePackRpc: an unknown message type is not a MessagePackDecodeError of (msgtype,)')
        break
    if sorted(seen) != ['MSGPACK_ERROR', 'MSGPACK_NOTIFY', 'MSGPACK_REQUEST', 'MSGPACK_RESPONSE']:
        raise TranslateError('MessagePackRpc: message types %r' % seen)
    vals = {}
    cls = [c for c in tree.body if isinstance(c, ast.ClassDef) and c.name == 'MessagePackRpc'][0]
    for a in cls.body:
        if isinstance(a, ast.Assign) and isinstance(a.targets[0], ast.Name) and a.targets[0].id.startswith('MSGPACK_'):
            vals[a.targets[0].id] = const_int(a.value)
    if vals != {'MSGPACK_REQUEST': 0, 'MSGPACK_RESPONSE': 1, 'MSGPACK_NOTIFY': 2, 'MSGPACK_ERROR': 3}:
        raise TranslateError('MessagePackRpc: message type numbers %r' % vals)
    dec = [x for x in ast.walk(fn) if isinstance(x, ast.Try) and 'msgname_or_error' in ast.dump(x)]
    want = cparse("try:\n"
                     "    msgname_or_error = msgname_or_error.decode(self.default_string_encoding)\n"
                     "except UnicodeDecodeError as e:\n"
                     "    raise MessagePackDecodeError(str(e))\n").body[0]
    if len(dec) != 1 or ast.dump(dec[0]) != ast.dump(want):
        raise TranslateError('MessagePackRpc: an undecodable method name is not a MessagePackDecodeError')
    de = find_function(tree, ['MessagePackRpc', 'deserialize'])
    br = [x for x in ast.walk(de) if isinstance(x, ast.If) and ast.dump(x.test) == ast.dump(
        cparse('ctx.in_body_doc is None', mode='eval').body)]
    call = 'ctx.in_object = self._doc_to_object(ctx, body_class, ctx.in_body_doc, self.validator)'
    # one None per member of the in-message; a wrapped in-message (a ComplexModel) always has a _type_info, so the
    # getattr default (for the primitive in-message of a bare method) is outside the modelled region
    absent = (tmpl('ctx.in_object = [None] * len(body_class._type_info)'),
              tmpl("ctx.in_object = [None] * len(getattr(body_class, '_type_info', ()))"))
    if len(br) == 1 and [ast.dump(x) for x in br[0].body] in absent \
            and [ast.dump(x) for x in br[0].orelse] == tmpl(call):
        nil = TRUE
    elif not br and any(ast.dump(x) == tmpl(call)[0] for x in ast.walk(de)):
        nil = FALSE
    else:
        raise TranslateError('MessagePackRpc.deserialize: unrecognised treatment of the parameters')
    mk = find_function(tree, ['MessagePackDocument', 'gen_method_request_string'])
    want = cparse("try:\n    mrs = mrs.decode(self.key_encoding)\n"
                     "except UnicodeDecodeError as e:\n    raise MessagePackDecodeError(str(e))\n").body[0]
    kd = [x for x in ast.walk(mk) if isinstance(x, ast.Try)]
    if len(kd) != 1 or ast.dump(kd[0]) != ast.dump(want):
        raise TranslateError('MessagePackDocument.gen_method_request_string: an undecodable key is not a MessagePackDecodeError')
    return ('(* msgpack.py: a response / error / notification / unknown type sent as a request, an undecodable\n'
            '   method name (rpc) or method key (document) are Client.MessagePackDecodeError faults *)\n'
            'Definition mp_envelope_errors_are_decode_errors : bool := true.\n'
            '(* MessagePackRpc.deserialize: [type, id, method, nil] -> every argument is absent *)\n'
            'Definition rpc_nil_params_absent_args : bool := %s.\n' % nil)


def hier_freq_calls(t_hier):
    """hier.py never passes flat= to _check_freq_dict"""
    for n in ast.walk(t_hier):
        if isinstance(n, ast.Call) and isinstance(n.func, ast.Attribute) and n.func.attr == '_check_freq_dict':
            if any(k.arg == 'flat' for k in n.keywords) or len(n.args) > 3:
                raise TranslateError('hier.py passes flat to _check_freq_dict')


def tr_check_freq(tree):
    fn = find_function(tree, ['DictDocument', '_check_freq_dict'])
    tests = [n for n in ast.walk(fn) if isinstance(n, ast.If) and isinstance(n.test, ast.Compare)
             and isinstance(n.test.left, ast.Name) and n.test.left.id == 'val']
    if len(tests) != 2 or not all(len(t.body) == 1 and is_raise_validation(t.body[0]) for t in tests):
        raise TranslateError('_check_freq_dict: expected two `if val <cmp> ...: raise ValidationError`')
    cmp, num = cmp_ext({'val': 'val', 'min_o': 'min_o', 'max_o': 'max_o'})
    lo = [t for t in tests if 'min_o' in ast.dump(t.test)]
    hi = [t for t in tests if 'max_o' in ast.dump(t.test)]
    if len(lo) != 1 or len(hi) != 1:
        raise TranslateError('_check_freq_dict: tests do not compare val with min_o and max_o')
    arr = find_stmt(fn, lambda n: isinstance(n, ast.If) and "id='Array'" in ast.dump(n.test), 'Array special case')
    if ast.dump(arr.test) == ast.dump(cparse('issubclass(v, Array) and v.Attributes.max_occurs == 1', mode='eval').body):
        hier_items = TRUE
    elif ast.dump(arr.test) == ast.dump(cparse('flat and val > 0 and issubclass(v, Array) and v.Attributes.max_occurs == 1',
                                                  mode='eval').body):
        a = fn.args
        if [x.arg for x in a.args] != ['self', 'cls', 'd', 'fti', 'flat'] or len(a.defaults) != 2 \
                or not (isinstance(a.defaults[1], ast.Constant) and a.defaults[1].value is False):
            raise TranslateError('_check_freq_dict: `flat` is not a keyword that defaults to False')
        hier_items = FALSE
    else:
        raise TranslateError('_check_freq_dict: unrecognised Array special case')
    return ('(* does a hierarchical document count the items of an array under the key of the array? *)\n'
            'Definition hier_counts_array_items : bool := %s.\n' % hier_items +
            'Definition freq_low (val min_o : ext) : bool :=\n  %s.\n'
            'Definition freq_high (val max_o : ext) : bool :=\n  %s.\n' % (
                BoolTranslator(lambda n: None, cmp, num).tr(lo[0].test),
                BoolTranslator(lambda n: None, cmp, num).tr(hi[0].test)))


# ---------------------------------------------------------------- handler tables (introspection)
HNAMES = ['_ret', '_ret_number', '_ret_bool', 'integer_from_bytes', 'integer_to_bytes', 'decimal_from_unicode',
          'decimal_to_unicode', 'decimal_to_bytes', 'unicode_to_unicode', 'unicode_to_bytes', 'unicode_from_bytes',
          'byte_array_from_bytes', 'byte_array_to_unicode', 'byte_array_to_bytes', 'double_to_unicode',
          'double_from_bytes', 'boolean_to_unicode', 'boolean_from_bytes', 'integer_to_unicode']


def handler_rows():
    from spyne.protocol.json import JsonDocument
    from spyne.protocol.yaml import YamlDocument
    from spyne.protocol.msgpack import MessagePackDocument
    from spyne.model.primitive import Integer, Unicode, Boolean, Double, Decimal
    from spyne.model.binary import ByteArray
    kinds = [('GInt', Integer), ('GText', Unicode), ('GBool', Boolean), ('GDouble', Double), ('GDecimal', Decimal),
             ('GBytes', ByteArray)]
    rows = []
    facts = []
    for pname, P in (('GJson', JsonDocument), ('GYaml', YamlDocument), ('GMsgpack', MessagePackDocument)):
        p = P()
        rd, wr = p.from_serstr, p.to_serstr
        rdn, wrn = getattr(rd, '__name__', '?'), getattr(wr, '__name__', '?')
        if rdn != 'from_unicode' or wrn not in ('to_unicode', 'to_bytes'):
            raise TranslateError('%s: from_serstr/to_serstr are %s/%s' % (pname, rdn, wrn))
        rtab = p._from_unicode_handlers
        wtab = p._to_unicode_handlers if wrn == 'to_unicode' else p._to_bytes_handlers
        for kname, T in kinds:
            for writer, tab in ((False, rtab), (True, wtab)):
                h = tab[T]
                n = getattr(h, '__name__', None)
                if n not in HNAMES:
                    raise TranslateError('%s %s: unknown handler %r' % (pname, kname, h))
                own = getattr(h, '__qualname__', '').split('.')[0]
                tag = 'H_' + n.lstrip('_') + ('_mp' if own == 'MessagePackDocument' and n.startswith('integer') else '')
                rows.append('(%s, %s, %s, %s)' % (pname, 'true' if writer else 'false', kname, tag))
        facts.append((pname, wrn, p.key_encoding, p.ignore_wrappers, p.complex_as is dict, p.polymorphic,
                      p.binary_encoding is not None))
    return rows, facts


def generate(repo):
    hier, t_hier = module_tree('spyne.protocol.dictdoc.hier', repo)
    base, t_base = module_tree('spyne.protocol.dictdoc._base', repo)
    mp, t_mp = module_tree('spyne.protocol.msgpack', repo)
    out = ['(* GENERATED by harness/translate/dictdoc.py from spyne/protocol/dictdoc/hier.py, dictdoc/_base.py,',
           '   msgpack.py and the protocol instances.  Do not edit. *)',
           'From SpyneV Require Import Base.Prelude Base.Ext.', 'Open Scope Z_scope.', '']
    js, t_js = module_tree('spyne.protocol.json', repo)
    ym, t_ym = module_tree('spyne.protocol.yaml', repo)
    for nm, t in (('json.py', t_js), ('yaml.py', t_ym), ('msgpack.py', t_mp)):
        if not non_number_types(t, nm):
            raise TranslateError('%s no longer defines NON_NUMBER_TYPES' % nm)
    out.append(tr_mp_integer_to_bytes(t_mp))
    out.append(tr_mp_integer_from_bytes(t_mp))
    out.append(tr_leaf_readers({'json': ('JsonDocument', t_js), 'yaml': ('YamlDocument', t_ym),
                                'msgpack': ('MessagePackDocument', t_mp)}))
    hier_freq_calls(t_hier)
    out.append(tr_member_written(t_hier))
    out.append(tr_object_to_doc(t_hier))
    out.append(tr_doc_to_object(t_hier))
    out.append(tr_from_dict_value(t_hier))
    out.append(tr_deserialize(t_hier))
    out.append(tr_rpc_envelope(t_mp))
    binm, t_bin = module_tree('spyne.model.binary', repo)
    out.append(tr_bytearray_base64(t_bin))
    out.append(tr_check_freq(t_base))
    rows, facts = handler_rows()
    tags = sorted(set(r.split(', ')[-1].rstrip(')') for r in rows) | set(
        'H_' + n.lstrip('_') for n in HNAMES) | {'H_integer_from_bytes_mp', 'H_integer_to_bytes_mp'})
    out.append('Inductive gproto := GJson | GYaml | GMsgpack.')
    out.append('Inductive gkind := GInt | GText | GBool | GDouble | GDecimal | GBytes.')
    out.append('Inductive hname := %s.' % ' | '.join(tags))
    out.append('(* (protocol, writer?, primitive, the handler the protocol instance dispatches to) *)')
    out.append('Definition handlers : list (gproto * bool * gkind * hname) :=\n  [ %s ].' % ';\n    '.join(rows))
    for pname, wrn, kenc, iw, asdict, poly, benc in facts:
        out.append('(* %s(): to_serstr = %s *)' % (pname, wrn))
        out.append('Definition %s_key_utf8 : bool := %s.' % (pname, 'true' if kenc in ('utf8', 'utf-8', 'UTF-8') else 'false'))
        if kenc not in (None, 'utf8', 'utf-8', 'UTF-8'):
            raise TranslateError('%s key_encoding is %r' % (pname, kenc))
        out.append('Definition %s_writes_bytes : bool := %s.' % (pname, 'true' if wrn == 'to_bytes' else 'false'))
        out.append('Definition %s_default_ignore_wrappers : bool := %s.' % (pname, 'true' if iw else 'false'))
        out.append('Definition %s_default_dict : bool := %s.' % (pname, 'true' if asdict else 'false'))
        out.append('Definition %s_base64 : bool := %s.' % (pname, 'true' if benc else 'false'))
    return {'DictDoc.v': '\n'.join(out) + '\n'}
