"""spyne/model/complex.py, spyne/protocol/_base.py, spyne/protocol/xml.py, spyne/protocol/soap/soap11.py,
spyne/interface/_base.py  ->  Gen/C16Shape.v

The handful of source facts that decide C16 (statement order, one comparison operator, one guard,
one keyword argument), read from the AST of the working tree and emitted as the record
[shape_src : xshape] of coq/C16/Model.v.  The model's functions take the record as a parameter
and Props/C16.v states its theorems over [shape_src], so an edit of one of these tokens changes a
proof obligation.  Fail closed: a function that is missing, or a statement that is neither the
recognised form nor recognisably absent, raises TranslateError."""
import ast, os
from .pyexpr import TranslateError, find_function


def _parse(repo, rel):
    p = os.path.join(repo, rel)
    with open(p) as f:
        return ast.parse(f.read())


def _u(n):
    return ast.unparse(n)


def _stmts(fn):
    return [s for s in fn.body if not (isinstance(s, ast.Expr) and isinstance(s.value, ast.Constant)
                                       and isinstance(s.value.value, str))]


def _index(stmts, text, what):
    hits = [i for i, s in enumerate(stmts) if _u(s) == text]
    if len(hits) != 1:
        raise TranslateError('%s: expected exactly one statement %r, found %d' % (what, text, len(hits)))
    return hits[0]


# ------------------------------------------------------------------ normalisation of small decision functions
# A function whose body is straight-line assignments of pure expressions to locals, log calls, and
# if / return / raise is turned into a decision tree over canonical expressions:
#   * docstrings, logger.* calls and the arguments of raised exceptions are dropped;
#   * locals bound to pure expressions are substituted into their uses (so renaming a local, naming an
#     expression once, or inlining a temporary make no difference);
#   * `if c: A` followed by `rest` == `if c: A else: rest` when A ends in return / raise, `not c` and
#     `is not` swap the branches, constant tests are pruned.
# Everything else fails closed.
PURE_CALLS = ('getattr', 'isinstance', 'issubclass')


def _pure(n):
    for x in ast.walk(n):
        if isinstance(x, ast.Call):
            f = _u(x.func)
            if not (f in PURE_CALLS or f.endswith('.get') or f == 'self.get_cls_attrs'):
                return False
        elif isinstance(x, (ast.Lambda, ast.ListComp, ast.DictComp, ast.SetComp, ast.GeneratorExp, ast.Await, ast.Yield,
                            ast.YieldFrom, ast.NamedExpr)):
            return False
    return True


class _Subst(ast.NodeTransformer):
    def __init__(self, env):
        self.env = env

    def visit_Name(self, n):
        if isinstance(n.ctx, ast.Load) and n.id in self.env:
            import copy
            return copy.deepcopy(self.env[n.id])
        return n


def _sub(expr, env):
    import copy
    return ast.fix_missing_locations(_Subst(env).visit(copy.deepcopy(expr)))


def _tree(stmts, env, what):
    """-> ('ret', text) | ('raise', exception name) | ('if', test AST, then, else)"""
    if not stmts:
        raise TranslateError('%s: a path falls off the end of the function' % what)
    s, rest = stmts[0], stmts[1:]
    if isinstance(s, ast.Expr):
        if isinstance(s.value, ast.Constant) or (isinstance(s.value, ast.Call) and _u(s.value.func).startswith('logger.')):
            return _tree(rest, env, what)
        raise TranslateError('%s: unrecognised statement %r' % (what, _u(s)))
    if isinstance(s, ast.Assign) and len(s.targets) == 1 and isinstance(s.targets[0], ast.Name):
        rhs = _sub(s.value, env)
        if not _pure(rhs):
            raise TranslateError('%s: a local is bound to an expression with effects: %r' % (what, _u(s)))
        env = dict(env)
        env[s.targets[0].id] = rhs
        return _tree(rest, env, what)
    if isinstance(s, ast.Return):
        return ('ret', _u(_sub(s.value, env)) if s.value is not None else 'None')
    if isinstance(s, ast.Raise):
        exc = s.exc.func if isinstance(s.exc, ast.Call) else s.exc
        return ('raise', _u(exc))
    if isinstance(s, ast.If):
        falls = lambda body: not (body and isinstance(body[-1], (ast.Return, ast.Raise)))
        for body in (s.body, s.orelse):
            if falls(body) and any(isinstance(x, ast.Assign) for x in body):
                raise TranslateError('%s: a branch binds locals and falls through' % what)
        test = _sub(s.test, env)
        return _if(test, _tree(list(s.body) + rest, env, what), _tree(list(s.orelse) + rest, env, what))
    raise TranslateError('%s: unrecognised statement %r' % (what, _u(s)))


def _if(test, a, b):
    if isinstance(test, ast.UnaryOp) and isinstance(test.op, ast.Not):
        return _if(test.operand, b, a)
    if isinstance(test, ast.Compare) and len(test.ops) == 1 and isinstance(test.ops[0], ast.IsNot):
        return _if(ast.Compare(left=test.left, ops=[ast.Is()], comparators=test.comparators), b, a)
    if isinstance(test, ast.Constant) and test.value in (True, False):
        return a if test.value else b
    if a == b:
        return a
    return ('if', test, a, b)


def _btext(n, atoms, what):
    """boolean expression -> Gallina over the named atoms"""
    t = _u(n)
    if t in atoms:
        return atoms[t]
    if isinstance(n, ast.BoolOp):
        op = ' && ' if isinstance(n.op, ast.And) else ' || '
        return '(' + op.join(_btext(v, atoms, what) for v in n.values) + ')'
    if isinstance(n, ast.UnaryOp) and isinstance(n.op, ast.Not):
        return '(negb %s)' % _btext(n.operand, atoms, what)
    if isinstance(n, ast.Compare) and len(n.ops) == 1 and isinstance(n.ops[0], (ast.NotEq, ast.IsNot)):
        pos = ast.Compare(left=n.left, ops=[ast.Eq() if isinstance(n.ops[0], ast.NotEq) else ast.Is()], comparators=n.comparators)
        if _u(pos) in atoms:
            return '(negb %s)' % atoms[_u(pos)]
    raise TranslateError('%s: unrecognised condition %r' % (what, t))


def _gallina(tree, atoms, rets, what):
    if tree[0] == 'if':
        return '(if %s then %s else %s)' % (_btext(tree[1], atoms, what), _gallina(tree[2], atoms, rets, what),
                                            _gallina(tree[3], atoms, rets, what))
    key = (tree[0], tree[1])
    if key not in rets:
        raise TranslateError('%s: unrecognised outcome %r' % (what, key))
    return rets[key]


def _decision(fn, what):
    return _tree(_stmts(fn), {}, what)



def flat_parent_first(repo):
    fn = find_function(_parse(repo, 'spyne/model/complex.py'), ['_get_flat_type_info'])
    st = _stmts(fn)
    rec = _index(st, 'if not parent is None:\n    _get_flat_type_info(parent, retval)', '_get_flat_type_info')
    upd = _index(st, 'retval.update(cls._type_info)', '_get_flat_type_info')
    par = _index(st, "parent = getattr(cls, '__extends__', None)", '_get_flat_type_info')
    if not par < min(rec, upd):
        raise TranslateError('_get_flat_type_info: parent is read after it is used')
    return rec < upd


def xml_parent_first(repo):
    fn = find_function(_parse(repo, 'spyne/protocol/xml.py'), ['XmlDocument', '_get_members_etree'])
    st = _stmts(fn)
    if len(st) != 1 or not isinstance(st[0], ast.Try):
        raise TranslateError('_get_members_etree: body is not a single try')
    body = st[0].body
    rec = [i for i, s in enumerate(body) if isinstance(s, ast.If) and _u(s.test) == 'not parent_cls is None'
           and 'self._get_members_etree(ctx, parent_cls, inst, parent)' in _u(s)]
    loop = [i for i, s in enumerate(body) if isinstance(s, ast.For) and _u(s.iter) == 'cls._type_info.items()'
            and _u(s.target) == '(k, v)']
    if len(rec) != 1 or len(loop) != 1:
        raise TranslateError('_get_members_etree: parent recursion x%d, member loop x%d' % (len(rec), len(loop)))
    # the member value is read from the instance by name with a None default
    if "subvalue = getattr(inst, k, None)" not in _u(body[loop[0]]):
        raise TranslateError('_get_members_etree: members are not read with getattr(inst, k, None)')
    return rec[0] < loop[0]


GPT_ATOMS = {
    'self.polymorphic': 'poly',
    'inst.__class__ is (cls.__orig__ or cls)': 'same_cls',
    '(cls.__orig__ or cls) is inst.__class__': 'same_cls',
    'isinstance(inst, cls.__orig__ or cls)': 'is_inst',
    'self.get_cls_attrs(cls).polymap.get(inst.__class__, None) is None': 'map_none',
    'self.get_cls_attrs(cls).polymap.get(inst.__class__) is None': 'map_none',
}
GPT_RETS = {
    ('ret', '(cls, False)'): 'GDecl',
    ('ret', '(inst.__class__, True)'): 'GInst',
    ('ret', '(self.get_cls_attrs(cls).polymap.get(inst.__class__, None), True)'): 'GMap',
    ('ret', '(self.get_cls_attrs(cls).polymap.get(inst.__class__), True)'): 'GMap',
}


def gpt_term(repo):
    """get_polymorphic_target as a decision over (polymorphic, same class as the declared one's origin,
    instance of it, no polymap entry), after normalisation"""
    fn = find_function(_parse(repo, 'spyne/protocol/_base.py'), ['ProtocolMixin', 'get_polymorphic_target'])
    if [a.arg for a in fn.args.args] != ['self', 'cls', 'inst']:
        raise TranslateError('get_polymorphic_target: unrecognised signature')
    return _gallina(_decision(fn, 'get_polymorphic_target'), GPT_ATOMS, GPT_RETS, 'get_polymorphic_target')


def _evalb(n, atoms, env, what):
    t = _u(n)
    if t in atoms:
        a = atoms[t]
        return (not env[a[6:-1]]) if a.startswith('(negb ') else env[a]
    if isinstance(n, ast.BoolOp):
        vs = [_evalb(v, atoms, env, what) for v in n.values]
        return all(vs) if isinstance(n.op, ast.And) else any(vs)
    if isinstance(n, ast.UnaryOp) and isinstance(n.op, ast.Not):
        return not _evalb(n.operand, atoms, env, what)
    raise TranslateError('%s: unrecognised condition %r' % (what, t))


def _eval_tree(tree, atoms, rets, env, what):
    while tree[0] == 'if':
        tree = tree[2] if _evalb(tree[1], atoms, env, what) else tree[3]
    return rets[(tree[0], tree[1])]


def gpt(repo):
    """the three recorded facts, read off the decision function: the comparison class is the origin of the
    declared class (the atoms only exist in that form), an instance of exactly that class is not retyped,
    an instance of an unrelated class is not retyped"""
    gpt_term(repo)                  # fails closed on anything unrecognised
    fn = find_function(_parse(repo, 'spyne/protocol/_base.py'), ['ProtocolMixin', 'get_polymorphic_target'])
    tree = _decision(fn, 'get_polymorphic_target')
    ev = lambda **env: _eval_tree(tree, GPT_ATOMS, GPT_RETS, env, 'get_polymorphic_target')
    tf = (True, False)
    same = all(ev(poly=True, same_cls=True, is_inst=i, map_none=m) == 'GDecl' for i in tf for m in tf)
    isinst = all(ev(poly=True, same_cls=False, is_inst=False, map_none=m) == 'GDecl' for m in tf)
    return True, same, isinst


def sub_same_ns(repo):
    fn = find_function(_parse(repo, 'spyne/interface/_base.py'), ['Interface', 'add_class'])
    loops = [n for n in ast.walk(fn) if isinstance(n, ast.For) and _u(n.iter) == 'cls.Attributes._subclasses']
    if len(loops) != 1:
        raise TranslateError('add_class: loop over _subclasses x%d' % len(loops))
    body = loops[0].body
    if [_u(s) for s in body[:2]] != ['c.resolve_namespace(c, ns)', 'child_ns = c.get_namespace()'] or len(body) != 3:
        raise TranslateError('add_class: unrecognised subclass loop')
    iff = body[2]
    if not isinstance(iff, ast.If) or 'self.add_class(c, add_parent=False)' not in _u(ast.Module(body=iff.body, type_ignores=[])):
        raise TranslateError('add_class: subclass branch does not add the class')
    if any('add_class' in _u(s) for s in iff.orelse):
        raise TranslateError('add_class: else branch adds classes')
    t = _u(iff.test)
    if t == 'child_ns == ns':
        return True
    if t == 'child_ns != ns':
        return False
    raise TranslateError('add_class: unrecognised namespace test %r' % t)


def type_decl(repo):
    fn = find_function(_parse(repo, 'spyne/protocol/xml.py'), ['XmlDocument', 'gen_members_parent'])
    src = _u(fn)
    if "attrib[XSI_TYPE] = tnn" not in src:
        raise TranslateError('gen_members_parent: xsi:type is not written from get_type_name_ns')
    decl = 'nsmap = {cls.get_namespace_prefix(self.app.interface): cls.get_namespace()}'
    has_decl = False
    for n in ast.walk(fn):
        if isinstance(n, ast.If) and _u(n.test) == 'tnn != None':
            texts = [_u(s) for s in n.body]
            if 'attrib[XSI_TYPE] = tnn' not in texts:
                raise TranslateError('gen_members_parent: unrecognised tnn branch')
            has_decl = decl in texts
    sub = 'etree.SubElement(parent, tag_name, attrib=attrib, nsmap=nsmap)' in src
    sub_plain = 'etree.SubElement(parent, tag_name, attrib=attrib)' in src
    inc = 'parent.element(tag_name, attrib=attrib, nsmap=nsmap)' in src
    inc_plain = 'parent.element(tag_name, attrib=attrib)' in src
    if not (sub or sub_plain) or not (inc or inc_plain):
        raise TranslateError('gen_members_parent: unrecognised element construction')
    return has_decl and sub and inc


def type_keep(repo):
    xml = _parse(repo, 'spyne/protocol/xml.py')
    soap = _parse(repo, 'spyne/protocol/soap/soap11.py')
    ser_x = _u(find_function(xml, ['XmlDocument', 'serialize']))
    ser_s = _u(find_function(soap, ['Soap11', 'serialize']))
    own = 'self._cleanup_namespaces(ctx.out_document)'
    plain = 'etree.cleanup_namespaces(ctx.out_document)'
    for name, s in (('XmlDocument.serialize', ser_x), ('Soap11.serialize', ser_s)):
        if (own in s) == (plain in s):
            raise TranslateError('%s: unrecognised namespace clean-up' % name)
    if plain in ser_x or plain in ser_s:
        return False
    try:
        fn = find_function(xml, ['XmlDocument', '_cleanup_namespaces'])
    except TranslateError:
        raise TranslateError('_cleanup_namespaces is called but not defined')
    want = ['keep = set()',
            "for elt in document.iter(etree.Element):\n    xsi_type = elt.get(XSI_TYPE)\n"
            "    if xsi_type is not None and ':' in xsi_type:\n        keep.add(xsi_type.split(':', 1)[0])",
            'etree.cleanup_namespaces(document, keep_ns_prefixes=keep)']
    if [_u(s) for s in _stmts(fn)] != want:
        raise TranslateError('_cleanup_namespaces: unrecognised body')
    return True


def _xsi_block(cls_node, fn):
    """the statements executed when the element carries an xsi:type, with the final value bound to `cls`:
    the body of `if xsi_type is not None:` in from_element, or -- when that body only hands over to a
    private method of the same class -- the body of that method with `return E` read as `cls = E`"""
    blocks = [n for n in ast.walk(fn) if isinstance(n, ast.If) and _u(n.test) == 'xsi_type is not None']
    if len(blocks) != 1:
        raise TranslateError('from_element: no xsi:type handling found')
    body = [s for s in blocks[0].body if not (isinstance(s, ast.Expr) and isinstance(s.value, ast.Call)
                                              and _u(s.value.func).startswith('logger.'))]
    if len(body) == 1 and isinstance(body[0], ast.Assign) and _u(body[0].targets[0]) == 'cls' \
            and isinstance(body[0].value, ast.Call) and _u(body[0].value.func).startswith('self._') \
            and _u(body[0].value.func) != 'self._get_xsi_target':
        call = body[0].value
        name = _u(call.func)[5:]
        helpers = [m for m in cls_node.body if isinstance(m, ast.FunctionDef) and m.name == name]
        if len(helpers) != 1:
            raise TranslateError('from_element: helper %s not found in the class' % name)
        h = helpers[0]
        params = [a.arg for a in h.args.args]
        args = [_u(a) for a in call.args]
        if call.keywords or h.decorator_list or params[:1] != ['self'] or params[1:] != args or \
                not set(args) <= {'ctx', 'cls', 'element', 'xsi_type'}:
            raise TranslateError('from_element: helper %s is not called with the locals it names' % name)
        hb = _stmts(h)
        rets = [n for n in ast.walk(h) if isinstance(n, ast.Return)]
        if len(rets) != 1 or rets[0] is not hb[-1] or rets[0].value is None:
            raise TranslateError('from_element: helper %s does not end in its only return' % name)
        last = ast.Assign(targets=[ast.Name(id='cls', ctx=ast.Store())], value=rets[0].value)
        ast.fix_missing_locations(last)
        return hb[:-1] + [last], _u(fn) + '\n' + _u(h)
    return list(blocks[0].body), _u(fn)


def xsi_guard(repo):
    """does from_element hand the decision about the registered class to _get_xsi_target?"""
    tree = _parse(repo, 'spyne/protocol/xml.py')
    cls_node = [n for n in tree.body if isinstance(n, ast.ClassDef) and n.name == 'XmlDocument'][0]
    fn = find_function(tree, ['XmlDocument', 'from_element'])
    block, src = _xsi_block(cls_node, fn)
    for must in ("xsi_type = element.get(XSI_TYPE, None)", "ns = element.nsmap.get(prefix)",
                 "classkey = '{%s}%s' % (ns, objtype)", "newclass = ctx.app.interface.classes.get(classkey, None)",
                 "prefix, objtype = xsi_type.split(':', 1)", "prefix, objtype = (None, xsi_type)"):
        if must not in src:
            raise TranslateError('from_element: missing %r' % must)
    if "if self.parse_xsi_type:" not in src:
        raise TranslateError('from_element: parse_xsi_type is not consulted')
    for s in block:
        if isinstance(s, ast.If) and _u(s.test) == 'ns is not None':
            if [_u(x) for x in s.body] != ["classkey = '{%s}%s' % (ns, objtype)"] or \
                                            _u(s.orelse[-1]) != 'raise ValidationError(xsi_type)':
                raise TranslateError('from_element: unrecognised prefix lookup')
        if isinstance(s, ast.If) and _u(s.test) == 'newclass is None':
            if _u(s.body[-1]) != 'raise ValidationError(xsi_type)' or s.orelse:
                raise TranslateError('from_element: an unknown class key is not refused')
    texts = [(_u(s.test) if isinstance(s, ast.If) else _u(s)) for s in block]
    core = [t for t in texts if not t.startswith('logger.')]
    base = ["':' in xsi_type", 'ns = element.nsmap.get(prefix)', 'ns is not None',
            'newclass = ctx.app.interface.classes.get(classkey, None)', 'newclass is None']
    if core == base + ['cls = newclass']:
        return False
    if core == base + ['cls = self._get_xsi_target(cls, newclass, xsi_type)']:
        return True
    raise TranslateError('from_element: unrecognised xsi:type handling %r' % (core,))


_SUP = "getattr(cls, '__orig__', None) or cls"
_SUB = "getattr(newclass, '__orig__', None) or newclass"
_KEYS = '(newclass.get_namespace(), newclass.get_type_name()) %s (cls.get_namespace(), cls.get_type_name())'
XSI_ATOMS = {
    '(%s) is (%s)' % (_SUB, _SUP): 'same_orig',
    '(%s) is (%s)' % (_SUP, _SUB): 'same_orig',
    'issubclass(%s, Array)' % _SUP: 'sup_array',
    _KEYS % '==': 'same_key',
    _KEYS % '!=': '(negb same_key)',
    'issubclass(%s, ComplexModelBase)' % _SUP: 'sup_complex',
    'issubclass(%s, %s)' % (_SUB, _SUP): 'sub_of',
}
XSI_RETS = {('ret', 'cls'): '(Some false)', ('ret', 'newclass'): '(Some true)', ('raise', 'ValidationError'): 'None'}


def xsi_target(repo):
    """_get_xsi_target as a decision function of five facts about (declared class, registered class)"""
    tree = _parse(repo, 'spyne/protocol/xml.py')
    try:
        fn = find_function(tree, ['XmlDocument', '_get_xsi_target'])
    except TranslateError:
        # the tree without the helper: whatever the registry returns is taken
        return '(Some true)'
    if [a.arg for a in fn.args.args] != ['cls', 'newclass', 'xsi_type'] or \
                                    [_u(d) for d in fn.decorator_list] != ['staticmethod']:
        raise TranslateError('_get_xsi_target: unrecognised signature')
    return _gallina(_decision(fn, '_get_xsi_target'), XSI_ATOMS, XSI_RETS, '_get_xsi_target')


def memberless_base(repo):
    fn = find_function(_parse(repo, 'spyne/model/complex.py'), ['_get_type_info'])
    hits = [n for n in ast.walk(fn) if isinstance(n, ast.If) and 'issubclass(b, ModelBase)' in _u(n.test)]
    if len(hits) != 1 or "extends = cls_dict['__extends__'] = b" not in [_u(s) for s in hits[0].body]:
        raise TranslateError('_get_type_info: base class registration not found')
    t = _u(hits[0].test)
    if t == 'len(base_types) > 0 and issubclass(b, ModelBase)':
        return False
    if t == "(len(base_types) > 0 or getattr(b, '__extends__', None) is not None) and issubclass(b, ModelBase)":
        return True
    raise TranslateError('_get_type_info: unrecognised base class test %r' % t)


def soap_inplace(repo):
    fn = find_function(_parse(repo, 'spyne/protocol/soap/soap11.py'), ['Soap11', 'serialize'])
    src = _u(fn)
    env = "ctx.out_document = etree.Element('{%s}Envelope' % self.ns_soap_env, nsmap=nsmap)"
    if env not in src or 'nsmap = self.app.interface.nsmap' not in src:
        raise TranslateError('Soap11.serialize: unrecognised envelope construction')
    sub = "ctx.out_body_doc = out_body_doc = etree.SubElement(ctx.out_document, '{%s}Body' % self.ns_soap_env)"
    free = "ctx.out_body_doc = out_body_doc = etree.Element('{%s}Body' % self.ns_soap_env)"
    moved = 'ctx.out_document.append(ctx.out_body_doc)' in src or '.insert(' in src or '.extend(' in src
    hdr = "ctx.out_header_doc = soap_header_elt = etree.SubElement(ctx.out_document, '{%s}Header' % self.ns_soap_env)"
    if hdr not in src:
        raise TranslateError('Soap11.serialize: unrecognised header construction')
    if free in src and moved and sub not in src:
        return False
    if sub in src and free not in src and not moved:
        # the header element must be created before the body element (document order, nothing is moved)
        if src.index(hdr) > src.index(sub):
            raise TranslateError('Soap11.serialize: Header is created after Body')
        return True
    raise TranslateError('Soap11.serialize: unrecognised body construction')


def subclasses_rec(repo):
    fn = find_function(_parse(repo, 'spyne/model/complex.py'), ['ComplexModelBase', 'get_subclasses'])
    want = ['retval = []', 'subca = cls.Attributes._subclasses',
            'if subca is not None:\n    retval.extend(subca)\n    for subc in subca:\n        retval.extend(subc.get_subclasses())',
            'return retval']
    if [_u(s) for s in _stmts(fn)] != want:
        raise TranslateError('get_subclasses: not the recursion over every direct subclass: %r' % [_u(s) for s in _stmts(fn)])
    return True


def flat_fresh(repo):
    tree = _parse(repo, 'spyne/model/complex.py')
    fn = find_function(tree, ['ComplexModelBase', 'get_flat_type_info'])
    # what must hold: the accumulator handed to _get_flat_type_info is a TypeInfo() made for this call, it is
    # the object returned, and nothing else in the body calls _get_flat_type_info or rebinds the result
    st = _stmts(fn)
    call = '_get_flat_type_info(cls, TypeInfo())'
    calls = [n for n in ast.walk(fn) if isinstance(n, ast.Call) and _u(n.func) == '_get_flat_type_info']
    if len(calls) != 1 or _u(calls[0]) != call:
        raise TranslateError('get_flat_type_info: not exactly one call %s' % call)
    if [_u(s) for s in st] == ['return ' + call]:
        pass
    elif _u(st[0]) == 'retval = ' + call and _u(st[-1]) == 'return retval':
        for n in ast.walk(fn):
            if n is st[0]:
                continue
            tg = []
            if isinstance(n, ast.Assign):
                tg = n.targets
            elif isinstance(n, (ast.AugAssign, ast.AnnAssign)):
                tg = [n.target]
            elif isinstance(n, (ast.For, ast.comprehension)):
                tg = [n.target]
            for t in tg:
                if 'retval' in [x.id for x in ast.walk(t) if isinstance(x, ast.Name)] and not isinstance(t, (ast.Subscript, ast.Attribute)):
                    raise TranslateError('get_flat_type_info: the accumulator is rebound')
    else:
        raise TranslateError('get_flat_type_info: not a fresh TypeInfo per class')
    inner = find_function(tree, ['_get_flat_type_info'])
    got = [_u(s) for s in _stmts(inner)]
    core = [t for t in got if t.startswith(('parent =', 'if not parent', 'retval.update(', 'return '))]
    if sorted(core) != sorted(["parent = getattr(cls, '__extends__', None)",
                               'if not parent is None:\n    _get_flat_type_info(parent, retval)',
                               'retval.update(cls._type_info)', 'return retval']) or got[-1] != 'return retval':
        raise TranslateError('_get_flat_type_info: unrecognised accumulator handling %r' % (got,))
    if [a.arg for a in inner.args.args] != ['cls', 'retval']:
        raise TranslateError('_get_flat_type_info: unrecognised signature')
    return True


def generate(repo):
    b = lambda x: 'true' if x else 'false'
    orig, same, isinst = gpt(repo)
    vals = [flat_parent_first(repo), xml_parent_first(repo), orig, same, isinst, sub_same_ns(repo),
            type_decl(repo), type_keep(repo), xsi_guard(repo), memberless_base(repo), soap_inplace(repo), subclasses_rec(repo), flat_fresh(repo)]
    text = ('(** GENERATED by harness/translate/c16shape.py from the working tree; do not edit. *)\n'
            'From SpyneV Require Import C16.Model.\n'
            'Definition shape_src : xshape := mkshape %s.\n'
            '(** XmlDocument._get_xsi_target: None = ValidationError, Some false = the declared class,\n'
            '    Some true = the registered class the marker names *)\n'
            'Definition xsi_target_src (same_orig sup_array same_key sup_complex sub_of : bool) : option bool :=\n  %s.\n'
            '(** ProtocolMixin.get_polymorphic_target after normalisation: GDecl = (cls, False), GInst = (inst.__class__, True),\n'
            '    GMap = (the polymap entry, True) *)\n'
            'Definition gpt_src (poly same_cls is_inst map_none : bool) : gpt_res :=\n  %s.\n'
            % (' '.join(b(v) for v in vals), xsi_target(repo), gpt_term(repo)))
    return {'C16Shape.v': text}
