"""spyne/model/complex.py, spyne/protocol/_base.py, spyne/protocol/xml.py, spyne/protocol/soap/soap11.py,
spyne/interface/_base.py  ->  Gen/C16Shape.v

The handful of source facts that decide C16 (statement order, one comparison operator, one guard,
one keyword argument), read from the AST of the working tree and emitted as the record
[shape_src : xshape] of coq/C16/Model.v.  The model's functions take the record as a parameter
and Props/C16.v states its theorems over [shape_src], so an edit of one of these tokens changes a
proof obligation.  Fail closed: a function that is missing, or a statement that is neither the
recognised form nor recognisably absent, raises TranslateError."""
import ast, os
from .pyexpr import TranslateError, find_function


def _parse(repo, rel):
    p = os.path.join(repo, rel)
    with open(p) as f:
        return ast.parse(f.read())


def _u(n):
    return ast.unparse(n)


def _stmts(fn):
    return [s for s in fn.body if not (isinstance(s, ast.Expr) and isinstance(s.value, ast.Constant)
                                       and isinstance(s.value.value, str))]


def _index(stmts, text, what):
    hits = [i for i, s in enumerate(stmts) if _u(s) == text]
    if len(hits) != 1:
        raise TranslateError('%s: expected exactly one statement %r, found %d' % (what, text, len(hits)))
    return hits[0]


def flat_parent_first(repo):
    fn = find_function(_parse(repo, 'spyne/model/complex.py'), ['_get_flat_type_info'])
    st = _stmts(fn)
    rec = _index(st, 'if not parent is None:\n    _get_flat_type_info(parent, retval)', '_get_flat_type_info')
    upd = _index(st, 'retval.update(cls._type_info)', '_get_flat_type_info')
    par = _index(st, "parent = getattr(cls, '__extends__', None)", '_get_flat_type_info')
    if not par < min(rec, upd):
        raise TranslateError('_get_flat_type_info: parent is read after it is used')
    return rec < upd


def xml_parent_first(repo):
    fn = find_function(_parse(repo, 'spyne/protocol/xml.py'), ['XmlDocument', '_get_members_etree'])
    st = _stmts(fn)
    if len(st) != 1 or not isinstance(st[0], ast.Try):
        raise TranslateError('_get_members_etree: body is not a single try')
    body = st[0].body
    rec = [i for i, s in enumerate(body) if isinstance(s, ast.If) and _u(s.test) == 'not parent_cls is None'
           and 'self._get_members_etree(ctx, parent_cls, inst, parent)' in _u(s)]
    loop = [i for i, s in enumerate(body) if isinstance(s, ast.For) and _u(s.iter) == 'cls._type_info.items()'
            and _u(s.target) == '(k, v)']
    if len(rec) != 1 or len(loop) != 1:
        raise TranslateError('_get_members_etree: parent recursion x%d, member loop x%d' % (len(rec), len(loop)))
    # the member value is read from the instance by name with a None default
    if "subvalue = getattr(inst, k, None)" not in _u(body[loop[0]]):
        raise TranslateError('_get_members_etree: members are not read with getattr(inst, k, None)')
    return rec[0] < loop[0]


def gpt(repo):
    fn = find_function(_parse(repo, 'spyne/protocol/_base.py'), ['ProtocolMixin', 'get_polymorphic_target'])
    st = _stmts(fn)
    orig = same = isinst = False
    seen_np = False
    tail = []
    for s in st:
        t = _u(s)
        if isinstance(s, ast.If) and _u(s.test) == 'not self.polymorphic':
            if _u(s.body[-1]) != 'return (cls, False)' or s.orelse:
                raise TranslateError('get_polymorphic_target: unexpected non-polymorphic branch')
            seen_np = True
        elif t == 'orig_cls = cls.__orig__ or cls':
            orig = True
        elif isinstance(s, ast.Assign) and _u(s.targets[0]) == 'orig_cls':
            if t != 'orig_cls = cls':
                raise TranslateError('get_polymorphic_target: unrecognised orig_cls: %s' % t)
        elif isinstance(s, ast.If) and _u(s.test) == 'inst.__class__ is orig_cls':
            if _u(s.body[-1]) != 'return (cls, False)' or s.orelse:
                raise TranslateError('get_polymorphic_target: unexpected same-class branch')
            same = True
        elif isinstance(s, ast.If) and _u(s.test) == 'not isinstance(inst, orig_cls)':
            if _u(s.body[-1]) != 'return (cls, False)' or s.orelse:
                raise TranslateError('get_polymorphic_target: unexpected not-a-subclass branch')
            isinst = True
        else:
            tail.append(t)
    want_tail = ['cls_attr = self.get_cls_attrs(cls)', 'polymap_cls = cls_attr.polymap.get(inst.__class__, None)']
    if not seen_np or tail[:2] != want_tail or len(tail) != 3:
        raise TranslateError('get_polymorphic_target: unrecognised statements %r' % (tail,))
    last = st[-1]
    if not (isinstance(last, ast.If) and _u(last.test) == 'polymap_cls is not None'
            and _u(last.body[-1]) == 'return (polymap_cls, True)' and _u(last.orelse[-1]) == 'return (inst.__class__, True)'):
        raise TranslateError('get_polymorphic_target: unrecognised final branch')
    return orig, same, isinst


def sub_same_ns(repo):
    fn = find_function(_parse(repo, 'spyne/interface/_base.py'), ['Interface', 'add_class'])
    loops = [n for n in ast.walk(fn) if isinstance(n, ast.For) and _u(n.iter) == 'cls.Attributes._subclasses']
    if len(loops) != 1:
        raise TranslateError('add_class: loop over _subclasses x%d' % len(loops))
    body = loops[0].body
    if [_u(s) for s in body[:2]] != ['c.resolve_namespace(c, ns)', 'child_ns = c.get_namespace()'] or len(body) != 3:
        raise TranslateError('add_class: unrecognised subclass loop')
    iff = body[2]
    if not isinstance(iff, ast.If) or 'self.add_class(c, add_parent=False)' not in _u(ast.Module(body=iff.body, type_ignores=[])):
        raise TranslateError('add_class: subclass branch does not add the class')
    if any('add_class' in _u(s) for s in iff.orelse):
        raise TranslateError('add_class: else branch adds classes')
    t = _u(iff.test)
    if t == 'child_ns == ns':
        return True
    if t == 'child_ns != ns':
        return False
    raise TranslateError('add_class: unrecognised namespace test %r' % t)


def type_decl(repo):
    fn = find_function(_parse(repo, 'spyne/protocol/xml.py'), ['XmlDocument', 'gen_members_parent'])
    src = _u(fn)
    if "attrib[XSI_TYPE] = tnn" not in src:
        raise TranslateError('gen_members_parent: xsi:type is not written from get_type_name_ns')
    decl = 'nsmap = {cls.get_namespace_prefix(self.app.interface): cls.get_namespace()}'
    has_decl = False
    for n in ast.walk(fn):
        if isinstance(n, ast.If) and _u(n.test) == 'tnn != None':
            texts = [_u(s) for s in n.body]
            if 'attrib[XSI_TYPE] = tnn' not in texts:
                raise TranslateError('gen_members_parent: unrecognised tnn branch')
            has_decl = decl in texts
    sub = 'etree.SubElement(parent, tag_name, attrib=attrib, nsmap=nsmap)' in src
    sub_plain = 'etree.SubElement(parent, tag_name, attrib=attrib)' in src
    inc = 'parent.element(tag_name, attrib=attrib, nsmap=nsmap)' in src
    inc_plain = 'parent.element(tag_name, attrib=attrib)' in src
    if not (sub or sub_plain) or not (inc or inc_plain):
        raise TranslateError('gen_members_parent: unrecognised element construction')
    return has_decl and sub and inc


def type_keep(repo):
    xml = _parse(repo, 'spyne/protocol/xml.py')
    soap = _parse(repo, 'spyne/protocol/soap/soap11.py')
    ser_x = _u(find_function(xml, ['XmlDocument', 'serialize']))
    ser_s = _u(find_function(soap, ['Soap11', 'serialize']))
    own = 'self._cleanup_namespaces(ctx.out_document)'
    plain = 'etree.cleanup_namespaces(ctx.out_document)'
    for name, s in (('XmlDocument.serialize', ser_x), ('Soap11.serialize', ser_s)):
        if (own in s) == (plain in s):
            raise TranslateError('%s: unrecognised namespace clean-up' % name)
    if plain in ser_x or plain in ser_s:
        return False
    try:
        fn = find_function(xml, ['XmlDocument', '_cleanup_namespaces'])
    except TranslateError:
        raise TranslateError('_cleanup_namespaces is called but not defined')
    want = ['keep = set()',
            "for elt in document.iter(etree.Element):\n    xsi_type = elt.get(XSI_TYPE)\n"
            "    if xsi_type is not None and ':' in xsi_type:\n        keep.add(xsi_type.split(':', 1)[0])",
            'etree.cleanup_namespaces(document, keep_ns_prefixes=keep)']
    if [_u(s) for s in _stmts(fn)] != want:
        raise TranslateError('_cleanup_namespaces: unrecognised body')
    return True


def xsi_guard(repo):
    """does from_element hand the decision about the registered class to _get_xsi_target?"""
    fn = find_function(_parse(repo, 'spyne/protocol/xml.py'), ['XmlDocument', 'from_element'])
    src = _u(fn)
    for must in ("xsi_type = element.get(XSI_TYPE, None)", "ns = element.nsmap.get(prefix)",
                 "classkey = '{%s}%s' % (ns, objtype)", "newclass = ctx.app.interface.classes.get(classkey, None)",
                 "prefix, objtype = xsi_type.split(':', 1)", "prefix, objtype = (None, xsi_type)"):
        if must not in src:
            raise TranslateError('from_element: missing %r' % must)
    for n in ast.walk(fn):
        if isinstance(n, ast.If) and _u(n.test) == 'xsi_type is not None':
            for s in n.body:
                if isinstance(s, ast.If) and _u(s.test) == 'ns is not None':
                    if [_u(x) for x in s.body] != ["classkey = '{%s}%s' % (ns, objtype)"] or \
                                                    _u(s.orelse[-1]) != 'raise ValidationError(xsi_type)':
                        raise TranslateError('from_element: unrecognised prefix lookup')
                if isinstance(s, ast.If) and _u(s.test) == 'newclass is None':
                    if _u(s.body[-1]) != 'raise ValidationError(xsi_type)' or s.orelse:
                        raise TranslateError('from_element: an unknown class key is not refused')
            texts = [(_u(s.test) if isinstance(s, ast.If) else _u(s)) for s in n.body]
            core = [t for t in texts if not t.startswith('logger.')]
            base = ["':' in xsi_type", 'ns = element.nsmap.get(prefix)', 'ns is not None',
                    'newclass = ctx.app.interface.classes.get(classkey, None)', 'newclass is None']
            if core == base + ['cls = newclass']:
                return False
            if core == base + ['cls = self._get_xsi_target(cls, newclass, xsi_type)']:
                return True
            raise TranslateError('from_element: unrecognised xsi:type handling %r' % (core,))
    raise TranslateError('from_element: no xsi:type handling found')


XSI_ATOMS = {
    'sub is sup': 'same_orig',
    'issubclass(sup, Array)': 'sup_array',
    '(newclass.get_namespace(), newclass.get_type_name()) != (cls.get_namespace(), cls.get_type_name())': '(negb same_key)',
    '(newclass.get_namespace(), newclass.get_type_name()) == (cls.get_namespace(), cls.get_type_name())': 'same_key',
    'issubclass(sup, ComplexModelBase)': 'sup_complex',
    'issubclass(sub, sup)': 'sub_of',
}


def _bexpr(n):
    t = _u(n)
    if t in XSI_ATOMS:
        return XSI_ATOMS[t]
    if isinstance(n, ast.BoolOp):
        op = ' && ' if isinstance(n.op, ast.And) else ' || '
        return '(' + op.join(_bexpr(v) for v in n.values) + ')'
    if isinstance(n, ast.UnaryOp) and isinstance(n.op, ast.Not):
        return '(negb %s)' % _bexpr(n.operand)
    raise TranslateError('_get_xsi_target: unrecognised condition %r' % t)


def _block(stmts):
    """statements -> Gallina term of type option bool: None = ValidationError, Some false = the declared
    class, Some true = the registered class named by the marker"""
    if not stmts:
        raise TranslateError('_get_xsi_target: a path falls off the end of the function')
    s, rest = stmts[0], stmts[1:]
    t = _u(s)
    if t == 'return cls':
        return '(Some false)'
    if t == 'return newclass':
        return '(Some true)'
    if t == 'raise ValidationError(xsi_type)':
        return 'None'
    if isinstance(s, ast.If):
        return '(if %s then %s else %s)' % (_bexpr(s.test), _block(list(s.body) + rest), _block(list(s.orelse) + rest))
    raise TranslateError('_get_xsi_target: unrecognised statement %r' % t)


def xsi_target(repo):
    """_get_xsi_target as a decision function of five facts about (declared class, registered class)"""
    tree = _parse(repo, 'spyne/protocol/xml.py')
    try:
        fn = find_function(tree, ['XmlDocument', '_get_xsi_target'])
    except TranslateError:
        # the tree without the helper: whatever the registry returns is taken
        return '(Some true)'
    if [a.arg for a in fn.args.args] != ['cls', 'newclass', 'xsi_type'] or \
                                    [_u(d) for d in fn.decorator_list] != ['staticmethod']:
        raise TranslateError('_get_xsi_target: unrecognised signature')
    st = _stmts(fn)
    if [_u(x) for x in st[:2]] != ["sup = getattr(cls, '__orig__', None) or cls",
                                   "sub = getattr(newclass, '__orig__', None) or newclass"]:
        raise TranslateError('_get_xsi_target: sup / sub are not the __orig__ of the two classes')
    return _block(st[2:])


def memberless_base(repo):
    fn = find_function(_parse(repo, 'spyne/model/complex.py'), ['_get_type_info'])
    hits = [n for n in ast.walk(fn) if isinstance(n, ast.If) and 'issubclass(b, ModelBase)' in _u(n.test)]
    if len(hits) != 1 or "extends = cls_dict['__extends__'] = b" not in [_u(s) for s in hits[0].body]:
        raise TranslateError('_get_type_info: base class registration not found')
    t = _u(hits[0].test)
    if t == 'len(base_types) > 0 and issubclass(b, ModelBase)':
        return False
    if t == "(len(base_types) > 0 or getattr(b, '__extends__', None) is not None) and issubclass(b, ModelBase)":
        return True
    raise TranslateError('_get_type_info: unrecognised base class test %r' % t)


def soap_inplace(repo):
    fn = find_function(_parse(repo, 'spyne/protocol/soap/soap11.py'), ['Soap11', 'serialize'])
    src = _u(fn)
    env = "ctx.out_document = etree.Element('{%s}Envelope' % self.ns_soap_env, nsmap=nsmap)"
    if env not in src or 'nsmap = self.app.interface.nsmap' not in src:
        raise TranslateError('Soap11.serialize: unrecognised envelope construction')
    sub = "ctx.out_body_doc = out_body_doc = etree.SubElement(ctx.out_document, '{%s}Body' % self.ns_soap_env)"
    free = "ctx.out_body_doc = out_body_doc = etree.Element('{%s}Body' % self.ns_soap_env)"
    moved = 'ctx.out_document.append(ctx.out_body_doc)' in src or '.insert(' in src or '.extend(' in src
    hdr = "ctx.out_header_doc = soap_header_elt = etree.SubElement(ctx.out_document, '{%s}Header' % self.ns_soap_env)"
    if hdr not in src:
        raise TranslateError('Soap11.serialize: unrecognised header construction')
    if free in src and moved and sub not in src:
        return False
    if sub in src and free not in src and not moved:
        # the header element must be created before the body element (document order, nothing is moved)
        if src.index(hdr) > src.index(sub):
            raise TranslateError('Soap11.serialize: Header is created after Body')
        return True
    raise TranslateError('Soap11.serialize: unrecognised body construction')


def subclasses_rec(repo):
    fn = find_function(_parse(repo, 'spyne/model/complex.py'), ['ComplexModelBase', 'get_subclasses'])
    want = ['retval = []', 'subca = cls.Attributes._subclasses',
            'if subca is not None:\n    retval.extend(subca)\n    for subc in subca:\n        retval.extend(subc.get_subclasses())',
            'return retval']
    if [_u(s) for s in _stmts(fn)] != want:
        raise TranslateError('get_subclasses: not the recursion over every direct subclass: %r' % [_u(s) for s in _stmts(fn)])
    return True


def flat_fresh(repo):
    tree = _parse(repo, 'spyne/model/complex.py')
    fn = find_function(tree, ['ComplexModelBase', 'get_flat_type_info'])
    # what must hold: the accumulator handed to _get_flat_type_info is a TypeInfo() made for this call, it is
    # the object returned, and nothing else in the body calls _get_flat_type_info or rebinds the result
    st = _stmts(fn)
    call = '_get_flat_type_info(cls, TypeInfo())'
    calls = [n for n in ast.walk(fn) if isinstance(n, ast.Call) and _u(n.func) == '_get_flat_type_info']
    if len(calls) != 1 or _u(calls[0]) != call:
        raise TranslateError('get_flat_type_info: not exactly one call %s' % call)
    if [_u(s) for s in st] == ['return ' + call]:
        pass
    elif _u(st[0]) == 'retval = ' + call and _u(st[-1]) == 'return retval':
        for n in ast.walk(fn):
            if n is st[0]:
                continue
            tg = []
            if isinstance(n, ast.Assign):
                tg = n.targets
            elif isinstance(n, (ast.AugAssign, ast.AnnAssign)):
                tg = [n.target]
            elif isinstance(n, (ast.For, ast.comprehension)):
                tg = [n.target]
            for t in tg:
                if 'retval' in [x.id for x in ast.walk(t) if isinstance(x, ast.Name)] and not isinstance(t, (ast.Subscript, ast.Attribute)):
                    raise TranslateError('get_flat_type_info: the accumulator is rebound')
    else:
        raise TranslateError('get_flat_type_info: not a fresh TypeInfo per class')
    inner = find_function(tree, ['_get_flat_type_info'])
    got = [_u(s) for s in _stmts(inner)]
    core = [t for t in got if t.startswith(('parent =', 'if not parent', 'retval.update(', 'return '))]
    if sorted(core) != sorted(["parent = getattr(cls, '__extends__', None)",
                               'if not parent is None:\n    _get_flat_type_info(parent, retval)',
                               'retval.update(cls._type_info)', 'return retval']) or got[-1] != 'return retval':
        raise TranslateError('_get_flat_type_info: unrecognised accumulator handling %r' % (got,))
    if [a.arg for a in inner.args.args] != ['cls', 'retval']:
        raise TranslateError('_get_flat_type_info: unrecognised signature')
    return True


def generate(repo):
    b = lambda x: 'true' if x else 'false'
    orig, same, isinst = gpt(repo)
    vals = [flat_parent_first(repo), xml_parent_first(repo), orig, same, isinst, sub_same_ns(repo),
            type_decl(repo), type_keep(repo), xsi_guard(repo), memberless_base(repo), soap_inplace(repo), subclasses_rec(repo), flat_fresh(repo)]
    text = ('(** GENERATED by harness/translate/c16shape.py from the working tree; do not edit. *)\n'
            'From SpyneV Require Import C16.Model.\n'
            'Definition shape_src : xshape := mkshape %s.\n'
            '(** XmlDocument._get_xsi_target: None = ValidationError, Some false = the declared class,\n'
            '    Some true = the registered class the marker names *)\n'
            'Definition xsi_target_src (same_orig sup_array same_key sup_complex sub_of : bool) : option bool :=\n  %s.\n'
            % (' '.join(b(v) for v in vals), xsi_target(repo)))
    return {'C16Shape.v': text}
