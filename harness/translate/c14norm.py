"""Normal form of small Python functions, for comparing what the source says with a reference
implementation *up to behaviour-preserving rewrites* (helper of translate/pipeline.py; not a
translator itself).

normal(fn, consts) -> ast.dump text of the function body after:
  * dropping docstrings, bare string statements, `pass`, comments (not in the AST anyway);
  * substituting module-level integer constants (KEY, PREV, NEXT = list(range(3)) / = 0, 1, 2);
  * `**{'k': v}`  ->  k=v  in calls;
  * a guard at the end of a block:  `if C: return` + REST  ->  `if not C: REST`   (function tail),
                                    `if C: continue` + REST  ->  `if not C: REST`  (loop-body tail),
    with `not (x is None)` -> `x is not None`, `not (a in b)` -> `a not in b`, and back;
  * a local bound once to a call-free-or-lookup expression and used once, as the iterable of the
    `for` statement that immediately follows, is inlined there;
  * parameters renamed by position, locals by order of first binding.
Two functions with the same normal form compute the same thing (each step preserves behaviour
for functions that do not inspect their own locals)."""
import ast, copy


class NormError(Exception):
    pass


def eval_const(n):
    """value of a constant expression built from int literals, tuples/lists, list(), tuple(), range()"""
    if isinstance(n, ast.Constant) and isinstance(n.value, int) and not isinstance(n.value, bool):
        return n.value
    if isinstance(n, (ast.Tuple, ast.List)):
        return [eval_const(x) for x in n.elts]
    if isinstance(n, ast.Call) and isinstance(n.func, ast.Name) and not n.keywords:
        args = [eval_const(a) for a in n.args]
        if n.func.id in ('list', 'tuple') and len(args) == 1 and isinstance(args[0], list):
            return list(args[0])
        if n.func.id == 'range' and 1 <= len(args) <= 3 and all(isinstance(a, int) for a in args):
            return list(range(*args))
    raise NormError('not a constant expression: %s' % ast.unparse(n))


def module_int_constants(tree):
    """{name: int} for module-level `a, b, c = <constant expression>` / `a = <int>`"""
    out = {}
    for st in tree.body:
        if not isinstance(st, ast.Assign) or len(st.targets) != 1:
            continue
        t = st.targets[0]
        try:
            v = eval_const(st.value)
        except NormError:
            continue
        if isinstance(t, ast.Name) and isinstance(v, int):
            out[t.id] = v
        elif isinstance(t, (ast.Tuple, ast.List)) and isinstance(v, list) and len(v) == len(t.elts) \
                and all(isinstance(x, ast.Name) for x in t.elts) and all(isinstance(x, int) for x in v):
            for x, y in zip(t.elts, v):
                out[x.id] = y
    return out


def negate(c):
    if isinstance(c, ast.UnaryOp) and isinstance(c.op, ast.Not):
        return c.operand
    if isinstance(c, ast.Compare) and len(c.ops) == 1:
        flip = {ast.Is: ast.IsNot, ast.IsNot: ast.Is, ast.In: ast.NotIn, ast.NotIn: ast.In,
                ast.Eq: ast.NotEq, ast.NotEq: ast.Eq}
        for a, b in flip.items():
            if isinstance(c.ops[0], a):
                return ast.Compare(left=c.left, ops=[b()], comparators=c.comparators)
    return ast.UnaryOp(op=ast.Not(), operand=c)


def is_doc(st):
    return isinstance(st, ast.Expr) and isinstance(st.value, ast.Constant) and isinstance(st.value.value, str)


def clean_block(stmts, tail_kind):
    """tail_kind: 'return' (function tail), 'continue' (loop body tail) or None"""
    body = [s for s in stmts if not is_doc(s) and not isinstance(s, ast.Pass)]
    out = []
    i = 0
    while i < len(body):
        st = body[i]
        rest = body[i + 1:]
        if isinstance(st, ast.If) and not st.orelse and len(st.body) == 1 and rest and tail_kind is not None:
            g = st.body[0]
            guard = (tail_kind == 'return' and isinstance(g, ast.Return) and g.value is None) or \
                    (tail_kind == 'continue' and isinstance(g, ast.Continue))
            if guard:
                new = ast.If(test=negate(st.test), body=clean_block(rest, tail_kind), orelse=[])
                out.append(new)
                return out
        out.append(clean_stmt(st, tail_kind if i == len(body) - 1 else None))
        i += 1
    return out


def clean_stmt(st, tail_kind):
    st = copy.copy(st)
    if isinstance(st, ast.If):
        st.body = clean_block(st.body, tail_kind)
        st.orelse = clean_block(st.orelse, tail_kind)
        # canonical polarity: `x is not None` / `in` tests first when there is an else branch
    elif isinstance(st, (ast.For, ast.While)):
        st.body = clean_block(st.body, 'continue')
        st.orelse = clean_block(st.orelse, None)
    elif isinstance(st, ast.Try):
        st.body = clean_block(st.body, None)
        st.handlers = [copy.copy(h) for h in st.handlers]
        for h in st.handlers:
            h.body = clean_block(h.body, None)
        st.orelse = clean_block(st.orelse, None)
        st.finalbody = clean_block(st.finalbody, None)
    return st


class _Subst(ast.NodeTransformer):
    def __init__(self, consts):
        self.consts = consts

    def visit_Name(self, n):
        if isinstance(n.ctx, ast.Load) and n.id in self.consts:
            return ast.copy_location(ast.Constant(value=self.consts[n.id]), n)
        return n

    def visit_Call(self, n):
        self.generic_visit(n)
        kws = []
        for k in n.keywords:
            if k.arg is None and isinstance(k.value, ast.Dict) and \
                    all(isinstance(x, ast.Constant) and isinstance(x.value, str) and x.value.isidentifier()
                        for x in k.value.keys):
                kws.extend(ast.keyword(arg=x.value, value=v) for x, v in zip(k.value.keys, k.value.values))
            else:
                kws.append(k)
        n.keywords = kws
        return n


def bound_names(stmts):
    """locals in order of first binding (assignment targets, loop targets, with/except names)"""
    order = []

    def add(t):
        if isinstance(t, ast.Name):
            if t.id not in order:
                order.append(t.id)
        elif isinstance(t, (ast.Tuple, ast.List)):
            for x in t.elts:
                add(x)
        elif isinstance(t, ast.Starred):
            add(t.value)

    class V(ast.NodeVisitor):
        def visit_Assign(self, n):
            self.visit(n.value)
            for t in n.targets:
                add(t)

        def visit_AugAssign(self, n):
            self.visit(n.value)
            add(n.target)

        def visit_For(self, n):
            self.visit(n.iter)
            add(n.target)
            for s in n.body + n.orelse:
                self.visit(s)

        def visit_ExceptHandler(self, n):
            if n.name and n.name not in order:
                order.append(n.name)
            for s in n.body:
                self.visit(s)

        def visit_comprehension(self, n):
            self.visit(n.iter)
            add(n.target)
            for i in n.ifs:
                self.visit(i)
    v = V()
    for s in stmts:
        v.visit(s)
    return order


def inline_iterables(stmts):
    """v = E ; for x in v: ...   with v bound once and used once   ->   for x in E: ..."""
    def uses(name, nodes):
        return sum(1 for s in nodes for x in ast.walk(s) if isinstance(x, ast.Name) and x.id == name)

    def simple(e):
        for x in ast.walk(e):
            if isinstance(x, ast.Call):
                f = x.func
                ok = (isinstance(f, ast.Attribute) and f.attr in ('get', 'items', 'keys', 'values')) or \
                     (isinstance(f, ast.Name) and f.id in ('oset', 'getattr', 'dict', 'list', 'tuple'))
                if not ok:
                    return False
            elif isinstance(x, (ast.Yield, ast.Await, ast.Lambda, ast.NamedExpr)):
                return False
        return True

    def walk_block(block, whole):
        out = []
        i = 0
        while i < len(block):
            st = block[i]
            if isinstance(st, ast.Assign) and len(st.targets) == 1 and isinstance(st.targets[0], ast.Name) \
                    and i + 1 < len(block) and isinstance(block[i + 1], ast.For) \
                    and isinstance(block[i + 1].iter, ast.Name) and block[i + 1].iter.id == st.targets[0].id \
                    and uses(st.targets[0].id, whole) == 2 and simple(st.value):
                f = copy.copy(block[i + 1])
                f.iter = st.value
                block = block[:i] + [f] + block[i + 2:]
                continue
            for fld in ('body', 'orelse', 'finalbody'):
                if hasattr(st, fld) and isinstance(getattr(st, fld), list):
                    st = copy.copy(st)
                    setattr(st, fld, walk_block(getattr(st, fld), whole))
            out.append(st)
            i += 1
        return out
    return walk_block(list(stmts), stmts)


class _Rename(ast.NodeTransformer):
    def __init__(self, m):
        self.m = m

    def visit_Name(self, n):
        if n.id in self.m:
            return ast.copy_location(ast.Name(id=self.m[n.id], ctx=n.ctx), n)
        return n

    def visit_ExceptHandler(self, n):
        self.generic_visit(n)
        if n.name in self.m:
            n.name = self.m[n.name]
        return n


def normal(fn, consts=None):
    """normal form (text) of a FunctionDef"""
    fn = copy.deepcopy(fn)
    body = clean_block(fn.body, 'return')
    mod = ast.Module(body=body, type_ignores=[])
    mod = _Subst(consts or {}).visit(mod)
    body = inline_iterables(mod.body)
    a = fn.args
    if a.kwonlyargs or a.posonlyargs:
        raise NormError('unsupported parameter kinds')
    ren = {}
    for i, p in enumerate(a.args):
        ren[p.arg] = 'p%d' % i
    if a.vararg:
        ren[a.vararg.arg] = 'pa'
    if a.kwarg:
        ren[a.kwarg.arg] = 'pk'
    for n in bound_names(body):
        if n not in ren:
            ren[n] = 'v%d' % len([k for k in ren.values() if k.startswith('v')])
    mod = ast.Module(body=body, type_ignores=[])
    mod = _Rename(ren).visit(mod)
    ast.fix_missing_locations(mod)
    sig = (len(a.args), bool(a.vararg), bool(a.kwarg), len(a.defaults))
    return '%r\n%s' % (sig, ast.unparse(mod))


def normal_src(src, consts=None):
    """normal form of a reference implementation given as source text (one def)"""
    t = ast.parse(src)
    if len(t.body) != 1 or not isinstance(t.body[0], ast.FunctionDef):
        raise NormError('reference is not a single def')
    return normal(t.body[0], consts)
