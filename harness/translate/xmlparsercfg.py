"""spyne/protocol/{xml,_inbase}.py, spyne/protocol/soap/{soap11,soap12,mime}.py -> Gen/XmlParserCfg.v

Emits, from the *source text* of the working tree:

* ``init_defaults``    the keyword defaults of ``XmlDocument.__init__`` that feed
                       the parser options;
* ``parser_kwargs_src`` the ``self.parser_kwargs = dict(...)`` assignment, each
                       value either the ``__init__`` parameter of some name or a
                       literal;
* ``parse_sites``      every ``etree.fromstring / XML / XMLID / parse / iterparse``
                       and ``html.*`` parse call in those files: where it is, how
                       its parser argument is obtained (followed through function
                       parameters to the callers), whether it sits inside
                       ``try: ... except XMLSyntaxError: raise Fault('Client.XMLSyntaxError', ..)``
                       and which role it plays.

Fail closed: any shape not recognised exactly raises TranslateError.  A parse
call in a function this file does not know is treated as a *request* site (so
it has to be safe), never silently ignored.
"""
import ast, os
from .pyexpr import TranslateError, attr_chain

FILES = ['spyne/protocol/xml.py', 'spyne/protocol/soap/soap11.py', 'spyne/protocol/soap/soap12.py',
         'spyne/protocol/soap/mime.py', 'spyne/protocol/_inbase.py']

KWS = ['attribute_defaults', 'dtd_validation', 'load_dtd', 'no_network', 'ns_clean', 'recover',
       'remove_blank_text', 'remove_comments', 'remove_pis', 'strip_cdata', 'resolve_entities',
       'huge_tree', 'compact', 'encoding', 'collect_ids', 'schema', 'target', 'decompress']

# parse entry points of lxml: attribute name -> index of the positional `parser` argument
ETREE_PARSE = {'fromstring': 1, 'XML': 1, 'XMLID': 1, 'parse': 1, 'iterparse': None, 'fromstringlist': 1,
               'XMLDTDID': 1, 'HTML': 1}
HTML_PARSE = {'fromstring', 'parse', 'fragment_fromstring', 'fragments_fromstring', 'document_fromstring'}

# functions whose parse calls do not read request bytes (everything else is a request site)
ROLES = {
    ('spyne/protocol/xml.py', 'XmlDocument.schema_validation_error_to_parent'): 'Output',
    ('spyne/protocol/xml.py', 'XmlDocument.any_xml_to_parent'): 'Output',
    ('spyne/protocol/xml.py', 'XmlDocument.any_html_to_parent'): 'Output',
    ('spyne/protocol/soap/mime.py', 'apply_mtom'): 'Output',
    ('spyne/protocol/_inbase.py', 'InProtocolBase.any_xml_from_bytes'): 'OtherProtocol',
    ('spyne/protocol/_inbase.py', 'InProtocolBase.any_html_from_bytes'): 'OtherProtocol',
}


def pyval(node, where):
    if isinstance(node, ast.Constant):
        v = node.value
        if v is True:
            return '(PVBool true)'
        if v is False:
            return '(PVBool false)'
        if v is None:
            return 'PVNone'
        if isinstance(v, str):
            if v == 'internal':
                return 'PVInternal'
            if v:
                return 'PVStr'
        if isinstance(v, int) and v in (0, 1):
            return '(PVBool %s)' % ('true' if v else 'false')
    raise TranslateError('%s: parser option value is not a True/False/None/str literal: %s'
                         % (where, ast.dump(node)[:80]))


def coq_str(s):
    return '"%s"' % s.replace('"', '""')


class Tree(object):
    """one parsed source file with parent links and qualified function names"""

    def __init__(self, repo, rel):
        self.rel = rel
        path = os.path.join(repo, rel)
        self.tree = ast.parse(open(path).read(), path)
        self.parent = {}
        self.qual = {}
        self._walk(self.tree, None, [])

    def _walk(self, n, parent, stack):
        self.parent[n] = parent
        if isinstance(n, (ast.FunctionDef, ast.ClassDef, ast.AsyncFunctionDef)):
            stack = stack + [n.name]
            self.qual[n] = '.'.join(stack)
        for c in ast.iter_child_nodes(n):
            self._walk(c, n, stack)

    def enclosing_function(self, n):
        p = self.parent.get(n)
        while p is not None and not isinstance(p, (ast.FunctionDef, ast.AsyncFunctionDef)):
            p = self.parent.get(p)
        return p

    def functions(self, name):
        return [n for n in self.qual if isinstance(n, ast.FunctionDef) and n.name == name]


def is_xmlparser_ctor(f):
    ch = attr_chain(f)
    return ch in (['XMLParser'], ['etree', 'XMLParser'])


class Translator(object):
    def __init__(self, repo):
        self.repo = repo
        self.trees = [Tree(repo, rel) for rel in FILES]

    # ---------------------------------------------------------------- __init__ defaults and parser_kwargs
    def xmldocument_init(self):
        t = self.trees[0]
        inits = [n for n, q in t.qual.items() if q == 'XmlDocument.__init__']
        if len(inits) != 1:
            raise TranslateError('expected exactly one XmlDocument.__init__, found %d' % len(inits))
        fn = inits[0]
        a = fn.args
        if a.vararg or a.kwarg or a.kwonlyargs or a.posonlyargs:
            raise TranslateError('XmlDocument.__init__: unexpected *args/**kwargs/keyword-only parameters')
        names = [x.arg for x in a.args]
        defaults = dict(zip(names[len(names) - len(a.defaults):], a.defaults))
        # the dict(...) assignment
        assigns = []
        for n in ast.walk(fn):
            if isinstance(n, ast.Assign) and any(attr_chain(tg) == ['self', 'parser_kwargs'] for tg in n.targets):
                assigns.append(n)
        if len(assigns) != 1 or len(assigns[0].targets) != 1:
            raise TranslateError('expected exactly one `self.parser_kwargs = ...` in XmlDocument.__init__')
        if t.parent[assigns[0]] is not fn:
            raise TranslateError('`self.parser_kwargs = ...` is not a top-level statement of __init__ (conditional?)')
        call = assigns[0].value
        if not (isinstance(call, ast.Call) and attr_chain(call.func) == ['dict'] and not call.args):
            raise TranslateError('parser_kwargs is not built by dict(k=v, ...)')
        # parameters must not be rebound inside __init__ before use
        rebound = set()
        for n in ast.walk(fn):
            if isinstance(n, ast.Name) and isinstance(n.ctx, (ast.Store, ast.Del)):
                rebound.add(n.id)
        srcs, used = [], []
        for k in call.keywords:
            if k.arg is None:
                raise TranslateError('parser_kwargs: **expansion inside dict(...)')
            if k.arg not in KWS:
                raise TranslateError('parser_kwargs: unknown XMLParser keyword %r' % k.arg)
            v = k.value
            if isinstance(v, ast.Name):
                if v.id not in names or v.id == 'self':
                    raise TranslateError('parser_kwargs[%s]: %r is not an __init__ parameter' % (k.arg, v.id))
                if v.id in rebound:
                    raise TranslateError('parser_kwargs[%s]: parameter %r is rebound inside __init__' % (k.arg, v.id))
                if v.id not in KWS:
                    raise TranslateError('parser_kwargs[%s]: parameter %r is not a parser keyword' % (k.arg, v.id))
                srcs.append((k.arg, 'FromParam K_%s' % v.id))
                if v.id not in used:
                    used.append(v.id)
            else:
                srcs.append((k.arg, 'Const %s' % pyval(v, 'parser_kwargs[%s]' % k.arg)))
        if len(set(k for k, _ in srcs)) != len(srcs):
            raise TranslateError('parser_kwargs: duplicate keyword')
        dfl = []
        for p in used:
            if p not in defaults:
                raise TranslateError('__init__ parameter %r has no default' % p)
            dfl.append((p, pyval(defaults[p], '__init__ default of %s' % p)))
        return dfl, srcs

    def check_no_other_writes(self):
        """parser_kwargs must be written only by the one assignment in XmlDocument.__init__"""
        count = 0
        for t in self.trees:
            for n in ast.walk(t.tree):
                if isinstance(n, ast.Attribute) and n.attr == 'parser_kwargs':
                    par = t.parent.get(n)
                    if isinstance(n.ctx, (ast.Store, ast.Del)):
                        count += 1
                        continue
                    # self.parser_kwargs[...] = / .update(...) / .pop(...) / del ...[..]
                    if isinstance(par, ast.Subscript) and isinstance(par.ctx, (ast.Store, ast.Del)):
                        raise TranslateError('%s:%d: parser_kwargs item is assigned' % (t.rel, n.lineno))
                    if isinstance(par, ast.Attribute) and isinstance(t.parent.get(par), ast.Call):
                        raise TranslateError('%s:%d: method call on parser_kwargs (%s)' % (t.rel, n.lineno, par.attr))
                    if isinstance(par, ast.keyword) and par.arg is None:
                        continue        # **self.parser_kwargs
                    raise TranslateError('%s:%d: unrecognised use of parser_kwargs' % (t.rel, n.lineno))
                if isinstance(n, ast.Constant) and n.value == 'parser_kwargs':
                    raise TranslateError('%s:%d: the string "parser_kwargs" (setattr?)' % (t.rel, n.lineno))
        if count != 1:
            raise TranslateError('parser_kwargs is assigned %d times' % count)
        # subclasses must hand all constructor arguments through unchanged
        for t in self.trees[1:3]:
            for n, q in t.qual.items():
                if isinstance(n, ast.FunctionDef) and n.name == '__init__' and q in ('Soap11.__init__', 'Soap12.__init__'):
                    a = n.args
                    if [x.arg for x in a.args] != ['self'] or not a.vararg or not a.kwarg or a.kwonlyargs:
                        raise TranslateError('%s: signature is not (self, *args, **kwargs)' % q)
                    ok = False
                    for c in ast.walk(n):
                        if isinstance(c, ast.Call) and isinstance(c.func, ast.Attribute) and c.func.attr == '__init__' \
                                and len(c.args) == 1 and isinstance(c.args[0], ast.Starred) \
                                and attr_chain(c.args[0].value) == [a.vararg.arg] \
                                and len(c.keywords) == 1 and c.keywords[0].arg is None \
                                and attr_chain(c.keywords[0].value) == [a.kwarg.arg]:
                            ok = True
                    if not ok:
                        raise TranslateError('%s does not call super().__init__(*args, **kwargs)' % q)
                    for c in ast.walk(n):
                        if isinstance(c, ast.Name) and c.id in (a.vararg.arg, a.kwarg.arg) and \
                                not isinstance(t.parent.get(c), (ast.Starred, ast.keyword)):
                            raise TranslateError('%s inspects or changes its *args/**kwargs' % q)

    # ---------------------------------------------------------------- parser argument of a call
    def parser_expr(self, t, node, depth=0):
        """Coq parser_src text for the expression `node` (None = argument omitted)"""
        if node is None or (isinstance(node, ast.Constant) and node.value is None):
            return 'PDefault'
        if isinstance(node, ast.Call) and is_xmlparser_ctor(node.func):
            if node.args:
                raise TranslateError('%s:%d: positional arguments to XMLParser' % (t.rel, node.lineno))
            if len(node.keywords) == 1 and node.keywords[0].arg is None:
                if attr_chain(node.keywords[0].value) == ['self', 'parser_kwargs']:
                    return 'PKwargs'
                raise TranslateError('%s:%d: XMLParser(**<unrecognised>)' % (t.rel, node.lineno))
            items = []
            for k in node.keywords:
                if k.arg is None or k.arg not in KWS:
                    raise TranslateError('%s:%d: unrecognised XMLParser keyword' % (t.rel, node.lineno))
                items.append('(K_%s, %s)' % (k.arg, pyval(k.value, '%s:%d' % (t.rel, node.lineno))))
            return '(PLiteral [%s])' % '; '.join(items)
        if isinstance(node, ast.Name):
            fn = t.enclosing_function(node)
            if fn is None:
                raise TranslateError('%s:%d: module-level parser name %r' % (t.rel, node.lineno, node.id))
            for n in ast.walk(fn):
                if isinstance(n, ast.Name) and n.id == node.id and isinstance(n.ctx, (ast.Store, ast.Del)):
                    raise TranslateError('%s:%d: parser variable %r is assigned locally' % (t.rel, node.lineno, node.id))
            params = [x.arg for x in fn.args.args]
            if node.id not in params or fn.args.vararg or fn.args.kwarg:
                raise TranslateError('%s:%d: parser %r is not a plain parameter of %s' % (t.rel, node.lineno, node.id, fn.name))
            if depth > 3:
                raise TranslateError('parser parameter chain too deep at %s' % fn.name)
            idx = params.index(node.id)
            dflt = None
            nd = len(fn.args.defaults)
            if idx >= len(params) - nd:
                dflt = fn.args.defaults[idx - (len(params) - nd)]
            has_default = idx >= len(params) - nd
            results = set()
            ncalls = 0
            for t2 in self.trees:
                for c in ast.walk(t2.tree):
                    if isinstance(c, ast.Call) and attr_chain(c.func) and attr_chain(c.func)[-1] == fn.name:
                        if any(isinstance(x, ast.Starred) for x in c.args) or any(k.arg is None for k in c.keywords):
                            raise TranslateError('%s:%d: call of %s with */** arguments' % (t2.rel, c.lineno, fn.name))
                        is_method = params and params[0] in ('self', 'cls') and isinstance(c.func, ast.Attribute)
                        pos = idx - 1 if is_method else idx
                        arg = None
                        found = False
                        if pos < len(c.args):
                            arg, found = c.args[pos], True
                        for k in c.keywords:
                            if k.arg == node.id:
                                arg, found = k.value, True
                        if not found:
                            if not has_default:
                                raise TranslateError('%s:%d: call of %s without the parser argument' % (t2.rel, c.lineno, fn.name))
                            arg = dflt
                        results.add(self.parser_expr(t2, arg, depth + 1))
                        ncalls += 1
                    elif isinstance(c, ast.Name) and c.id == fn.name and isinstance(c.ctx, ast.Load) and \
                            not (isinstance(t2.parent.get(c), ast.Call) and t2.parent[c].func is c):
                        raise TranslateError('%s:%d: %s is used as a value (not called directly)' % (t2.rel, c.lineno, fn.name))
            if ncalls == 0:
                raise TranslateError('no caller of %s found: cannot resolve its parser parameter' % fn.name)
            if len(results) != 1:
                raise TranslateError('callers of %s pass different parsers: %s' % (fn.name, sorted(results)))
            return results.pop()
        ch = attr_chain(node)
        if ch and len(ch) == 2 and ch[0] == 'self' and ch[1] != 'parser_kwargs':
            # an attribute: safe to call it "undefined" only if nothing anywhere defines it
            for t2 in self.trees:
                for n in ast.walk(t2.tree):
                    if isinstance(n, ast.Attribute) and n.attr == ch[1] and isinstance(n.ctx, ast.Store):
                        raise TranslateError('%s:%d: attribute %s is assigned; cannot resolve parser' % (t2.rel, n.lineno, ch[1]))
                    if isinstance(n, (ast.FunctionDef, ast.ClassDef)) and n.name == ch[1]:
                        raise TranslateError('%s:%d: %s is defined as a method/class' % (t2.rel, n.lineno, ch[1]))
                    if isinstance(n, ast.Assign) and isinstance(t2.parent.get(n), ast.ClassDef) and \
                            any(isinstance(tg, ast.Name) and tg.id == ch[1] for tg in n.targets):
                        raise TranslateError('%s:%d: class attribute %s' % (t2.rel, n.lineno, ch[1]))
                    if isinstance(n, ast.Constant) and n.value == ch[1]:
                        raise TranslateError('%s:%d: the string %r (setattr?)' % (t2.rel, n.lineno, ch[1]))
            return 'PUndefinedAttr'
        raise TranslateError('%s:%d: unrecognised parser argument %s' % (t.rel, node.lineno, ast.dump(node)[:100]))

    def catches(self, t, call):
        """is the call inside a try body whose handlers turn XMLSyntaxError into Fault('Client.XMLSyntaxError')?"""
        n = call
        while n is not None:
            p = t.parent.get(n)
            if isinstance(p, ast.Try) and any(n is s or self._inside(t, call, s) for s in p.body):
                for h in p.handlers:
                    names = []
                    if h.type is not None:
                        tys = h.type.elts if isinstance(h.type, ast.Tuple) else [h.type]
                        names = [attr_chain(x)[-1] for x in tys if attr_chain(x)]
                    if 'XMLSyntaxError' in names and len(h.body) >= 1:
                        last = h.body[-1]
                        if isinstance(last, ast.Raise) and isinstance(last.exc, ast.Call) and \
                                attr_chain(last.exc.func) == ['Fault'] and last.exc.args and \
                                isinstance(last.exc.args[0], ast.Constant) and \
                                last.exc.args[0].value == 'Client.XMLSyntaxError' and \
                                all(not isinstance(s, (ast.Return, ast.If, ast.Try, ast.While, ast.For))
                                    for s in h.body):
                            return True
            if isinstance(p, (ast.FunctionDef, ast.AsyncFunctionDef)):
                return False
            n = p
        return False

    def _inside(self, t, n, anc):
        while n is not None:
            if n is anc:
                return True
            n = t.parent.get(n)
        return False

    def sites(self):
        out = []
        for t in self.trees:
            for c in ast.walk(t.tree):
                if not isinstance(c, ast.Call):
                    continue
                ch = attr_chain(c.func)
                if not ch:
                    continue
                html = False
                if len(ch) == 2 and ch[0] == 'etree' and ch[1] in ETREE_PARSE:
                    pass
                elif len(ch) == 2 and ch[0] == 'html' and ch[1] in HTML_PARSE:
                    html = True
                elif ch[-1] in ('fromstring', 'XMLID', 'iterparse', 'XMLDTDID', 'fromstringlist') or \
                        (ch[-1] in ('XML', 'HTML', 'parse') and ch[0] in ('etree', 'lxml', 'html', 'objectify')):
                    raise TranslateError('%s:%d: parse call through an unrecognised name %s' % (t.rel, c.lineno, '.'.join(ch)))
                else:
                    continue
                fn = t.enclosing_function(c)
                qual = t.qual.get(fn, '<module>') if fn is not None else '<module>'
                if html:
                    parser = 'PDefault'
                else:
                    idx = ETREE_PARSE[ch[1]]
                    if idx is None:
                        raise TranslateError('%s:%d: etree.%s is not modelled' % (t.rel, c.lineno, ch[1]))
                    if any(isinstance(x, ast.Starred) for x in c.args) or any(k.arg is None for k in c.keywords):
                        raise TranslateError('%s:%d: */** arguments in a parse call' % (t.rel, c.lineno))
                    arg = c.args[idx] if len(c.args) > idx else None
                    for k in c.keywords:
                        if k.arg == 'parser':
                            arg = k.value
                        elif k.arg not in ('base_url',):
                            raise TranslateError('%s:%d: unrecognised keyword %s' % (t.rel, c.lineno, k.arg))
                    if len(c.args) > idx + 1:
                        raise TranslateError('%s:%d: extra positional arguments' % (t.rel, c.lineno))
                    parser = self.parser_expr(t, arg)
                role = ROLES.get((t.rel, qual), 'Request')
                out.append((t.rel, qual, c.lineno, '.'.join(ch), parser, self.catches(t, c), role, html))
        # .xinclude() / XInclude() / resolvers would process what the parser left alone
        for t in self.trees:
            for n in ast.walk(t.tree):
                if isinstance(n, ast.Attribute) and n.attr in ('xinclude', 'XInclude', 'resolvers', 'xslt', 'XSLT',
                                                               'set_default_parser', 'ElementInclude'):
                    raise TranslateError('%s:%d: use of %s' % (t.rel, n.lineno, n.attr))
        out.sort(key=lambda s: (s[0], s[2]))
        return out


def generate(repo):
    tr = Translator(repo)
    dfl, srcs = tr.xmldocument_init()
    tr.check_no_other_writes()
    sites = tr.sites()
    if not sites:
        raise TranslateError('no parse site found')
    L = []
    L.append('(* GENERATED by harness/translate/xmlparsercfg.py from the working tree; do not edit. *)')
    L.append('From Coq Require Import String.')
    L.append('From SpyneV Require Import Base.Prelude C17.Cfg.')
    L.append('Local Open Scope string_scope.')
    L.append('')
    L.append('(* keyword defaults of XmlDocument.__init__ that feed the parser *)')
    L.append('Definition init_defaults : list (kw * pyval) := [')
    L.append(';\n'.join('  (K_%s, %s)' % (p, v) for p, v in dfl))
    L.append('].')
    L.append('')
    L.append('(* self.parser_kwargs = dict(...) *)')
    L.append('Definition parser_kwargs_src : list (kw * src) := [')
    L.append(';\n'.join('  (K_%s, %s)' % (k, s) for k, s in srcs))
    L.append('].')
    L.append('')
    L.append('(* every lxml parse call in %s *)' % ', '.join(FILES))
    L.append('Definition parse_sites : list site := [')
    L.append(';\n'.join('  mkSite %s %s %d %s %s %s %s %s' % (
        coq_str(f), coq_str(q), line, coq_str(call), parser, 'true' if catch else 'false', role,
        'true' if html else 'false') for f, q, line, call, parser, catch, role, html in sites))
    L.append('].')
    L.append('')
    return {'XmlParserCfg.v': '\n'.join(L)}
