"""spyne/protocol/{xml,_inbase}.py, spyne/protocol/soap/{soap11,soap12,mime}.py -> Gen/XmlParserCfg.v

Emits, from the *source text* of the working tree:

* ``init_defaults``    the keyword defaults of ``XmlDocument.__init__`` that feed
                       the parser options;
* ``parser_kwargs_src`` the ``self.parser_kwargs = <dict display>`` assignment, each
                       value either the ``__init__`` parameter of some name or a
                       literal;
* ``parse_sites``      every ``etree.fromstring / XML / XMLID / parse / iterparse``
                       and ``html.*`` parse call in those files: where it is, how
                       its parser argument is obtained (followed through function
                       parameters to the callers), whether it sits inside
                       ``try: ... except XMLSyntaxError: raise Fault('Client.XMLSyntaxError', ..)``
                       and which role it plays.

Fail closed: any shape not recognised raises TranslateError.  A parse call in
a function this file does not know is treated as a *request* site (so it has
to be safe), never silently ignored.

The tables are produced after normalisation, so that rewrites which cannot
change them do not change the output (each rule states why it is sound where
it is implemented):

* the option dict is a *display*: ``dict(k=v, ..)``, ``{'k': v, ..}``, with
  ``**<display>`` flattened in place, assigned directly or through a local that
  is bound once and read once; its position among the top-level statements of
  ``__init__`` is irrelevant because parameters may not be rebound and the
  attribute may not be written, aliased or called on anywhere else;
* a parser argument is followed through function parameters to all callers, a
  local bound exactly once by ``p = <expr>`` that is only passed on as a call
  argument, and ``self.<helper>()`` where the helper is the single definition
  of that name, undecorated, takes only ``self`` and consists of
  ``return <expr>`` (or ``x = <expr>; return x``) -- a cache or a condition in
  the body is not a helper in this sense and is refused;
* the try/except that turns ``XMLSyntaxError`` into the client fault is found
  lexically (the first handler able to receive the exception decides) or, for
  a private function that lets it through and is only ever called directly
  inside the scanned files and named nowhere else in the package, at every one
  of its call sites;
* ``route_sites`` finds the function that parses for each route by following
  calls from ``<protocol>.create_in_document`` instead of pinning its name.
"""
import ast, os, re
from .pyexpr import TranslateError, attr_chain

FILES = ['spyne/protocol/xml.py', 'spyne/protocol/soap/soap11.py', 'spyne/protocol/soap/soap12.py',
         'spyne/protocol/soap/mime.py', 'spyne/protocol/_inbase.py']

KWS = ['attribute_defaults', 'dtd_validation', 'load_dtd', 'no_network', 'ns_clean', 'recover',
       'remove_blank_text', 'remove_comments', 'remove_pis', 'strip_cdata', 'resolve_entities',
       'huge_tree', 'compact', 'encoding', 'collect_ids', 'schema', 'target', 'decompress']

# parse entry points of lxml: attribute name -> index of the positional `parser` argument
ETREE_PARSE = {'fromstring': 1, 'XML': 1, 'XMLID': 1, 'parse': 1, 'iterparse': None, 'fromstringlist': 1,
               'XMLDTDID': 1, 'HTML': 1}
HTML_PARSE = {'fromstring', 'parse', 'fragment_fromstring', 'fragments_fromstring', 'document_fromstring'}

# functions whose parse calls do not read request bytes (everything else is a request site)
ROLES = {
    ('spyne/protocol/xml.py', 'XmlDocument.schema_validation_error_to_parent'): 'Output',
    ('spyne/protocol/xml.py', 'XmlDocument.any_xml_to_parent'): 'Output',
    ('spyne/protocol/xml.py', 'XmlDocument.any_html_to_parent'): 'Output',
    ('spyne/protocol/soap/mime.py', 'apply_mtom'): 'Output',
    ('spyne/protocol/_inbase.py', 'InProtocolBase.any_xml_from_bytes'): 'OtherProtocol',
    ('spyne/protocol/_inbase.py', 'InProtocolBase.any_html_from_bytes'): 'OtherProtocol',
}


# exception classes that are not base classes of lxml.etree.XMLSyntaxError
# (XMLSyntaxError < ParseError < LxmlSyntaxError < LxmlError, SyntaxError < Exception)
DISJOINT_EXC = {'ValueError', 'UnicodeError', 'UnicodeDecodeError', 'UnicodeEncodeError', 'LookupError', 'KeyError',
                'IndexError', 'TypeError', 'AttributeError'}


def pyval(node, where):
    if isinstance(node, ast.Constant):
        v = node.value
        if v is True:
            return '(PVBool true)'
        if v is False:
            return '(PVBool false)'
        if v is None:
            return 'PVNone'
        if isinstance(v, str):
            if v == 'internal':
                return 'PVInternal'
            if v:
                return 'PVStr'
        if isinstance(v, int) and v in (0, 1):
            return '(PVBool %s)' % ('true' if v else 'false')
    raise TranslateError('%s: parser option value is not a True/False/None/str literal: %s'
                         % (where, ast.dump(node)[:80]))


def coq_str(s):
    return '"%s"' % s.replace('"', '""')


class Tree(object):
    """one parsed source file with parent links and qualified function names"""

    def __init__(self, repo, rel):
        self.rel = rel
        path = os.path.join(repo, rel)
        self.tree = ast.parse(open(path).read(), path)
        self.parent = {}
        self.qual = {}
        self._walk(self.tree, None, [])

    def _walk(self, n, parent, stack):
        self.parent[n] = parent
        if isinstance(n, (ast.FunctionDef, ast.ClassDef, ast.AsyncFunctionDef)):
            stack = stack + [n.name]
            self.qual[n] = '.'.join(stack)
        for c in ast.iter_child_nodes(n):
            self._walk(c, n, stack)

    def enclosing_function(self, n):
        p = self.parent.get(n)
        while p is not None and not isinstance(p, (ast.FunctionDef, ast.AsyncFunctionDef)):
            p = self.parent.get(p)
        return p

    def functions(self, name):
        return [n for n in self.qual if isinstance(n, ast.FunctionDef) and n.name == name]

    def scope_nodes(self, fn):
        """nodes of fn's own scope: nested functions, lambdas, classes and comprehensions are reported through
        `nested` instead (their bodies are other scopes)"""
        own, nested = [], []
        todo = list(ast.iter_child_nodes(fn))
        while todo:
            n = todo.pop()
            if isinstance(n, (ast.FunctionDef, ast.AsyncFunctionDef, ast.Lambda, ast.ClassDef,
                              ast.ListComp, ast.SetComp, ast.DictComp, ast.GeneratorExp)):
                nested.append(n)
                continue
            own.append(n)
            todo.extend(ast.iter_child_nodes(n))
        return own, nested


def is_xmlparser_ctor(f):
    ch = attr_chain(f)
    return ch in (['XMLParser'], ['etree', 'XMLParser'])


class Translator(object):
    def __init__(self, repo):
        self.repo = repo
        self.trees = [Tree(repo, rel) for rel in FILES]

    # ---------------------------------------------------------------- __init__ defaults and parser_kwargs
    def xmldocument_init(self):
        t = self.trees[0]
        inits = [n for n, q in t.qual.items() if q == 'XmlDocument.__init__']
        if len(inits) != 1:
            raise TranslateError('expected exactly one XmlDocument.__init__, found %d' % len(inits))
        fn = inits[0]
        a = fn.args
        if a.vararg or a.kwarg or a.kwonlyargs or a.posonlyargs:
            raise TranslateError('XmlDocument.__init__: unexpected *args/**kwargs/keyword-only parameters')
        names = [x.arg for x in a.args]
        defaults = dict(zip(names[len(names) - len(a.defaults):], a.defaults))
        # the assignment of the option dict
        assigns = []
        for n in ast.walk(fn):
            if isinstance(n, ast.Assign) and any(attr_chain(tg) == ['self', 'parser_kwargs'] for tg in n.targets):
                assigns.append(n)
        if len(assigns) != 1 or len(assigns[0].targets) != 1:
            raise TranslateError('expected exactly one `self.parser_kwargs = ...` in XmlDocument.__init__')
        if t.parent[assigns[0]] is not fn:
            raise TranslateError('`self.parser_kwargs = ...` is not a top-level statement of __init__ (conditional?)')
        value = assigns[0].value
        local = None
        if isinstance(value, ast.Name):
            # `kw = <dict>; self.parser_kwargs = kw`: the local must be bound once, at the top level of
            # __init__, before the assignment, and be read nowhere else (no alias survives __init__)
            local = value.id
            if local in names:
                raise TranslateError('parser_kwargs is assigned from the parameter %r' % local)
            binds = [n for n in ast.walk(fn) if isinstance(n, ast.Name) and n.id == local
                     and isinstance(n.ctx, (ast.Store, ast.Del))]
            loads = [n for n in ast.walk(fn) if isinstance(n, ast.Name) and n.id == local
                     and isinstance(n.ctx, ast.Load)]
            if len(binds) != 1 or loads != [value]:
                raise TranslateError('parser_kwargs: local %r is not bound once and read once' % local)
            st = t.parent[binds[0]]
            if not (isinstance(st, ast.Assign) and len(st.targets) == 1 and st.targets[0] is binds[0]
                    and t.parent[st] is fn and fn.body.index(st) < fn.body.index(assigns[0])):
                raise TranslateError('parser_kwargs: local %r is not a plain top-level assignment before its use' % local)
            for n in ast.walk(fn):
                if isinstance(n, (ast.Global, ast.Nonlocal)) or \
                        (n is not fn and isinstance(n, (ast.FunctionDef, ast.AsyncFunctionDef, ast.Lambda, ast.ClassDef))):
                    raise TranslateError('parser_kwargs: nested scope or global statement next to local %r' % local)
            value = st.value
        items = self.dict_items(value)
        # parameters must not be rebound inside __init__ before use
        rebound = set()
        for n in ast.walk(fn):
            if isinstance(n, ast.Name) and isinstance(n.ctx, (ast.Store, ast.Del)):
                rebound.add(n.id)
        if local is not None:
            rebound.discard(local)
        srcs, used = [], []
        for key, v in items:
            if key not in KWS:
                raise TranslateError('parser_kwargs: unknown XMLParser keyword %r' % key)
            if isinstance(v, ast.Name):
                if v.id not in names or v.id == 'self':
                    raise TranslateError('parser_kwargs[%s]: %r is not an __init__ parameter' % (key, v.id))
                if v.id in rebound:
                    raise TranslateError('parser_kwargs[%s]: parameter %r is rebound inside __init__' % (key, v.id))
                if v.id not in KWS:
                    raise TranslateError('parser_kwargs[%s]: parameter %r is not a parser keyword' % (key, v.id))
                srcs.append((key, 'FromParam K_%s' % v.id))
                if v.id not in used:
                    used.append(v.id)
            else:
                srcs.append((key, 'Const %s' % pyval(v, 'parser_kwargs[%s]' % key)))
        if len(set(k for k, _ in srcs)) != len(srcs):
            raise TranslateError('parser_kwargs: duplicate keyword')
        dfl = []
        for p in used:
            if p not in defaults:
                raise TranslateError('__init__ parameter %r has no default' % p)
            dfl.append((p, pyval(defaults[p], '__init__ default of %s' % p)))
        return dfl, srcs

    def dict_items(self, node):
        """[(key, value node)] of a dict display: `dict(k=v, ...)`, `{'k': v, ...}`, and inside either one
        `**{'k': v, ...}` / `**dict(k=v)` of another display (flattened in place: same keys, same values, same
        insertion order).  Anything else (comprehension, zip, update, a name) is not a display."""
        if isinstance(node, ast.Call) and attr_chain(node.func) == ['dict'] and not node.args:
            pairs = [(k.arg, k.value) for k in node.keywords]
        elif isinstance(node, ast.Dict):
            pairs = []
            for k, v in zip(node.keys, node.values):
                if k is None:
                    pairs.append((None, v))
                elif isinstance(k, ast.Constant) and isinstance(k.value, str):
                    pairs.append((k.value, v))
                else:
                    raise TranslateError('parser_kwargs: dict key is not a string literal: %s' % ast.dump(k)[:60])
        else:
            raise TranslateError('parser_kwargs is not built by dict(k=v, ...) or a {"k": v, ...} display')
        out = []
        for k, v in pairs:
            if k is None:
                if not isinstance(v, (ast.Dict, ast.Call)):
                    raise TranslateError('parser_kwargs: **expansion of something that is not a dict display')
                out.extend(self.dict_items(v))
            else:
                out.append((k, v))
        return out

    def check_no_other_writes(self):
        """parser_kwargs must be written only by the one assignment in XmlDocument.__init__"""
        count = 0
        for t in self.trees:
            for n in ast.walk(t.tree):
                if isinstance(n, ast.Attribute) and n.attr == 'parser_kwargs':
                    par = t.parent.get(n)
                    if isinstance(n.ctx, (ast.Store, ast.Del)):
                        count += 1
                        continue
                    # self.parser_kwargs[...] = / .update(...) / .pop(...) / del ...[..]
                    if isinstance(par, ast.Subscript) and isinstance(par.ctx, (ast.Store, ast.Del)):
                        raise TranslateError('%s:%d: parser_kwargs item is assigned' % (t.rel, n.lineno))
                    if isinstance(par, ast.Attribute) and isinstance(t.parent.get(par), ast.Call):
                        raise TranslateError('%s:%d: method call on parser_kwargs (%s)' % (t.rel, n.lineno, par.attr))
                    if isinstance(par, ast.keyword) and par.arg is None:
                        continue        # **self.parser_kwargs
                    raise TranslateError('%s:%d: unrecognised use of parser_kwargs' % (t.rel, n.lineno))
                if isinstance(n, ast.Constant) and n.value == 'parser_kwargs':
                    raise TranslateError('%s:%d: the string "parser_kwargs" (setattr?)' % (t.rel, n.lineno))
        if count != 1:
            raise TranslateError('parser_kwargs is assigned %d times' % count)
        # subclasses must hand all constructor arguments through unchanged
        for t in self.trees[1:3]:
            for n, q in t.qual.items():
                if isinstance(n, ast.FunctionDef) and n.name == '__init__' and q in ('Soap11.__init__', 'Soap12.__init__'):
                    a = n.args
                    if [x.arg for x in a.args] != ['self'] or not a.vararg or not a.kwarg or a.kwonlyargs:
                        raise TranslateError('%s: signature is not (self, *args, **kwargs)' % q)
                    ok = False
                    for c in ast.walk(n):
                        if isinstance(c, ast.Call) and isinstance(c.func, ast.Attribute) and c.func.attr == '__init__' \
                                and len(c.args) == 1 and isinstance(c.args[0], ast.Starred) \
                                and attr_chain(c.args[0].value) == [a.vararg.arg] \
                                and len(c.keywords) == 1 and c.keywords[0].arg is None \
                                and attr_chain(c.keywords[0].value) == [a.kwarg.arg]:
                            ok = True
                    if not ok:
                        raise TranslateError('%s does not call super().__init__(*args, **kwargs)' % q)
                    for c in ast.walk(n):
                        if isinstance(c, ast.Name) and c.id in (a.vararg.arg, a.kwarg.arg) and \
                                not isinstance(t.parent.get(c), (ast.Starred, ast.keyword)):
                            raise TranslateError('%s inspects or changes its *args/**kwargs' % q)

    # ---------------------------------------------------------------- parser argument of a call
    def parser_expr(self, t, node, depth=0):
        """Coq parser_src text for the expression `node` (None = argument omitted)"""
        if node is None or (isinstance(node, ast.Constant) and node.value is None):
            return 'PDefault'
        if isinstance(node, ast.Call) and is_xmlparser_ctor(node.func):
            if node.args:
                raise TranslateError('%s:%d: positional arguments to XMLParser' % (t.rel, node.lineno))
            if len(node.keywords) == 1 and node.keywords[0].arg is None:
                if attr_chain(node.keywords[0].value) == ['self', 'parser_kwargs']:
                    return 'PKwargs'
                raise TranslateError('%s:%d: XMLParser(**<unrecognised>)' % (t.rel, node.lineno))
            items = []
            for k in node.keywords:
                if k.arg is None or k.arg not in KWS:
                    raise TranslateError('%s:%d: unrecognised XMLParser keyword' % (t.rel, node.lineno))
                items.append('(K_%s, %s)' % (k.arg, pyval(k.value, '%s:%d' % (t.rel, node.lineno))))
            return '(PLiteral [%s])' % '; '.join(items)
        if isinstance(node, ast.Call) and isinstance(node.func, ast.Attribute) and \
                isinstance(node.func.value, ast.Name) and not is_xmlparser_ctor(node.func):
            # self.<helper>(): a private method whose body is `return <parser expression>`
            if depth > 3:
                raise TranslateError('%s:%d: parser helper chain too deep' % (t.rel, node.lineno))
            t2, body_expr = self.parser_helper(t, node)
            return self.parser_expr(t2, body_expr, depth + 1)
        if isinstance(node, ast.Name) and self.is_single_local(t, node):
            # p = <parser expression> ... parse(x, p): the one binding of p in this function
            if depth > 3:
                raise TranslateError('%s:%d: parser variable chain too deep' % (t.rel, node.lineno))
            return self.parser_expr(t, self.local_value(t, node), depth + 1)
        if isinstance(node, ast.Name):
            fn = t.enclosing_function(node)
            if fn is None:
                raise TranslateError('%s:%d: module-level parser name %r' % (t.rel, node.lineno, node.id))
            for n in ast.walk(fn):
                if isinstance(n, ast.Name) and n.id == node.id and isinstance(n.ctx, (ast.Store, ast.Del)):
                    raise TranslateError('%s:%d: parser variable %r is assigned locally' % (t.rel, node.lineno, node.id))
            params = [x.arg for x in fn.args.args]
            if node.id not in params or fn.args.vararg or fn.args.kwarg:
                raise TranslateError('%s:%d: parser %r is not a plain parameter of %s' % (t.rel, node.lineno, node.id, fn.name))
            if depth > 3:
                raise TranslateError('parser parameter chain too deep at %s' % fn.name)
            idx = params.index(node.id)
            dflt = None
            nd = len(fn.args.defaults)
            if idx >= len(params) - nd:
                dflt = fn.args.defaults[idx - (len(params) - nd)]
            has_default = idx >= len(params) - nd
            results = set()
            ncalls = 0
            for t2 in self.trees:
                for c in ast.walk(t2.tree):
                    if isinstance(c, ast.Call) and attr_chain(c.func) and attr_chain(c.func)[-1] == fn.name:
                        if any(isinstance(x, ast.Starred) for x in c.args) or any(k.arg is None for k in c.keywords):
                            raise TranslateError('%s:%d: call of %s with */** arguments' % (t2.rel, c.lineno, fn.name))
                        is_method = params and params[0] in ('self', 'cls') and isinstance(c.func, ast.Attribute)
                        pos = idx - 1 if is_method else idx
                        arg = None
                        found = False
                        if pos < len(c.args):
                            arg, found = c.args[pos], True
                        for k in c.keywords:
                            if k.arg == node.id:
                                arg, found = k.value, True
                        if not found:
                            if not has_default:
                                raise TranslateError('%s:%d: call of %s without the parser argument' % (t2.rel, c.lineno, fn.name))
                            arg = dflt
                        results.add(self.parser_expr(t2, arg, depth + 1))
                        ncalls += 1
                    elif isinstance(c, ast.Name) and c.id == fn.name and isinstance(c.ctx, ast.Load) and \
                            not (isinstance(t2.parent.get(c), ast.Call) and t2.parent[c].func is c):
                        raise TranslateError('%s:%d: %s is used as a value (not called directly)' % (t2.rel, c.lineno, fn.name))
            if ncalls == 0:
                raise TranslateError('no caller of %s found: cannot resolve its parser parameter' % fn.name)
            if len(results) != 1:
                raise TranslateError('callers of %s pass different parsers: %s' % (fn.name, sorted(results)))
            return results.pop()
        ch = attr_chain(node)
        if ch and len(ch) == 2 and ch[0] == 'self' and ch[1] != 'parser_kwargs':
            # an attribute: safe to call it "undefined" only if nothing anywhere defines it
            for t2 in self.trees:
                for n in ast.walk(t2.tree):
                    if isinstance(n, ast.Attribute) and n.attr == ch[1] and isinstance(n.ctx, ast.Store):
                        raise TranslateError('%s:%d: attribute %s is assigned; cannot resolve parser' % (t2.rel, n.lineno, ch[1]))
                    if isinstance(n, (ast.FunctionDef, ast.ClassDef)) and n.name == ch[1]:
                        raise TranslateError('%s:%d: %s is defined as a method/class' % (t2.rel, n.lineno, ch[1]))
                    if isinstance(n, ast.Assign) and isinstance(t2.parent.get(n), ast.ClassDef) and \
                            any(isinstance(tg, ast.Name) and tg.id == ch[1] for tg in n.targets):
                        raise TranslateError('%s:%d: class attribute %s' % (t2.rel, n.lineno, ch[1]))
                    if isinstance(n, ast.Constant) and n.value == ch[1]:
                        raise TranslateError('%s:%d: the string %r (setattr?)' % (t2.rel, n.lineno, ch[1]))
            return 'PUndefinedAttr'
        raise TranslateError('%s:%d: unrecognised parser argument %s' % (t.rel, node.lineno, ast.dump(node)[:100]))

    # ---------------------------------------------------------------- normalisation: helpers and locals
    def all_params(self, fn):
        a = fn.args
        return [x.arg for x in a.posonlyargs + a.args + a.kwonlyargs] + \
               [x.arg for x in (a.vararg, a.kwarg) if x is not None]

    def is_single_local(self, t, node):
        fn = t.enclosing_function(node)
        if fn is None or node.id in self.all_params(fn):
            return False
        return any(isinstance(n, ast.Name) and n.id == node.id and isinstance(n.ctx, ast.Store)
                   for n in ast.walk(fn))

    def local_value(self, t, node):
        """the expression bound to the local `node.id`: exactly one binding in the function, a plain
        `name = expr` statement that is not inside a loop, lexically before the use; every read of the name is a
        direct argument of a call (so the object is only handed on, never configured through the name).  If the
        use is reached without the binding having run, Python raises UnboundLocalError and nothing is parsed."""
        fn = t.enclosing_function(node)
        where = '%s:%d: parser variable %r' % (t.rel, node.lineno, node.id)
        own, nested = t.scope_nodes(fn)
        for n in nested:
            for m in ast.walk(n):
                if isinstance(m, ast.Name) and m.id == node.id:
                    raise TranslateError('%s is used in a nested scope' % where)
        for n in own:
            if isinstance(n, (ast.Global, ast.Nonlocal)) and node.id in n.names:
                raise TranslateError('%s is global/nonlocal' % where)
            if isinstance(n, (ast.Import, ast.ImportFrom)) and any((x.asname or x.name.split('.')[0]) == node.id for x in n.names):
                raise TranslateError('%s is also bound by an import' % where)
            if isinstance(n, ast.ExceptHandler) and n.name == node.id:
                raise TranslateError('%s is also bound by an except clause' % where)
            if isinstance(n, (ast.MatchAs, ast.MatchStar)) and n.name == node.id:
                raise TranslateError('%s is also bound by a match pattern' % where)
        binds = [n for n in own if isinstance(n, ast.Name) and n.id == node.id and isinstance(n.ctx, (ast.Store, ast.Del))]
        if len(binds) != 1:
            raise TranslateError('%s is bound %d times' % (where, len(binds)))
        st = t.parent[binds[0]]
        if not (isinstance(st, ast.Assign) and len(st.targets) == 1 and st.targets[0] is binds[0]):
            raise TranslateError('%s is not bound by a plain `name = expr`' % where)
        p = t.parent[st]
        while p is not fn:
            if isinstance(p, (ast.For, ast.AsyncFor, ast.While)):
                raise TranslateError('%s is bound inside a loop' % where)
            p = t.parent[p]
        if (st.lineno, st.col_offset) >= (node.lineno, node.col_offset):
            raise TranslateError('%s is used before its binding' % where)
        for n in own:
            if isinstance(n, ast.Name) and n.id == node.id and isinstance(n.ctx, ast.Load):
                par = t.parent[n]
                if not ((isinstance(par, ast.Call) and any(n is x for x in par.args)) or
                        (isinstance(par, ast.keyword) and par.arg is not None)):
                    raise TranslateError('%s:%d: parser variable %r is used other than as a call argument'
                                         % (t.rel, n.lineno, node.id))
        return st.value

    def class_of(self, t, fn):
        p = t.parent.get(fn)
        return p if isinstance(p, ast.ClassDef) else None

    def parser_helper(self, t, call):
        """`self.name()` -> (tree, expression returned by the method `name`).  Accepted only if the method is
        the single definition of that name in the scanned files, sits in the calling class or in a
        single-inheritance ancestor of it inside the scanned files, takes only `self`, is undecorated, and its
        body (docstring dropped) is `return e` or `x = e; return x`.  A body that does anything else (a cache
        look-up, a condition) is not a helper in this sense and is refused."""
        name = call.func.attr
        where = '%s:%d: %s.%s()' % (t.rel, call.lineno, call.func.value.id, name)
        if call.args or call.keywords:
            raise TranslateError('%s: parser helper called with arguments' % where)
        fn = t.enclosing_function(call)
        cls = self.class_of(t, fn) if fn is not None else None
        if fn is None or cls is None or not fn.args.args or fn.args.args[0].arg != call.func.value.id or fn.decorator_list:
            raise TranslateError('%s: receiver is not the self of a plain method' % where)
        for n in ast.walk(fn):
            if isinstance(n, ast.Name) and n.id == call.func.value.id and isinstance(n.ctx, (ast.Store, ast.Del)):
                raise TranslateError('%s: the receiver is rebound' % where)
        defs = []
        for t2 in self.trees:
            for n in ast.walk(t2.tree):
                if isinstance(n, (ast.FunctionDef, ast.AsyncFunctionDef, ast.ClassDef)) and n.name == name:
                    defs.append((t2, n))
                if isinstance(n, ast.Attribute) and n.attr == name and isinstance(n.ctx, (ast.Store, ast.Del)):
                    raise TranslateError('%s:%d: attribute %s is assigned' % (t2.rel, n.lineno, name))
                if isinstance(n, ast.Name) and n.id == name and isinstance(n.ctx, (ast.Store, ast.Del)):
                    raise TranslateError('%s:%d: the name %s is bound by an assignment' % (t2.rel, n.lineno, name))
                if isinstance(n, ast.Constant) and n.value == name:
                    raise TranslateError('%s:%d: the string %r (setattr?)' % (t2.rel, n.lineno, name))
                if isinstance(n, ast.alias) and (n.asname or n.name) == name:
                    raise TranslateError('%s:%d: %s is imported' % (t2.rel, n.lineno, name))
        if len(defs) != 1 or not isinstance(defs[0][1], ast.FunctionDef):
            raise TranslateError('%s: %d definitions of %s in the scanned files' % (where, len(defs), name))
        t2, hf = defs[0]
        hcls = self.class_of(t2, hf)
        if hcls is None:
            raise TranslateError('%s: %s is not a method' % (where, name))
        # the defining class must be the calling class or reachable from it by single inheritance
        classes = {}
        for t3 in self.trees:
            for n in ast.walk(t3.tree):
                if isinstance(n, ast.ClassDef):
                    if n.name in classes:
                        raise TranslateError('class name %s is defined twice in the scanned files' % n.name)
                    classes[n.name] = n
        c, hops = cls, 0
        while c is not hcls:
            if len(c.bases) != 1 or c.keywords or hops > 8:
                raise TranslateError('%s: cannot follow the bases of %s to the class defining %s' % (where, c.name, name))
            ch = attr_chain(c.bases[0])
            if not ch or ch[-1] not in classes:
                raise TranslateError('%s: base of %s is outside the scanned files' % (where, c.name))
            c, hops = classes[ch[-1]], hops + 1
        a = hf.args
        if hf.decorator_list or [x.arg for x in a.args] != ['self'] or a.vararg or a.kwarg or a.kwonlyargs or \
                a.posonlyargs or a.defaults:
            raise TranslateError('%s:%d: %s is not a plain undecorated method taking only self' % (t2.rel, hf.lineno, name))
        body = list(hf.body)
        if body and isinstance(body[0], ast.Expr) and isinstance(body[0].value, ast.Constant) and \
                isinstance(body[0].value.value, str):
            body = body[1:]
        if len(body) == 1 and isinstance(body[0], ast.Return) and body[0].value is not None:
            return t2, body[0].value
        if len(body) == 2 and isinstance(body[0], ast.Assign) and len(body[0].targets) == 1 and \
                isinstance(body[0].targets[0], ast.Name) and body[0].targets[0].id != 'self' and \
                isinstance(body[1], ast.Return) and isinstance(body[1].value, ast.Name) and \
                body[1].value.id == body[0].targets[0].id:
            return t2, body[0].value
        raise TranslateError('%s:%d: body of %s is not `return <expr>`' % (t2.rel, hf.lineno, name))

    def _converting(self, h):
        """except XMLSyntaxError [as e]: <no control flow> ; raise Fault('Client.XMLSyntaxError', ...)"""
        if not h.body:
            return False
        last = h.body[-1]
        return isinstance(last, ast.Raise) and isinstance(last.exc, ast.Call) and \
            attr_chain(last.exc.func) == ['Fault'] and bool(last.exc.args) and \
            isinstance(last.exc.args[0], ast.Constant) and \
            last.exc.args[0].value == 'Client.XMLSyntaxError' and \
            all(not isinstance(s, (ast.Return, ast.If, ast.Try, ast.While, ast.For)) for s in h.body)

    def catches(self, t, call, depth=0):
        """is lxml's XMLSyntaxError, raised by `call`, turned into Fault('Client.XMLSyntaxError')?  Looked for
        lexically (the innermost enclosing try body whose handlers can receive the exception decides); when the
        function itself lets the exception through and is a private helper that is only ever called directly,
        the question is put to every one of its call sites instead (helper extracted from a pinned function)."""
        n = call
        while n is not None:
            p = t.parent.get(n)
            if isinstance(p, ast.Try):
                for s in p.finalbody:
                    for m in ast.walk(s):
                        if isinstance(m, (ast.Return, ast.Break, ast.Continue)):
                            return False        # a finally clause that can discard the exception
                if any(n is s for s in p.body):
                    for h in p.handlers:
                        names = None
                        if h.type is not None:
                            tys = h.type.elts if isinstance(h.type, ast.Tuple) else [h.type]
                            names = [(attr_chain(x) or ['?'])[-1] for x in tys]
                        if names is not None and all(x in DISJOINT_EXC for x in names):
                            continue            # cannot receive an XMLSyntaxError
                        return names is not None and 'XMLSyntaxError' in names and self._converting(h)
            if isinstance(p, (ast.AsyncFunctionDef, ast.Lambda, ast.With, ast.AsyncWith)):
                return False                    # (a context manager may swallow the exception)
            if isinstance(p, ast.FunctionDef):
                return self.callers_catch(t, p, depth)
            n = p
        return False

    def callers_catch(self, t, fn, depth):
        name = fn.name
        if depth > 2 or not name.startswith('_') or name.startswith('__') or fn.decorator_list:
            return False
        if any(isinstance(m, (ast.Yield, ast.YieldFrom)) for m in ast.walk(fn)):
            return False                        # a generator body does not run inside the caller's try
        calls = []
        for t2 in self.trees:
            for n in ast.walk(t2.tree):
                if isinstance(n, (ast.FunctionDef, ast.AsyncFunctionDef, ast.ClassDef)) and n.name == name and n is not fn:
                    return False
                if isinstance(n, ast.Constant) and n.value == name:
                    return False
                if isinstance(n, ast.alias) and (n.asname or n.name) == name:
                    return False
                ident = n.id if isinstance(n, ast.Name) else n.attr if isinstance(n, ast.Attribute) else None
                if ident == name:
                    par = t2.parent.get(n)
                    if isinstance(n.ctx, ast.Load) and isinstance(par, ast.Call) and par.func is n:
                        calls.append((t2, par))
                    else:
                        return False            # stored, deleted, or used as a value
        if not calls:
            return False
        # the name must not occur anywhere else in the package (a caller this translator does not see)
        scanned = set(os.path.normpath(os.path.join(self.repo, rel)) for rel in FILES)
        pat = re.compile(r'\b%s\b' % re.escape(name))
        for dirpath, dirs, files in os.walk(os.path.join(self.repo, 'spyne')):
            for f in files:
                full = os.path.normpath(os.path.join(dirpath, f))
                if f.endswith('.py') and full not in scanned:
                    with open(full, encoding='utf-8', errors='replace') as fh:
                        if pat.search(fh.read()):
                            return False
        return all(self.catches(t2, c, depth + 1) for t2, c in calls)

    # ---------------------------------------------------------------- which function parses for which route
    def unique_function(self, name):
        defs = [(t, n) for t in self.trees for n in t.qual
                if isinstance(n, (ast.FunctionDef, ast.AsyncFunctionDef, ast.ClassDef)) and n.name == name]
        if len(defs) == 1 and isinstance(defs[0][1], ast.FunctionDef):
            return defs[0]
        return None

    def method_of(self, cls_name, name):
        for hops in range(8):
            cs = [(t, n) for t in self.trees for n in t.qual if isinstance(n, ast.ClassDef) and n.name == cls_name]
            if len(cs) != 1:
                raise TranslateError('class %s is defined %d times in the scanned files' % (cls_name, len(cs)))
            t, c = cs[0]
            ms = [m for m in c.body if isinstance(m, ast.FunctionDef) and m.name == name]
            if len(ms) == 1:
                return t, ms[0]
            if ms or len(c.bases) != 1 or not attr_chain(c.bases[0]):
                raise TranslateError('cannot find %s.%s' % (cls_name, name))
            cls_name = attr_chain(c.bases[0])[-1]
        raise TranslateError('base chain too long')

    def request_site_functions(self, t, root, depth=0):
        out = set()
        for c in ast.walk(root):
            if not isinstance(c, ast.Call):
                continue
            ch = attr_chain(c.func)
            if not ch:
                continue
            if len(ch) == 2 and ch[0] == 'etree' and ch[1] in ETREE_PARSE:
                fn = t.enclosing_function(c)
                qual = t.qual.get(fn, '<module>') if fn is not None else '<module>'
                if ROLES.get((t.rel, qual), 'Request') == 'Request':
                    out.add(qual)
                continue
            d = self.unique_function(ch[-1])
            if d is not None and depth < 4:
                out |= self.request_site_functions(d[0], d[1], depth + 1)
        return out

    def sites(self):
        out = []
        for t in self.trees:
            for c in ast.walk(t.tree):
                if not isinstance(c, ast.Call):
                    continue
                ch = attr_chain(c.func)
                if not ch:
                    continue
                html = False
                if len(ch) == 2 and ch[0] == 'etree' and ch[1] in ETREE_PARSE:
                    pass
                elif len(ch) == 2 and ch[0] == 'html' and ch[1] in HTML_PARSE:
                    html = True
                elif ch[-1] in ('fromstring', 'XMLID', 'iterparse', 'XMLDTDID', 'fromstringlist') or \
                        (ch[-1] in ('XML', 'HTML', 'parse') and ch[0] in ('etree', 'lxml', 'html', 'objectify')):
                    raise TranslateError('%s:%d: parse call through an unrecognised name %s' % (t.rel, c.lineno, '.'.join(ch)))
                else:
                    continue
                fn = t.enclosing_function(c)
                qual = t.qual.get(fn, '<module>') if fn is not None else '<module>'
                if html:
                    parser = 'PDefault'
                else:
                    idx = ETREE_PARSE[ch[1]]
                    if idx is None:
                        raise TranslateError('%s:%d: etree.%s is not modelled' % (t.rel, c.lineno, ch[1]))
                    if any(isinstance(x, ast.Starred) for x in c.args) or any(k.arg is None for k in c.keywords):
                        raise TranslateError('%s:%d: */** arguments in a parse call' % (t.rel, c.lineno))
                    arg = c.args[idx] if len(c.args) > idx else None
                    for k in c.keywords:
                        if k.arg == 'parser':
                            arg = k.value
                        elif k.arg not in ('base_url',):
                            raise TranslateError('%s:%d: unrecognised keyword %s' % (t.rel, c.lineno, k.arg))
                    if len(c.args) > idx + 1:
                        raise TranslateError('%s:%d: extra positional arguments' % (t.rel, c.lineno))
                    parser = self.parser_expr(t, arg)
                role = ROLES.get((t.rel, qual), 'Request')
                out.append((t.rel, qual, c.lineno, '.'.join(ch), parser, self.catches(t, c), role, html))
        # .xinclude() / XInclude() / resolvers would process what the parser left alone
        for t in self.trees:
            for n in ast.walk(t.tree):
                if isinstance(n, ast.Attribute) and n.attr in ('xinclude', 'XInclude', 'resolvers', 'xslt', 'XSLT',
                                                               'set_default_parser', 'ElementInclude'):
                    raise TranslateError('%s:%d: use of %s' % (t.rel, n.lineno, n.attr))
        out.sort(key=lambda s: (s[0], s[2]))
        return out


def route_sites(repo):
    """{'XmlDocument' | 'Soap11' | 'Soap12': function holding the request parse whose result becomes
    ctx.in_document, 'swa': function holding the parse of the multipart pre-pass (result becomes ctx.in_string)},
    found by following calls from <protocol>.create_in_document; the names are those used in `parse_sites`."""
    tr = Translator(repo)
    res = {}
    for proto in ('XmlDocument', 'Soap11', 'Soap12'):
        t, fn = tr.method_of(proto, 'create_in_document')
        found = {'in_document': set(), 'in_string': set()}
        for st in ast.walk(fn):
            if isinstance(st, ast.Assign) and len(st.targets) == 1:
                ch = attr_chain(st.targets[0])
                if ch and len(ch) == 2 and ch[1] in found:
                    p, fallback = t.parent.get(st), False
                    while p is not None and p is not fn:
                        fallback = fallback or isinstance(p, ast.ExceptHandler)
                        p = t.parent.get(p)
                    if not fallback:        # (a parse inside an except clause is a fallback, not the route's parse)
                        found[ch[1]] |= tr.request_site_functions(t, st.value)
        if len(found['in_document']) != 1:
            raise TranslateError('%s.create_in_document: the parse that yields ctx.in_document is in %s'
                                 % (proto, sorted(found['in_document']) or 'no function'))
        res[proto] = found['in_document'].pop()
        if proto == 'Soap11':
            if len(found['in_string']) != 1:
                raise TranslateError('Soap11.create_in_document: the multipart pre-pass parses in %s'
                                     % (sorted(found['in_string']) or 'no function'))
            res['swa'] = found['in_string'].pop()
    return res


def generate(repo):
    tr = Translator(repo)
    dfl, srcs = tr.xmldocument_init()
    tr.check_no_other_writes()
    sites = tr.sites()
    if not sites:
        raise TranslateError('no parse site found')
    L = []
    L.append('(* GENERATED by harness/translate/xmlparsercfg.py from the working tree; do not edit. *)')
    L.append('From Coq Require Import String.')
    L.append('From SpyneV Require Import Base.Prelude C17.Cfg.')
    L.append('Local Open Scope string_scope.')
    L.append('')
    L.append('(* keyword defaults of XmlDocument.__init__ that feed the parser *)')
    L.append('Definition init_defaults : list (kw * pyval) := [')
    L.append(';\n'.join('  (K_%s, %s)' % (p, v) for p, v in dfl))
    L.append('].')
    L.append('')
    L.append('(* self.parser_kwargs = dict(...) *)')
    L.append('Definition parser_kwargs_src : list (kw * src) := [')
    L.append(';\n'.join('  (K_%s, %s)' % (k, s) for k, s in srcs))
    L.append('].')
    L.append('')
    L.append('(* every lxml parse call in %s *)' % ', '.join(FILES))
    L.append('Definition parse_sites : list site := [')
    L.append(';\n'.join('  mkSite %s %s %d %s %s %s %s %s' % (
        coq_str(f), coq_str(q), line, coq_str(call), parser, 'true' if catch else 'false', role,
        'true' if html else 'false') for f, q, line, call, parser, catch, role, html in sites))
    L.append('].')
    L.append('')
    return {'XmlParserCfg.v': '\n'.join(L)}
