"""spyne/interface/wsdl/wsdl11.py, spyne/interface/_base.py, spyne/interface/xml_schema/_base.py,
spyne/util/toposort.py  ->  Gen/WsdlGen.v

The tokens of the WSDL / XSD emitters that decide property C07 on their own, read from the source
with ``ast`` and *used by* coq/C07/Model.v, so that the C07 theorems are re-proved against what the
working tree contains:

  * message= of the portType input / output and of the soap:header elements: qualified with the
    prefix of the WSDL target namespace (where wsdl:message elements live) or with the prefix of
    the part's / header's own namespace                       -> gen_msgref_{in,out,inh,outh}_tns
  * the iteration over Interface.imports[ns] (a set) in build_schema_nodes: through sorted() or
    not                                                                    -> gen_imports_sorted
  * the key toposort2 sorts each tier by: which components the tuple has     -> gen_topo_key
  * constants that only name things: the header message suffixes and the stem of the automatic
    namespace prefixes ("s%d")                 -> gen_in_header_suffix, gen_out_header_suffix, gen_pref_stem

Like wsgireader this translator always writes a compilable file: a shape it does not recognise
gives ``gen_shape_ok := false`` with the values of the repaired tree and the reason in a comment,
and harness/c07.py reports the tie as broken.  Known *alternative* shapes (the unrepaired code:
no sorted(), get_element_name_ns(), key=repr) are translated to what they mean (false, false,
[KRepr]); the proofs of C07_doc_det / C07_wsdl_closed / C07_topo_key_names then no longer compile.
"""
import ast, os

from .pyexpr import TranslateError


def gtext(s):
    return '[' + '; '.join(str(ord(c)) for c in s) + ']'


def _parse(repo, rel):
    p = os.path.join(repo, rel)
    with open(p) as f:
        return ast.parse(f.read(), p)


def _func(tree, name, cls=None):
    """the unique function (method of cls) of that name"""
    hits = []
    for n in ast.walk(tree):
        if isinstance(n, ast.ClassDef) and (cls is None or n.name == cls):
            for m in n.body:
                if isinstance(m, ast.FunctionDef) and m.name == name:
                    hits.append(m)
    if cls is None:
        hits = [n for n in tree.body if isinstance(n, ast.FunctionDef) and n.name == name] or hits
    if len(hits) != 1:
        raise TranslateError('%d definitions of %s' % (len(hits), name))
    return hits[0]


def _is_name(n, name):
    return isinstance(n, ast.Name) and n.id == name


def _attr_chain(n):
    """a.b.c -> ['a', 'b', 'c'] (None if not a plain chain)"""
    out = []
    while isinstance(n, ast.Attribute):
        out.append(n.attr)
        n = n.value
    if isinstance(n, ast.Name):
        out.append(n.id)
        return out[::-1]
    return None


def _call_chain(n):
    """a.b.c(args) -> (['a','b','c'], args) for a call without keywords"""
    if isinstance(n, ast.Call) and not n.keywords:
        ch = _attr_chain(n.func)
        if ch is not None:
            return ch, n.args
    return None, None


def _is_self_interface(n):
    return _attr_chain(n) == ['self', 'interface']


# ------------------------------------------------------------------ wsdl11.py
def _tns_prefix_assigned(fn):
    """pref_tns = self.interface.get_namespace_prefix(self.interface.get_tns() | self.interface.tns),
    assigned exactly once in fn (nested functions excluded) and never assigned anything else"""
    n_ok = 0
    for n in ast.walk(fn):
        if isinstance(n, ast.Assign) and any(_is_name(t, 'pref_tns') for t in n.targets):
            ch, args = _call_chain(n.value)
            ok = False
            if ch == ['self', 'interface', 'get_namespace_prefix'] and len(args) == 1:
                a = args[0]
                ch2, args2 = _call_chain(a)
                if (ch2 == ['self', 'interface', 'get_tns'] and not args2) or _attr_chain(a) == ['self', 'interface', 'tns']:
                    ok = True
            if not ok:
                raise TranslateError('pref_tns is assigned %s in %s' % (ast.unparse(n.value), fn.name))
            n_ok += 1
        elif isinstance(n, (ast.AugAssign, ast.AnnAssign)) and _is_name(getattr(n, 'target', None), 'pref_tns'):
            raise TranslateError('pref_tns is modified in %s' % fn.name)
    return n_ok >= 1


def _set_calls(fn, obj, attr):
    """the value expressions X of obj.set('<attr>', X) in fn, in source order"""
    out = []
    for n in ast.walk(fn):
        if isinstance(n, ast.Call) and isinstance(n.func, ast.Attribute) and n.func.attr == 'set' \
                and _is_name(n.func.value, obj) and len(n.args) == 2 and not n.keywords \
                and isinstance(n.args[0], ast.Constant) and n.args[0].value == attr:
            out.append((n.lineno, n.col_offset, n.args[1]))
    return [x[2] for x in sorted(out, key=lambda t: t[:2])]


def _msgref_kind(x, fn, msg_attr, what):
    """True: '%s:%s' % (pref_tns, method.<msg_attr>.get_element_name());
    False: method.<msg_attr>.get_element_name_ns(self.interface)"""
    if isinstance(x, ast.BinOp) and isinstance(x.op, ast.Mod) and isinstance(x.left, ast.Constant) \
            and x.left.value == '%s:%s' and isinstance(x.right, ast.Tuple) and len(x.right.elts) == 2:
        p, nm = x.right.elts
        ch, args = _call_chain(nm)
        if _is_name(p, 'pref_tns') and ch == ['method', msg_attr, 'get_element_name'] and not args:
            if not _tns_prefix_assigned(fn):
                raise TranslateError('%s: pref_tns is not the prefix of the target namespace' % what)
            return True
    ch, args = _call_chain(x)
    if ch == ['method', msg_attr, 'get_element_name_ns'] and len(args) == 1 and _is_self_interface(args[0]):
        return False
    raise TranslateError('%s: message reference %s' % (what, ast.unparse(x)))


def _hdrref_kind(x, fn, name_var, what):
    """True: '%s:%s' % (pref_tns, <name_var>); False: '%s:%s' % (header.get_namespace_prefix(self.interface), <name_var>)"""
    if isinstance(x, ast.BinOp) and isinstance(x.op, ast.Mod) and isinstance(x.left, ast.Constant) \
            and x.left.value == '%s:%s' and isinstance(x.right, ast.Tuple) and len(x.right.elts) == 2:
        p, nm = x.right.elts
        if _is_name(nm, name_var):
            if _is_name(p, 'pref_tns'):
                if not _tns_prefix_assigned(fn):
                    raise TranslateError('%s: pref_tns is not the prefix of the target namespace' % what)
                return True
            ch, args = _call_chain(p)
            if ch == ['header', 'get_namespace_prefix'] and len(args) == 1 and _is_self_interface(args[0]):
                return False
    raise TranslateError('%s: message reference %s' % (what, ast.unparse(x)))


def wsdl11(repo):
    tree = _parse(repo, 'spyne/interface/wsdl/wsdl11.py')
    consts = {}
    for n in tree.body:
        if isinstance(n, ast.Assign) and len(n.targets) == 1 and isinstance(n.targets[0], ast.Name) \
                and n.targets[0].id in ('_in_header_msg_suffix', '_out_header_msg_suffix'):
            if not (isinstance(n.value, ast.Constant) and isinstance(n.value.value, str)):
                raise TranslateError('%s is not a string literal' % n.targets[0].id)
            if n.targets[0].id in consts:
                raise TranslateError('%s assigned twice' % n.targets[0].id)
            consts[n.targets[0].id] = n.value.value
    if set(consts) != {'_in_header_msg_suffix', '_out_header_msg_suffix'}:
        raise TranslateError('header message suffix constants not found')
    apt = _func(tree, 'add_port_type', 'Wsdl11')
    xin = _set_calls(apt, 'op_input', 'message')
    xout = _set_calls(apt, 'op_output', 'message')
    if len(xin) != 1 or len(xout) != 1:
        raise TranslateError('add_port_type: %d/%d message= of op_input/op_output' % (len(xin), len(xout)))
    abm = _func(tree, 'add_bindings_for_methods', 'Wsdl11')
    xh = _set_calls(abm, 'soap_header', 'message')
    if len(xh) != 2:
        raise TranslateError('add_bindings_for_methods: %d message= of soap_header' % len(xh))
    return {
        'in_suffix': consts['_in_header_msg_suffix'], 'out_suffix': consts['_out_header_msg_suffix'],
        'in': _msgref_kind(xin[0], apt, 'in_message', 'portType input'),
        'out': _msgref_kind(xout[0], apt, 'out_message', 'portType output'),
        'inh': _hdrref_kind(xh[0], abm, 'in_header_message_name', 'soap:header of the input'),
        'outh': _hdrref_kind(xh[1], abm, 'out_header_message_name', 'soap:header of the output'),
    }


NODE_TABLES = ('port_type_dict', 'binding_dict', 'service_elt_dict')

def _table_reset(st):
    """name of the table for a statement `self.<table> = {}`, else None"""
    if isinstance(st, ast.Assign) and len(st.targets) == 1 and isinstance(st.value, ast.Dict) and not st.value.keys:
        ch = _attr_chain(st.targets[0])
        if ch is not None and len(ch) == 2 and ch[0] == 'self' and ch[1] in NODE_TABLES:
            return ch[1]
    return None


def resets_tables(repo):
    """True iff Wsdl11.build_interface_document empties, unconditionally and before anything else, the three
    tables in which it keeps the portType / binding / service nodes of the document being built
    (port_type_dict, binding_dict, service_elt_dict), and nothing else in the class but __init__ assigns them:
    a second build on the same instance - the next ?wsdl request after a build that failed half way - then
    starts from the state the model starts from"""
    tree = _parse(repo, 'spyne/interface/wsdl/wsdl11.py')
    fn = _func(tree, 'build_interface_document', 'Wsdl11')
    body = [st for st in fn.body if not (isinstance(st, ast.Expr) and isinstance(st.value, ast.Constant))]
    seen = []
    for st in body:
        t = _table_reset(st)
        if t is None:
            break
        seen.append(t)
    # every other assignment to one of the tables must be the initialisation in __init__
    for cls in [n for n in ast.walk(tree) if isinstance(n, ast.ClassDef) and n.name == 'Wsdl11']:
        for m in cls.body:
            if isinstance(m, ast.FunctionDef) and m.name not in ('__init__', 'build_interface_document'):
                for n in ast.walk(m):
                    if isinstance(n, (ast.Assign, ast.AugAssign)):
                        for tg in (n.targets if isinstance(n, ast.Assign) else [n.target]):
                            ch = _attr_chain(tg)
                            if ch is not None and len(ch) == 2 and ch[0] == 'self' and ch[1] in NODE_TABLES:
                                raise TranslateError('%s assigns self.%s' % (m.name, ch[1]))
    n_assign = sum(1 for n in ast.walk(fn) if _table_reset(n) is not None)
    if n_assign != len(seen):
        raise TranslateError('build_interface_document assigns a node table after its first statements')
    return sorted(seen) == sorted(NODE_TABLES)


def rebuilds_schema(repo):
    """True iff Wsdl11.build_interface_document starts, unconditionally, with self.build_schema_nodes() (no
    argument: no schemaLocation) and XmlSchema.build_schema_nodes starts by emptying self.schema_dict: the
    document is then built from the Interface alone, whatever was built on the same object before (the
    validation schema of an input protocol with validator='lxml' is)"""
    tree = _parse(repo, 'spyne/interface/wsdl/wsdl11.py')
    fn = _func(tree, 'build_interface_document', 'Wsdl11')
    body = [st for st in fn.body if not (isinstance(st, ast.Expr) and isinstance(st.value, ast.Constant))]
    # the statements in front of it may only be the resets of the node tables (see resets_tables)
    while body and _table_reset(body[0]) is not None:
        body = body[1:]
    ok1 = False
    if body and isinstance(body[0], ast.Expr):
        ch, args = _call_chain(body[0].value)
        ok1 = ch == ['self', 'build_schema_nodes'] and not args
    calls = [n for n in ast.walk(fn) if isinstance(n, ast.Call) and _attr_chain(n.func) == ['self', 'build_schema_nodes']]
    if not calls:
        raise TranslateError('build_interface_document never calls build_schema_nodes')
    tree2 = _parse(repo, 'spyne/interface/xml_schema/_base.py')
    fn2 = _func(tree2, 'build_schema_nodes', 'XmlSchema')
    body2 = [st for st in fn2.body if not (isinstance(st, ast.Expr) and isinstance(st.value, ast.Constant))]
    ok2 = bool(body2) and isinstance(body2[0], ast.Assign) and len(body2[0].targets) == 1 \
        and _attr_chain(body2[0].targets[0]) == ['self', 'schema_dict'] \
        and isinstance(body2[0].value, ast.Dict) and not body2[0].value.keys
    a = fn2.args
    names = [x.arg for x in a.args]
    ok3 = names == ['self', 'with_schema_location'] and len(a.defaults) == 1 \
        and isinstance(a.defaults[0], ast.Constant) and a.defaults[0].value is False
    if not ok3:
        raise TranslateError('build_schema_nodes: signature %s' % ast.unparse(a))
    return bool(ok1 and ok2)


# ------------------------------------------------------------------ interface/_base.py
def pref_stem(repo):
    tree = _parse(repo, 'spyne/interface/_base.py')
    fn = _func(tree, 'get_namespace_prefix', 'Interface')
    stems = set()
    n_assign = 0
    for n in ast.walk(fn):
        if isinstance(n, ast.Assign) and any(_is_name(t, 'pref') for t in n.targets):
            n_assign += 1
            v = n.value
            if isinstance(v, ast.BinOp) and isinstance(v.op, ast.Mod) and isinstance(v.left, ast.Constant) \
                    and isinstance(v.left.value, str) and v.left.value.endswith('%d') \
                    and '%' not in v.left.value[:-2] and _attr_chain(v.right) is not None \
                    and _attr_chain(v.right)[0] == 'self' and _attr_chain(v.right)[-1].endswith('ns_counter'):
                stems.add(v.left.value[:-2])
            elif isinstance(v, ast.Subscript) and _attr_chain(v.value) == ['self', 'prefmap']:
                pass        # pref = self.prefmap[ns]
            else:
                raise TranslateError('get_namespace_prefix: pref = %s' % ast.unparse(v))
    if len(stems) != 1 or n_assign < 2:
        raise TranslateError('get_namespace_prefix: prefix stems %r' % sorted(stems))
    stem = stems.pop()
    if not stem or any(c.isdigit() for c in stem):
        raise TranslateError('get_namespace_prefix: stem %r is empty or contains digits' % stem)
    return stem


# ------------------------------------------------------------------ xml_schema/_base.py
def imports_sorted(repo):
    tree = _parse(repo, 'spyne/interface/xml_schema/_base.py')
    fn = _func(tree, 'build_schema_nodes', 'XmlSchema')
    loops = [n for n in ast.walk(fn) if isinstance(n, ast.For) and _is_name(n.target, 'namespace')]
    if len(loops) != 1:
        raise TranslateError('build_schema_nodes: %d loops over namespace' % len(loops))
    it = loops[0].iter

    def is_imports(x):
        return isinstance(x, ast.Subscript) and _attr_chain(x.value) == ['self', 'interface', 'imports']
    if is_imports(it):
        return False
    if isinstance(it, ast.Call) and _is_name(it.func, 'sorted') and len(it.args) == 1 and not it.keywords \
            and is_imports(it.args[0]):
        return True
    raise TranslateError('build_schema_nodes: namespaces are taken from %s' % ast.unparse(it))


# ------------------------------------------------------------------ util/toposort.py
def _key_component(e, fn):
    """one element of the tuple returned by _sort_key"""
    arg = fn.args.args[0].arg
    if isinstance(e, ast.Call) and _is_name(e.func, 'repr') and len(e.args) == 1 and _is_name(e.args[0], arg) \
            and not e.keywords:
        return 'KRepr'
    if isinstance(e, ast.Call) and _is_name(e.func, 'str') and len(e.args) == 1 and not e.keywords:
        g = e.args[0]
        if isinstance(g, ast.Call) and _is_name(g.func, 'getattr') and len(g.args) == 3 and not g.keywords \
                and isinstance(g.args[1], ast.Constant) and isinstance(g.args[2], ast.Constant) and g.args[2].value == '':
            if _is_name(g.args[0], arg) and g.args[1].value == '__namespace__':
                return 'KNamespace'
            if _is_name(g.args[0], arg) and g.args[1].value == '__type_name__':
                return 'KTypeName'
            if isinstance(g.args[0], ast.Name) and g.args[1].value == 'sub_name':
                # the name must be bound to getattr(item, 'Attributes', None) and to nothing else
                binds = [n for n in ast.walk(fn) if isinstance(n, ast.Assign)
                         and any(_is_name(t, g.args[0].id) for t in n.targets)]
                if len(binds) == 1:
                    b = binds[0].value
                    if isinstance(b, ast.Call) and _is_name(b.func, 'getattr') and len(b.args) == 3 \
                            and _is_name(b.args[0], arg) and isinstance(b.args[1], ast.Constant) \
                            and b.args[1].value == 'Attributes' and isinstance(b.args[2], ast.Constant) \
                            and b.args[2].value is None:
                        return 'KSubName'
    raise TranslateError('_sort_key: component %s' % ast.unparse(e))


def topo_key(repo):
    tree = _parse(repo, 'spyne/util/toposort.py')
    fn = _func(tree, 'toposort2')
    ys = [n for n in ast.walk(fn) if isinstance(n, ast.Yield)]
    if len(ys) != 1:
        raise TranslateError('toposort2: %d yields' % len(ys))
    v = ys[0].value
    if not (isinstance(v, ast.Call) and _is_name(v.func, 'sorted') and len(v.args) == 1 and _is_name(v.args[0], 'ordered')
            and len(v.keywords) == 1 and v.keywords[0].arg == 'key'):
        raise TranslateError('toposort2 yields %s' % ast.unparse(v))
    k = v.keywords[0].value
    if isinstance(k, ast.Lambda) and len(k.args.args) == 1:
        b = k.body
        if isinstance(b, ast.Call) and _is_name(b.func, 'repr') and len(b.args) == 1 \
                and _is_name(b.args[0], k.args.args[0].arg):
            return ['KRepr']
    if _is_name(k, 'repr'):
        return ['KRepr']
    if isinstance(k, ast.Name):
        kf = _func(tree, k.id)
        if len(kf.args.args) != 1 or kf.args.vararg or kf.args.kwarg or kf.args.kwonlyargs or kf.args.defaults:
            raise TranslateError('%s: unexpected signature' % k.id)
        rets = [n for n in ast.walk(kf) if isinstance(n, ast.Return)]
        if len(rets) != 1 or not isinstance(rets[0].value, ast.Tuple):
            raise TranslateError('%s does not return one tuple' % k.id)
        for st in kf.body:
            if not isinstance(st, (ast.Assign, ast.Return, ast.Expr)):
                raise TranslateError('%s: statement %s' % (k.id, type(st).__name__))
        return [_key_component(e, kf) for e in rets[0].value.elts]
    raise TranslateError('toposort2: key=%s' % ast.unparse(k))


# ------------------------------------------------------------------ output
REPAIRED = {'in_suffix': 'InHeaderMsg', 'out_suffix': 'OutHeaderMsg', 'in': True, 'out': True, 'inh': True,
            'outh': True, 'stem': 's', 'imports_sorted': True, 'rebuilds': True, 'resets': True, 'topo_key': ['KRepr', 'KNamespace', 'KTypeName', 'KSubName']}


def generate(repo):
    vals = dict(REPAIRED)
    problems = []
    for part in (lambda: vals.update(wsdl11(repo)),
                 lambda: vals.update(stem=pref_stem(repo)),
                 lambda: vals.update(imports_sorted=imports_sorted(repo)),
                 lambda: vals.update(rebuilds=rebuilds_schema(repo)),
                 lambda: vals.update(resets=resets_tables(repo)),
                 lambda: vals.update(topo_key=topo_key(repo))):
        try:
            part()
        except (TranslateError, SyntaxError, IOError, IndexError, AttributeError) as e:
            problems.append('%s: %s' % (type(e).__name__, e))
    b = lambda x: 'true' if x else 'false'
    mism = ''.join('(* SHAPE MISMATCH: %s *)\n' % p.replace('*)', '* )') for p in problems)
    text = '''(* generated by harness/translate/wsdlgen.py from the working tree of Spyne -- do not edit *)
From SpyneV Require Import Base.Prelude C07.Vocab.
%s
Definition gen_shape_ok : bool := %s.

(* spyne/interface/wsdl/wsdl11.py: _in_header_msg_suffix, _out_header_msg_suffix *)
Definition gen_in_header_suffix : text := %s.   (* %s *)
Definition gen_out_header_suffix : text := %s.  (* %s *)

(* message= of wsdl:input / wsdl:output in add_port_type and of soap:header (input / output) in
   add_bindings_for_methods: true = qualified with the prefix of the WSDL target namespace *)
Definition gen_msgref_in_tns : bool := %s.
Definition gen_msgref_out_tns : bool := %s.
Definition gen_msgref_inh_tns : bool := %s.
Definition gen_msgref_outh_tns : bool := %s.

(* spyne/interface/_base.py: get_namespace_prefix, "<stem>%%d" %% self.__ns_counter *)
Definition gen_pref_stem : text := %s.   (* %s *)

(* spyne/interface/xml_schema/_base.py: build_schema_nodes iterates sorted(interface.imports[ns]) *)
Definition gen_imports_sorted : bool := %s.

(* spyne/util/toposort.py: the tuple toposort2 sorts a tier by *)
Definition gen_topo_key : list kcomp := [%s].

(* Wsdl11.build_interface_document starts, unconditionally, with self.build_schema_nodes(), which starts by
   emptying self.schema_dict: the document does not depend on what was built on the object before *)
Definition gen_rebuilds_schema : bool := %s.

(* ... and, before that, with emptying port_type_dict, binding_dict and service_elt_dict (the portType / binding /
   service nodes of the document being built): a second build on one Wsdl11 instance starts where a first one does *)
Definition gen_resets_tables : bool := %s.
''' % (mism, b(not problems), gtext(vals['in_suffix']), vals['in_suffix'], gtext(vals['out_suffix']), vals['out_suffix'],
       b(vals['in']), b(vals['out']), b(vals['inh']), b(vals['outh']), gtext(vals['stem']), vals['stem'],
       b(vals['imports_sorted']), '; '.join(vals['topo_key']), b(vals['rebuilds']), b(vals['resets']))
    return {'WsdlGen.v': text}
