"""spyne/interface/xml_schema/model.py, spyne/model/complex.py (XmlAttribute), spyne/model/primitive/*.py
(is_default), spyne/protocol/_outbase.py (decimal/boolean writers), spyne/protocol/xml.py (nil)
  ->  Gen/XsdEmit.v

Every token that decides what the published schema says about a declared constraint is read
from the *source text* (ast) and written as a Gallina table or function over C06/Syntax.v:
which condition omits minOccurs / maxOccurs / default / nillable, which facet element each
Attributes member is written as, which attributes make a simple type 'not default' (and so
get a restriction), where a choice group is placed in the sequence, how `use` is derived,
which text a Decimal / Boolean is written as, which xsi:nil values mean nil.

Fail closed: each targeted statement must have the recognised meaning; anything else raises
TranslateError and nothing is written.  Where behaviour-preserving rewrites are to be expected the
comparison is made after normalisation, not on the text: a loop over a module-level constant table
is unrolled (loop variables replaced by the constants, getattr(e, 'x') read as e.x, locals bound
once to a plain read inlined); the value a statement writes is computed symbolically through local
assignments, if / else and early returns, and through private helpers of the same module (inlined);
a condition on bool(a.nillable) is compiled to its truth table."""
import ast, os, sys, importlib
from .pyexpr import TranslateError, find_function, attr_chain

_CMP = {ast.Eq: 'eq', ast.NotEq: 'ne', ast.Lt: 'lt', ast.LtE: 'le', ast.Gt: 'gt', ast.GtE: 'ge'}
_ZCMP = {'eq': '(%s =? %s)', 'ne': '(negb (%s =? %s))', 'lt': '(%s <? %s)', 'le': '(%s <=? %s)',
         'gt': '(%s >? %s)', 'ge': '(%s >=? %s)'}
_ECMP = {'eq': '(ext_eqb %s %s)', 'ne': '(negb (ext_eqb %s %s))', 'lt': '(ext_ltb %s %s)', 'le': '(ext_leb %s %s)',
         'gt': '(ext_ltb %(b)s %(a)s)', 'ge': '(ext_leb %(b)s %(a)s)'}

RATTR = {'gt': 'A_gt', 'ge': 'A_ge', 'lt': 'A_lt', 'le': 'A_le', 'pattern': 'A_pattern',
         'total_digits': 'A_total_digits', 'fraction_digits': 'A_fraction_digits',
         'min_len': 'A_min_len', 'max_len': 'A_max_len', 'values': 'A_values'}
FTAG = {'minExclusive': 'T_minExclusive', 'minInclusive': 'T_minInclusive', 'maxExclusive': 'T_maxExclusive',
        'maxInclusive': 'T_maxInclusive', 'enumeration': 'T_enumeration', 'length': 'T_length',
        'minLength': 'T_minLength', 'maxLength': 'T_maxLength', 'pattern': 'T_pattern',
        'totalDigits': 'T_totalDigits', 'fractionDigits': 'T_fractionDigits'}


def gtext(s):
    return '[' + '; '.join(str(ord(c)) for c in s) + ']'


def dump(n):
    return ast.dump(n, annotate_fields=False)


def parse_stmt(src):
    return ast.parse(src).body[0]


def same(node, src):
    """is the node exactly the statement/expression written in src?"""
    want = ast.parse(src).body[0]
    if isinstance(want, ast.Expr) and not isinstance(node, ast.Expr):
        want = want.value
    return dump(node) == dump(want)


def need(cond, what):
    if not cond:
        raise TranslateError(what)


def const_str(n, what):
    need(isinstance(n, ast.Constant) and isinstance(n.value, str), 'expected a string literal in %s: %s' % (what, dump(n)[:120]))
    return n.value


def cmp_parts(test, what):
    need(isinstance(test, ast.Compare) and len(test.ops) == 1 and type(test.ops[0]) in _CMP,
         'unrecognised comparison in %s: %s' % (what, dump(test)[:160]))
    return _CMP[type(test.ops[0])], test.left, test.comparators[0]


def int_const(n, what):
    if isinstance(n, ast.UnaryOp) and isinstance(n.op, ast.USub):
        return -int_const(n.operand, what)
    need(isinstance(n, ast.Constant) and isinstance(n.value, int) and not isinstance(n.value, bool),
         'expected an integer literal in %s: %s' % (what, dump(n)[:120]))
    return n.value


def zlit(z):
    return '(%d)' % z if z < 0 else '%d' % z


def xsd_tag(n, what):
    """XSD('name') or ns.XSD('name') -> name"""
    need(isinstance(n, ast.Call) and len(n.args) == 1 and not n.keywords and
         ((isinstance(n.func, ast.Name) and n.func.id == 'XSD') or
          (isinstance(n.func, ast.Attribute) and n.func.attr == 'XSD')), 'expected XSD(<tag>) in %s: %s' % (what, dump(n)[:120]))
    t = const_str(n.args[0], what)
    need(t in FTAG, 'unknown facet tag %r in %s' % (t, what))
    return t


def strip_doc(body):
    return [s for s in body if not (isinstance(s, ast.Expr) and isinstance(s.value, ast.Constant) and isinstance(s.value.value, str))]


# ------------------------------------------------------------------ normalisation (behaviour-preserving rewrites)
import copy


class _Subst(ast.NodeTransformer):
    """replace loads of the given local names by expressions"""

    def __init__(self, env):
        self.env = env

    def visit_Name(self, n):
        if isinstance(n.ctx, ast.Load) and n.id in self.env:
            return copy.deepcopy(self.env[n.id])
        return n


def subst(node, env):
    return _Subst(env).visit(copy.deepcopy(node))


class _Fold(ast.NodeTransformer):
    """getattr(e, 'name') -> e.name;  x in [a, b] -> x in (a, b)"""

    def visit_Call(self, n):
        self.generic_visit(n)
        if isinstance(n.func, ast.Name) and n.func.id == 'getattr' and len(n.args) == 2 and not n.keywords \
                and isinstance(n.args[1], ast.Constant) and isinstance(n.args[1].value, str) and n.args[1].value.isidentifier():
            return ast.Attribute(n.args[0], n.args[1].value, ast.Load())
        return n

    def visit_Compare(self, n):
        self.generic_visit(n)
        if len(n.ops) == 1 and isinstance(n.ops[0], (ast.In, ast.NotIn)) and isinstance(n.comparators[0], ast.List):
            n.comparators[0] = ast.Tuple(n.comparators[0].elts, ast.Load())
        return n


def fold(node):
    return _Fold().visit(copy.deepcopy(node))


def _pure(e):
    """an expression whose value does not depend on when it is evaluated inside the emitters: names,
    constants, attribute reads, getattr with a constant name"""
    if isinstance(e, (ast.Name, ast.Constant)):
        return True
    if isinstance(e, ast.Attribute):
        return _pure(e.value)
    if isinstance(e, ast.Call) and isinstance(e.func, ast.Name) and e.func.id == 'getattr' and len(e.args) == 2 and not e.keywords:
        return _pure(e.args[0]) and isinstance(e.args[1], ast.Constant)
    return False


def _assigned(stmts):
    out = []
    for st in stmts:
        for n in ast.walk(st):
            if isinstance(n, ast.Name) and isinstance(n.ctx, (ast.Store, ast.Del)):
                out.append(n.id)
    return out


def inline_locals(stmts):
    """`x = <pure expression>` bound once in a straight-line block: the later statements read the
    expression instead (the binding is dropped)"""
    stmts = list(stmts)
    i = 0
    while i < len(stmts):
        st = stmts[i]
        if isinstance(st, ast.Assign) and len(st.targets) == 1 and isinstance(st.targets[0], ast.Name) and _pure(st.value):
            x = st.targets[0].id
            rest = stmts[i + 1:]
            reads = [n.id for n in ast.walk(st.value) if isinstance(n, ast.Name)]
            if x not in _assigned(rest) and x not in _assigned(stmts[:i]) and not any(r in _assigned(rest) for r in reads) and x not in reads:
                stmts = stmts[:i] + [subst(r, {x: st.value}) for r in rest]
                continue
        i += 1
    return stmts


def module_constant(tree, name):
    """the value of a module-level name bound exactly once to a literal tuple / list"""
    hits = [st for st in tree.body if isinstance(st, ast.Assign) and any(isinstance(t, ast.Name) and t.id == name for t in st.targets)]
    need(len(hits) == 1 and len(hits[0].targets) == 1, 'module constant %s is not bound exactly once' % name)
    rebound = [n for n in ast.walk(tree) if isinstance(n, ast.Name) and n.id == name and isinstance(n.ctx, (ast.Store, ast.Del))]
    need(len(rebound) == 1, 'module constant %s is bound again somewhere' % name)
    v = hits[0].value
    need(isinstance(v, (ast.Tuple, ast.List)), 'module constant %s is not a literal tuple / list' % name)
    return v


def unroll(stmts, tree):
    """`for a, b in TABLE:` over a module-level literal table of constants: one copy of the body per
    row, the loop variables replaced by the constants of the row"""
    out = []
    for st in stmts:
        if isinstance(st, ast.For) and not st.orelse and isinstance(st.iter, ast.Name):
            table = module_constant(tree, st.iter.id)
            tgt = st.target.elts if isinstance(st.target, (ast.Tuple, ast.List)) else [st.target]
            need(all(isinstance(t, ast.Name) for t in tgt), 'loop over %s: unrecognised target' % st.iter.id)
            names = [t.id for t in tgt]
            need(not any(n in _assigned(st.body) for n in names), 'loop over %s: a loop variable is rebound in the body' % st.iter.id)
            for row in table.elts:
                cells = row.elts if isinstance(st.target, (ast.Tuple, ast.List)) else [row]
                if isinstance(st.target, (ast.Tuple, ast.List)):
                    need(isinstance(row, (ast.Tuple, ast.List)), 'loop over %s: a row is not a tuple' % st.iter.id)
                need(len(cells) == len(names) and all(isinstance(c, ast.Constant) for c in cells),
                     'loop over %s: a row does not hold one constant per loop variable' % st.iter.id)
                env = dict(zip(names, cells))
                out.extend(inline_locals([fold(subst(b, env)) for b in st.body]))
        else:
            out.append(st)
    return out


def value_of(stmts, env, tree, depth=0):
    """symbolic value of a straight-line block that ends in `return e` (or, for a block that is
    not a function body, of nothing): assignments of local names, `if c: x = a else: x = b`,
    `if c: return a` followed by `return b`, and calls of private module-level helpers with
    positional arguments (inlined).  Returns (env, returned expression or None)."""
    env = dict(env)
    stmts = strip_doc(stmts)
    for i, st in enumerate(stmts):
        if isinstance(st, ast.Assign) and len(st.targets) == 1 and isinstance(st.targets[0], ast.Name):
            env[st.targets[0].id] = expr_of(st.value, env, tree, depth)
        elif isinstance(st, ast.Return):
            need(st.value is not None, 'helper returns nothing')
            return env, expr_of(st.value, env, tree, depth)
        elif isinstance(st, ast.If):
            test = expr_of(st.test, env, tree, depth)
            e1, r1 = value_of(st.body, env, tree, depth)
            if r1 is not None and not st.orelse:
                e2, r2 = value_of(stmts[i + 1:], env, tree, depth)
                need(r2 is not None, 'a branch returns and the other does not')
                return env, ast.IfExp(test, r1, r2)
            e2, r2 = value_of(st.orelse, env, tree, depth)
            if r1 is not None or r2 is not None:
                need(r1 is not None and r2 is not None, 'a branch returns and the other does not')
                return env, ast.IfExp(test, r1, r2)
            for k in set(e1) | set(e2):
                a, b = e1.get(k), e2.get(k)
                if a is None or b is None:
                    raise TranslateError('local %s is bound in one branch only' % k)
                if dump(a) != dump(b):
                    env[k] = ast.IfExp(test, a, b)
        else:
            raise TranslateError('unrecognised statement in a value computation: %s' % dump(st)[:160])
    return env, None


def expr_of(e, env, tree, depth=0):
    e = fold(subst(e, env))
    # a call of a private helper of the same module, positional arguments only: its value
    if isinstance(e, ast.Call) and isinstance(e.func, ast.Name) and e.func.id.startswith('_') and not e.keywords and depth < 3:
        fns = [st for st in tree.body if isinstance(st, ast.FunctionDef) and st.name == e.func.id]
        if len(fns) == 1 and e.func.id not in ('_to_schema_literal',):
            fn = fns[0]
            a = fn.args
            need(not (a.vararg or a.kwarg or a.kwonlyargs or a.defaults or a.posonlyargs) and len(a.args) == len(e.args)
                 and not fn.decorator_list, 'helper %s: unrecognised signature' % fn.name)
            need(all(_pure(x) for x in e.args), 'helper %s is called with an argument that is not a plain read' % fn.name)
            _, r = value_of(fn.body, {p.arg: x for p, x in zip(a.args, e.args)}, tree, depth + 1)
            need(r is not None, 'helper %s does not return a value' % fn.name)
            return r
    return e


def truth_table(test, subject):
    """the value of a condition over bool(<subject>) in {True, False}: (for True, for False).
    Recognised: subject, bool(subject), not e, e == / != / is / is not True / False"""
    def ev(n, b):
        if dump(n) == dump(subject):
            return b
        if isinstance(n, ast.Call) and isinstance(n.func, ast.Name) and n.func.id == 'bool' and len(n.args) == 1 and not n.keywords:
            return ev(n.args[0], b)
        if isinstance(n, ast.UnaryOp) and isinstance(n.op, ast.Not):
            return not ev(n.operand, b)
        if isinstance(n, ast.Compare) and len(n.ops) == 1 and isinstance(n.comparators[0], ast.Constant) \
                and isinstance(n.comparators[0].value, bool):
            # the left operand must be a bool for == / is to mean what they say: only bool(...) or not ...
            l = n.left
            need((isinstance(l, ast.Call) and isinstance(l.func, ast.Name) and l.func.id == 'bool') or
                 (isinstance(l, ast.UnaryOp) and isinstance(l.op, ast.Not)),
                 'condition compares something that is not a bool with True / False: %s' % dump(n)[:120])
            v = ev(l, b)
            c = n.comparators[0].value
            if isinstance(n.ops[0], (ast.Eq, ast.Is)):
                return v == c
            if isinstance(n.ops[0], (ast.NotEq, ast.IsNot)):
                return v != c
        raise TranslateError('unrecognised condition: %s' % dump(n)[:160])
    return ev(test, True), ev(test, False)


# ------------------------------------------------------------------ complex_add
def tr_complex_add(fn, out, tree=None):
    loops = [s for s in fn.body if isinstance(s, ast.For) and dump(s.iter) == dump(ast.parse('type_info.items()').body[0].value)]
    need(len(loops) == 1, 'complex_add: expected exactly one loop over type_info.items()')
    loop = loops[0]
    # every member.set(...) of the function must be one we know about
    sets = []
    for n in ast.walk(fn):
        if isinstance(n, ast.Call) and isinstance(n.func, ast.Attribute) and n.func.attr == 'set' \
                and isinstance(n.func.value, ast.Name) and n.func.value.id == 'member':
            sets.append(const_str(n.args[0], 'member.set'))
    need(sorted(sets) == sorted(['name', 'type', 'namespace', 'processContents', 'minOccurs', 'maxOccurs', 'default', 'nillable']),
         'complex_add: unexpected set of member attributes written: %r' % sorted(sets))
    found = {}
    choice = None
    for st in loop.body:
        if not isinstance(st, ast.If):
            continue
        d = dump(st)
        if "'minOccurs'" in d:
            op, l, r = cmp_parts(st.test, 'minOccurs condition')
            need(attr_chain(l) == ['a', 'min_occurs'], 'minOccurs condition does not test a.min_occurs')
            c = int_const(r, 'minOccurs condition')
            need(len(st.body) == 1 and not st.orelse and same(st.body[0], "member.set('minOccurs', str(a.min_occurs))"),
                 'minOccurs: unrecognised body %s' % dump(st.body[0])[:200])
            found['min'] = _ZCMP[op] % ('mn', zlit(c))
        elif "'maxOccurs'" in d:
            op, l, r = cmp_parts(st.test, 'maxOccurs condition')
            need(attr_chain(l) == ['a', 'max_occurs'], 'maxOccurs condition does not test a.max_occurs')
            c = int_const(r, 'maxOccurs condition')
            # the value written: whatever locals / private helpers compute it, it must be
            # 'unbounded' if a.max_occurs in (D('inf'), float('inf')) else str(a.max_occurs)
            need(not st.orelse and st.body and isinstance(st.body[-1], ast.Expr) and isinstance(st.body[-1].value, ast.Call)
                 and same(st.body[-1].value.func, 'member.set') and len(st.body[-1].value.args) == 2 and not st.body[-1].value.keywords
                 and const_str(st.body[-1].value.args[0], 'maxOccurs') == 'maxOccurs', 'maxOccurs: unrecognised body')
            env, r = value_of(st.body[:-1], {}, tree)
            need(r is None, 'maxOccurs: the body returns')
            written = expr_of(st.body[-1].value.args[1], env, tree)
            need(same(written, "'unbounded' if a.max_occurs in (D('inf'), float('inf')) else str(a.max_occurs)"),
                 'maxOccurs: the value written is not unbounded / str(a.max_occurs): %s' % dump(written)[:200])
            t = _ECMP[op]
            found['max'] = t % {'a': 'mx', 'b': '(Fin %s)' % zlit(c)} if '%(a)s' in t else t % ('mx', '(Fin %s)' % zlit(c))
        elif "'default'" in d:
            d1 = same(st, "if a.default is not None:\n    member.set('default', _prot.to_unicode(v, a.default))")
            d2 = same(st, "if a.default is not None:\n    member.set('default', _to_schema_literal(_prot, v, a.default))")
            need(d1 or d2, 'default: unrecognised statement')
            LITERAL_SITES.append(('member default', d2))
            found['default'] = 'has_default'
        elif "'nillable'" in d:
            # the condition as a function of n = bool(a.nillable), whichever way it is spelled
            tt = truth_table(st.test, ast.parse('a.nillable').body[0].value)
            need(len(st.body) == 1 and not st.orelse and isinstance(st.body[0], ast.Expr), 'nillable: unrecognised body')
            call = st.body[0].value
            need(isinstance(call, ast.Call) and same(call.func, 'member.set') and len(call.args) == 2
                 and const_str(call.args[0], 'nillable') == 'nillable', 'nillable: unrecognised body')
            val = const_str(call.args[1], 'nillable value')
            need(val in ('true', 'false', '1', '0'), 'nillable: written value %r is not an xs:boolean literal' % val)
            found['nillable'] = {(True, False): '(negb (Bool.eqb n false))', (False, True): '(Bool.eqb n false)',
                                 (True, True): 'true', (False, False): 'false'}[tt]
            found['nillable_value'] = 'true' if val in ('true', '1') else 'false'
        elif 'xml_choice_group' in d:
            if same(st, "if a.xml_choice_group is None:\n    sequence.append(member)\nelse:\n"
                        "    choice_tags[a.xml_choice_group].append(member)"):
                choice = 'after'
            elif same(st, "if a.xml_choice_group is None:\n    sequence.append(member)\nelse:\n"
                          "    choice_tag = choice_tags[a.xml_choice_group]\n"
                          "    if len(choice_tag) == 0:\n        sequence.append(choice_tag)\n"
                          "    choice_tag.append(member)"):
                choice = 'inplace'
            else:
                raise TranslateError('complex_add: unrecognised choice group statement')
    need(set(found) == {'min', 'max', 'default', 'nillable', 'nillable_value'}, 'complex_add: member attribute statements missing: have %r' % sorted(found))
    need(choice is not None, 'complex_add: choice group statement not found')
    after = [s for s in fn.body if same(s, 'sequence.extend(choice_tags.values())')]
    if choice == 'after':
        need(len(after) == 1, 'complex_add: choice tags collected but never added to the sequence')
    else:
        need(len(after) == 0, 'complex_add: choice tags added both in place and after the members')
    out.append('(** complex_add: which member attributes are written (the XSD default is omitted) *)')
    out.append('Definition member_min_written (mn : Z) : bool := %s.' % found['min'])
    out.append('Definition member_max_written (mx : ext) : bool := %s.' % found['max'])
    out.append('Definition member_default_written (has_default : bool) : bool := %s.' % found['default'])
    out.append('Definition member_nillable_written (n : bool) : bool := %s.' % found['nillable'])
    out.append('Definition member_nillable_value : bool := %s.' % found['nillable_value'])
    out.append('(** complex_add: a choice group stands where its first member is declared (true) or after all members (false) *)')
    out.append('Definition choice_in_place : bool := %s.' % ('true' if choice == 'inplace' else 'false'))


# ------------------------------------------------------------------ restriction tags
def facet_if(st, base_name, what, value_is_raw=False):
    """if cls.Attributes.X != <base_name>.Attributes.X: elt = etree.SubElement(restriction, XSD(TAG)); elt.set('value', ...)
       -> (X, TAG)"""
    need(isinstance(st, ast.If) and not st.orelse and len(st.body) == 2, '%s: unrecognised facet statement %s' % (what, dump(st)[:160]))
    op, l, r = cmp_parts(st.test, what)
    need(op == 'ne', '%s: facet condition is not !=' % what)
    lc, rc = attr_chain(l), attr_chain(r)
    need(lc and rc and lc[:2] == ['cls', 'Attributes'] and rc[0] == base_name and rc[1] == 'Attributes' and lc[2] == rc[2],
         '%s: facet condition does not compare cls.Attributes.X with %s.Attributes.X' % (what, base_name))
    x = lc[2]
    need(x in RATTR, '%s: unknown attribute %s' % (what, x))
    a0 = st.body[0]
    need(isinstance(a0, ast.Assign) and len(a0.targets) == 1 and isinstance(a0.targets[0], ast.Name)
         and isinstance(a0.value, ast.Call) and same(a0.value.func, 'etree.SubElement') and len(a0.value.args) == 2
         and same(a0.value.args[0], 'restriction'), '%s: unrecognised SubElement statement' % what)
    tag = xsd_tag(a0.value.args[1], what)
    var = a0.targets[0].id
    ok1 = same(st.body[1], "%s.set('value', prot.to_unicode(cls, cls.Attributes.%s))" % (var, x))
    ok2 = same(st.body[1], "%s.set('value', cls.Attributes.%s)" % (var, x))
    ok3 = same(st.body[1], "%s.set('value', str(cls.Attributes.%s))" % (var, x))
    ok4 = same(st.body[1], "%s.set('value', _to_schema_literal(prot, cls, cls.Attributes.%s))" % (var, x))
    need(ok1 or ok2 or ok3 or ok4, '%s: the facet value is not the attribute %s' % (what, x))
    if x in ('gt', 'ge', 'lt', 'le'):
        LITERAL_SITES.append(('range ' + x, ok4))
    return x, tag


LITERAL_SITES = []      # (site, written through _to_schema_literal?)


def _flag(e, sigma, flags):
    """value of a condition on the template parameter under sigma = {'Decimal': bool, 'Integer': bool}
    (issubclass(T, Decimal) / issubclass(T, Integer)), or None when it is not such a condition"""
    if isinstance(e, ast.Call) and isinstance(e.func, ast.Name) and e.func.id == 'issubclass' and len(e.args) == 2 and not e.keywords \
            and isinstance(e.args[0], ast.Name) and e.args[0].id == 'T' and isinstance(e.args[1], ast.Name) and e.args[1].id in sigma:
        return sigma[e.args[1].id]
    if isinstance(e, ast.Name) and e.id in flags:
        return flags[e.id]
    if isinstance(e, ast.Constant) and isinstance(e.value, bool):
        return e.value
    if isinstance(e, ast.UnaryOp) and isinstance(e.op, ast.Not):
        v = _flag(e.operand, sigma, flags)
        return None if v is None else not v
    if isinstance(e, ast.BoolOp):
        vs = [_flag(x, sigma, flags) for x in e.values]
        if any(v is None for v in vs):
            return None
        return all(vs) if isinstance(e.op, ast.And) else any(vs)
    return None


def _specialise(stmts, sigma, flags, closures, depth=0):
    """the statements executed for a template parameter of the given kind: conditions on the
    parameter are decided, calls of closures defined in the template are replaced by their bodies"""
    need(depth < 6, 'Tget_range_restriction_tag: closures nested too deep')
    out = []
    for st in strip_doc(stmts):
        if isinstance(st, ast.Pass):
            continue
        if isinstance(st, ast.If):
            v = _flag(st.test, sigma, flags)
            if v is not None:
                out.extend(_specialise(st.body if v else st.orelse, sigma, flags, closures, depth + 1))
                continue
            if isinstance(st.test, ast.BoolOp) and isinstance(st.test.op, ast.And):
                vs = [(x, _flag(x, sigma, flags)) for x in st.test.values]
                if any(v is not None for _, v in vs):
                    need(not st.orelse, 'Tget_range_restriction_tag: a guarded facet statement has an else branch')
                    if any(v is False for _, v in vs):
                        continue
                    rest = [x for x, v in vs if v is None]
                    need(rest, 'Tget_range_restriction_tag: unrecognised guard')
                    st = ast.If(rest[0] if len(rest) == 1 else ast.BoolOp(ast.And(), rest), st.body, [])
            out.append(st)
            continue
        if isinstance(st, ast.Expr) and isinstance(st.value, ast.Call) and isinstance(st.value.func, ast.Name) \
                and st.value.func.id in closures:
            fn = closures[st.value.func.id]
            a = fn.args
            need(not (a.vararg or a.kwarg or a.kwonlyargs or a.defaults or a.posonlyargs or st.value.keywords)
                 and len(a.args) == len(st.value.args) and all(_pure(x) for x in st.value.args),
                 'closure %s: unrecognised signature or call' % fn.name)
            env = {p.arg: x for p, x in zip(a.args, st.value.args)}
            need(not any(n in env for n in _assigned(fn.body)), 'closure %s rebinds a parameter' % fn.name)
            out.extend(_specialise([subst(b, env) for b in fn.body], sigma, flags, closures, depth + 1))
            continue
        out.append(st)
    return out


def _template_case(T, sigma):
    """(flags, closures) after running the body of the template for a parameter of the given kind"""
    flags, closures = {}, {}

    def run(stmts):
        for st in strip_doc(stmts):
            if isinstance(st, (ast.ImportFrom, ast.Pass)):
                continue
            if isinstance(st, ast.FunctionDef):
                need(not st.decorator_list, 'Tget_range_restriction_tag: decorated closure')
                closures[st.name] = st
            elif isinstance(st, ast.Assign) and len(st.targets) == 1 and isinstance(st.targets[0], ast.Name):
                v = _flag(st.value, sigma, flags)
                need(v is not None, 'Tget_range_restriction_tag: unrecognised assignment %s' % dump(st)[:160])
                flags[st.targets[0].id] = v
            elif isinstance(st, ast.If):
                v = _flag(st.test, sigma, flags)
                need(v is not None, 'Tget_range_restriction_tag: a condition is not on the template parameter: %s' % dump(st.test)[:160])
                run(st.body if v else st.orelse)
            elif isinstance(st, ast.Return):
                need(isinstance(st.value, ast.Name) and st.value.id in closures, 'Tget_range_restriction_tag: unrecognised return')
                return st.value.id
            else:
                raise TranslateError('Tget_range_restriction_tag: unrecognised statement %s' % dump(st)[:160])
        return None
    ret = run(T.body)
    need(ret is not None, 'Tget_range_restriction_tag returns nothing')
    return flags, closures, ret


def tr_range(tree, out):
    """the facets the range emitter writes, for each kind of template parameter: the template body
    is run symbolically for T not a Decimal / a Decimal that is not an Integer / an Integer; in the
    returned closure, conditions on T are decided and calls of sibling closures are inlined"""
    T = find_function(tree, ['Tget_range_restriction_tag'])
    need([a.arg for a in T.args.args] == ['T'], 'Tget_range_restriction_tag: unrecognised signature')
    imported = [n.name for st in T.body if isinstance(st, ast.ImportFrom) and st.module == 'spyne.model.primitive' for n in st.names]
    need(sorted(imported) == ['Decimal', 'Integer'], 'Tget_range_restriction_tag: Decimal / Integer are not the spyne.model.primitive classes')
    cases = {}
    for kind, sigma in (('other', {'Decimal': False, 'Integer': False}), ('decimal', {'Decimal': True, 'Integer': False}),
                        ('integer', {'Decimal': True, 'Integer': True})):
        flags, closures, ret = _template_case(T, sigma)
        g = closures[ret]
        need([a.arg for a in g.args.args] == ['document', 'cls'], '%s: unrecognised signature' % g.name)
        need(not any(n in flags or n in closures for n in _assigned(g.body)), '%s rebinds a name of the template' % g.name)
        gb = _specialise(g.body, sigma, flags, closures)
        need(len(gb) >= 3 and same(gb[0], 'restriction = simple_get_restriction_tag(document, cls)')
             and same(gb[1], 'if restriction is None:\n    return') and same(gb[-1], 'return restriction'),
             '_get_range_restriction_tag: unrecognised frame')
        pairs = [facet_if(st, 'T', '_get_range_restriction_tag') for st in unroll(gb[2:-1], tree)]
        need(len(set(p[0] for p in pairs)) == len(pairs), '_get_range_restriction_tag: an attribute is written twice')
        cases[kind] = pairs
    rng_attrs = ('gt', 'ge', 'lt', 'le', 'pattern')
    common = [p for p in cases['other']]
    need(all(p[0] in rng_attrs for p in common), '_get_range_restriction_tag: a digit facet is written for a class that is not a Decimal')
    for kind in ('decimal', 'integer'):
        need(cases[kind][:len(common)] == common and all(p[0] not in rng_attrs for p in cases[kind][len(common):]),
             '_get_range_restriction_tag: the range facets differ between kinds of classes, or digit facets come first')
    idig, ddig = cases['integer'][len(common):], cases['decimal'][len(common):]
    # every site writes its value through the same function for every kind: LITERAL_SITES was filled once per kind
    seen, uniq = set(), []
    for site in LITERAL_SITES:
        if site[0].startswith('range '):
            if site in seen:
                continue
            seen.add(site)
        uniq.append(site)
    LITERAL_SITES[:] = uniq
    fmt = lambda ps: '; '.join('(%s, %s)' % (RATTR[a], FTAG[t]) for a, t in ps)
    out.append('(** Tget_range_restriction_tag: attribute -> facet element, in the order written *)')
    out.append('Definition range_facets : list (rattr * ftag) := [%s].' % fmt(common))
    out.append('Definition integer_digit_facets : list (rattr * ftag) := [%s].' % fmt(idig))
    out.append('Definition decimal_digit_facets : list (rattr * ftag) := [%s].' % fmt(ddig))


def tr_unicode(tree, out):
    fn = find_function(tree, ['unicode_get_restriction_tag'])
    b = strip_doc(fn.body)
    need(len(b) == 5 and same(b[0], 'restriction = simple_get_restriction_tag(document, cls)')
         and same(b[1], 'if restriction is None:\n    return') and same(b[4], 'return restriction'),
         'unicode_get_restriction_tag: unrecognised frame')
    ln = b[2]
    need(isinstance(ln, ast.If) and same(ln.test, 'cls.Attributes.min_len == cls.Attributes.max_len') and len(ln.body) == 2
         and len(ln.orelse) == 2, 'unicode_get_restriction_tag: unrecognised length statement')
    a0 = ln.body[0]
    need(isinstance(a0, ast.Assign) and isinstance(a0.value, ast.Call) and same(a0.value.func, 'etree.SubElement')
         and same(a0.value.args[0], 'restriction'), 'unicode_get_restriction_tag: unrecognised length element')
    t_len = xsd_tag(a0.value.args[1], 'length')
    need(same(ln.body[1], "%s.set('value', str(cls.Attributes.min_len))" % a0.targets[0].id), 'length: value is not min_len')
    mn = facet_if(ln.orelse[0], 'Unicode', 'minLength')
    mx = facet_if(ln.orelse[1], 'Unicode', 'maxLength')
    pt = facet_if(b[3], 'Unicode', 'pattern')
    need(mn[0] == 'min_len' and mx[0] == 'max_len' and pt[0] == 'pattern', 'unicode_get_restriction_tag: attributes out of place')
    out.append('(** unicode_get_restriction_tag *)')
    out.append('Definition unicode_length_tag : ftag := %s.' % FTAG[t_len])
    out.append('Definition unicode_min_tag : ftag := %s.' % FTAG[mn[1]])
    out.append('Definition unicode_max_tag : ftag := %s.' % FTAG[mx[1]])
    out.append('Definition unicode_pattern_tag : ftag := %s.' % FTAG[pt[1]])


def tr_simple(tree, out):
    fn = find_function(tree, ['simple_get_restriction_tag'])
    loops = [s for s in fn.body if isinstance(s, ast.For)]
    need(len(loops) == 1 and same(loops[0].iter, 'cls.Attributes.values') and len(loops[0].body) == 2,
         'simple_get_restriction_tag: unrecognised enumeration loop')
    a0 = loops[0].body[0]
    need(isinstance(a0, ast.Assign) and isinstance(a0.value, ast.Call) and same(a0.value.func, 'etree.SubElement')
         and same(a0.value.args[0], 'restriction'), 'simple_get_restriction_tag: unrecognised enumeration element')
    tag = xsd_tag(a0.value.args[1], 'enumeration')
    e1 = same(loops[0].body[1], "%s.set('value', XmlDocument().to_unicode(cls, %s))" % (a0.targets[0].id, loops[0].target.id))
    e2 = same(loops[0].body[1], "%s.set('value', _to_schema_literal(XmlDocument(), cls, %s))" % (a0.targets[0].id, loops[0].target.id))
    need(e1 or e2, 'simple_get_restriction_tag: enumeration value is not the member of values')
    LITERAL_SITES.append(('enumeration', e2))
    need(any(same(s, "restriction.set('base', extends.get_type_name_ns(document.interface))") for s in fn.body),
         'simple_get_restriction_tag: base is not the extended type')
    out.append('(** simple_get_restriction_tag *)')
    out.append('Definition enumeration_tag : ftag := %s.' % FTAG[tag])
    fn = find_function(tree, ['simple_add'])
    need(len(strip_doc(fn.body)) == 1 and same(strip_doc(fn.body)[0], 'if not cls.is_default(cls):\n    document.get_restriction_tag(cls)'),
         'simple_add: a restriction is not written exactly when not cls.is_default(cls)')


def tr_is_default(mod, path, base, out, name):
    tree = ast.parse(open(mod.__file__).read())
    fn = find_function(tree, path + ['is_default'])
    b = strip_doc(fn.body)
    need(len(b) == 1 and isinstance(b[0], ast.Return), '%s.is_default: body is not a single return' % name)
    e = b[0].value
    if isinstance(e, ast.BoolOp) and isinstance(e.op, ast.And):
        parts = e.values
    else:
        parts = [e]
    attrs = []
    for p in parts:
        if same(p, 'SimpleModel.is_default(cls)'):
            attrs.append('values')
            continue
        op, l, r = cmp_parts(p, name + '.is_default')
        need(op == 'eq', '%s.is_default: comparison is not ==' % name)
        lc, rc = attr_chain(l), attr_chain(r)
        need(lc and rc and lc[:2] == ['cls', 'Attributes'] and rc[0] == base and rc[1] == 'Attributes' and lc[2] == rc[2]
             and lc[2] in RATTR, '%s.is_default: unrecognised conjunct %s' % (name, dump(p)[:120]))
        attrs.append(lc[2])
    out.append('Definition is_default_attrs_%s : list rattr := [%s].' % (name, '; '.join(RATTR[a] for a in attrs)))


def tr_literal(tree, out):
    """how facet / enumeration / default values are written into the schema"""
    used = set(u for _, u in LITERAL_SITES)
    need(len(LITERAL_SITES) == 6, 'expected 6 sites that write a value into the schema, found %r' % (LITERAL_SITES,))
    need(len(used) == 1, 'facet, enumeration and default values are not all written the same way: %r' % (LITERAL_SITES,))
    helper = [n for n in tree.body if isinstance(n, ast.FunctionDef) and n.name == '_to_schema_literal']
    out.append('(** facet, enumeration and default values of Decimal classes, as written into the schema *)')
    if used == {True}:
        need(len(helper) == 1, '_to_schema_literal is used but not defined')
        b = strip_doc(helper[0].body)
        need(len(b) == 2 and same(b[0], "if isinstance(value, D) and value.is_finite():\n    return format(value, 'f')")
             and same(b[1], 'return prot.to_unicode(cls, value)'), '_to_schema_literal: unrecognised body')
        out.append('Definition schema_decimal_plain : bool := true.   (* format(value, \'f\') *)')
    else:
        out.append('Definition schema_decimal_plain : bool := false.  (* ProtocolBase.to_unicode, as on the wire *)')


def tr_attribute(tree, ctree, out):
    fn = find_function(tree, ['xml_attribute_add'])
    need(any(same(s, "if cls._use is not None:\n    element.set('use', cls._use)") for s in fn.body),
         'xml_attribute_add: use is not written from cls._use')
    a1 = any(same(s, "if d is not None:\n    element.set('default', _prot.to_unicode(cls.type, d))") for s in fn.body)
    a2 = any(same(s, "if d is not None:\n    element.set('default', _to_schema_literal(_prot, cls.type, d))") for s in fn.body)
    need(a1 or a2, 'xml_attribute_add: unrecognised default statement')
    new = find_function(ctree, ['XmlAttribute', '__new__'])
    b = strip_doc(new.body)
    need(len(b) == 4 and same(b[1], 'retval._use = use') and isinstance(b[2], ast.If) and same(b[3], 'return retval'),
         'XmlAttribute.__new__: unrecognised structure')
    st = b[2]
    need(isinstance(st.test, ast.BoolOp) and isinstance(st.test.op, ast.And) and len(st.test.values) == 2
         and same(st.test.values[1], 'retval._use is None') and not st.orelse and len(st.body) == 1,
         'XmlAttribute.__new__: unrecognised condition')
    op, l, r = cmp_parts(st.test.values[0], 'XmlAttribute.__new__')
    need(attr_chain(l) == ['retval', 'type', 'Attributes', 'min_occurs'], 'XmlAttribute.__new__: condition is not on min_occurs')
    c = int_const(r, 'XmlAttribute.__new__')
    asg = st.body[0]
    need(isinstance(asg, ast.Assign) and attr_chain(asg.targets[0]) == ['retval', '_use'], 'XmlAttribute.__new__: unrecognised assignment')
    val = const_str(asg.value, 'XmlAttribute.__new__')
    need(val in ('required', 'optional'), 'XmlAttribute.__new__: use %r' % val)
    out.append('(** XmlAttribute.__new__ / xml_attribute_add: the use attribute; [Some true] = required *)')
    out.append('Definition attr_use (explicit : option bool) (mn : Z) : option bool :=\n'
               '  match explicit with Some b => Some b | None => if %s then Some %s else None end.'
               % (_ZCMP[op] % ('mn', zlit(c)), 'true' if val == 'required' else 'false'))


def tr_printers(otree, xtree, out):
    fn = find_function(otree, ['OutProtocolBase', 'decimal_to_unicode'])
    b = strip_doc(fn.body)
    need(len(b) >= 4 and same(b[0], 'D(value)') and same(b[1], 'cls_attrs = self.get_cls_attrs(cls)')
         and same(b[2], "if cls_attrs.str_format is not None:\n    return cls_attrs.str_format.format(value)\n"
                        "elif cls_attrs.format is not None:\n    return cls_attrs.format % value"),
         'decimal_to_unicode: unrecognised frame')
    rest = b[3:]
    if len(rest) == 1 and same(rest[0], 'return str(value)'):
        pr = 'DecStr'
    elif len(rest) == 2 and same(rest[0], "if isinstance(value, D):\n    return format(value, 'f')") and same(rest[1], 'return str(value)'):
        pr = 'DecPlain'
    elif len(rest) == 1 and same(rest[0], "return format(D(value), 'f')"):
        pr = 'DecPlain'
    else:
        raise TranslateError('decimal_to_unicode: unrecognised return statements')
    out.append('(** decimal_to_unicode for a decimal.Decimal instance *)')
    out.append('Definition decimal_printer : dec_printer := %s.' % pr)
    fn = find_function(otree, ['OutProtocolBase', 'boolean_to_unicode'])
    need(len(strip_doc(fn.body)) == 1 and same(strip_doc(fn.body)[0], 'return str(bool(value)).lower()'),
         'boolean_to_unicode: unrecognised body')
    out.append('Definition boolean_true_text : text := %s.  (* %s *)' % (gtext(str(True).lower()), str(True).lower()))
    out.append('Definition boolean_false_text : text := %s.  (* %s *)' % (gtext(str(False).lower()), str(False).lower()))
    fn = find_function(xtree, ['XmlDocument', 'from_element'])
    first = [s for s in strip_doc(fn.body) if isinstance(s, ast.If)][0]
    t = first.test
    need(isinstance(t, ast.Compare) and len(t.ops) == 1 and isinstance(t.ops[0], ast.In)
         and same(t.left, "element.get(XSI('nil'))") and isinstance(t.comparators[0], ast.Tuple),
         'XmlDocument.from_element: unrecognised xsi:nil test')
    vals = [const_str(e, 'xsi:nil values') for e in t.comparators[0].elts]
    inner = first.body[0]
    need(same(inner, "if self.validator is self.SOFT_VALIDATION and not cls_attrs.nillable:\n    raise ValidationError(None)"),
         'XmlDocument.from_element: unrecognised nillable check')
    out.append('(** XmlDocument.from_element: the xsi:nil values read as nil; null_to_parent writes NIL_ATTR *)')
    out.append('Definition nil_values : list text := [%s].  (* %s *)' % ('; '.join(gtext(v) for v in vals), ', '.join(vals)))


def generate(repo):
    repo = os.path.abspath(repo)
    if sys.path[0] != repo:
        sys.path.insert(0, repo)
    model = importlib.import_module('spyne.interface.xml_schema.model')
    if not os.path.abspath(model.__file__).startswith(repo + os.sep):
        raise TranslateError('spyne imported from %s, not from %s' % (model.__file__, repo))
    import spyne.model.complex as cx, spyne.protocol._outbase as ob, spyne.protocol.xml as px
    import spyne.model.primitive.string as ps, spyne.model.primitive.number as pn, spyne.model.primitive.datetime as pd
    import spyne.model._base as mb
    from spyne.model import primitive as P
    from spyne.model.binary import ByteArray
    tree = ast.parse(open(model.__file__).read())
    del LITERAL_SITES[:]
    out = ['(** GENERATED by harness/translate/xsdemit.py from the working tree of Spyne; do not edit. *)',
           'From SpyneV Require Import Base.Prelude Base.Ext C06.Syntax.', 'Open Scope Z_scope.', '']
    tr_complex_add(find_function(tree, ['complex_add']), out, tree)
    tr_range(tree, out)
    tr_unicode(tree, out)
    tr_simple(tree, out)
    out.append('(** is_default: the attributes whose customisation makes Spyne publish a restriction *)')
    tr_is_default(mb, ['SimpleModel'], 'SimpleModel', out, 'SimpleModel')
    tr_is_default(ps, ['Unicode'], 'Unicode', out, 'Unicode')
    tr_is_default(pn, ['Decimal'], 'Decimal', out, 'Decimal')
    tr_is_default(pd, ['Time'], 'Time', out, 'Time')
    tr_is_default(pd, ['DateTime'], 'DateTime', out, 'DateTime')
    tr_is_default(pd, ['Date'], 'Date', out, 'Date')
    # which is_default each leaf class resolves to (method resolution order, read from the classes)
    owners = {}
    for nm, cls in [('Integer', P.Integer), ('Double', P.Double), ('Float', P.Float), ('Boolean', P.Boolean), ('AnyUri', P.AnyUri),
                    ('Duration', P.Duration), ('Uuid', P.Uuid)]:
        for k in cls.__mro__:
            if 'is_default' in k.__dict__:
                owners[nm] = k.__name__
                break
        need(owners[nm] in ('SimpleModel', 'Unicode', 'Decimal'), 'is_default of %s is defined by %s' % (nm, owners[nm]))
        out.append('Definition is_default_attrs_%s : list rattr := is_default_attrs_%s.' % (nm, owners[nm]))
    need(ByteArray.is_default(ByteArray) is True and 'is_default' in ByteArray.__dict__, 'ByteArray.is_default')
    out.append('Definition is_default_attrs_ByteArray : list rattr := [].')
    # which restriction writer each class resolves to (the cdict of xml_schema/_base.py)
    import spyne.interface.xml_schema._base as xb
    h = xb._get_restriction_tag_handlers
    rng = h[P.Decimal]
    need(h[P.Integer] is rng and h[P.Double] is rng, 'Integer / Double restrictions are not written by the Decimal range writer')
    need(h[P.Unicode] is model.unicode_get_restriction_tag and h[P.AnyUri] is model.unicode_get_restriction_tag
         and h[P.Uuid] is model.unicode_get_restriction_tag, 'Unicode restrictions are not written by unicode_get_restriction_tag')
    need(h[P.Boolean] is model.simple_get_restriction_tag and h[P.Duration] is model.simple_get_restriction_tag,
         'Boolean / Duration restrictions are not written by simple_get_restriction_tag')
    for c in (P.DateTime, P.Date, P.Time):
        need(h[c].__code__ is rng.__code__ and h[c] is not rng, '%s restrictions are not written by a range writer' % c.__name__)
    tr_literal(tree, out)
    tr_attribute(tree, ast.parse(open(cx.__file__).read()), out)
    tr_printers(ast.parse(open(ob.__file__).read()), ast.parse(open(px.__file__).read()), out)
    need(px.NIL_ATTR == {px.XSI('nil'): 'true'}, 'NIL_ATTR is %r' % (px.NIL_ATTR,))
    out.append('Definition nil_written : text := %s.' % gtext('true'))
    out.append('(** __type_name__ of the leaf classes (runtime values) *)')
    for nm, cls in [('Unicode', P.Unicode), ('AnyUri', P.AnyUri), ('Boolean', P.Boolean), ('Decimal', P.Decimal), ('Double', P.Double),
                    ('Float', P.Float), ('Date', P.Date), ('Time', P.Time), ('DateTime', P.DateTime), ('Duration', P.Duration),
                    ('ByteArray', ByteArray), ('Uuid', P.Uuid)]:
        out.append('Definition xs_name_%s : text := %s.  (* %s *)' % (nm, gtext(cls.__type_name__), cls.__type_name__))
    out.append('Definition uuid_namespace : text := %s.' % gtext(P.Uuid.__namespace__))
    out.append('Definition uuid_pattern : text := %s.' % gtext(P.Uuid.Attributes.pattern))
    return {'XsdEmit.v': '\n'.join(out) + '\n'}
