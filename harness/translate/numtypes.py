"""spyne/model/primitive/number.py + spyne/model/_base.py  ->  Gen/NumTypes.v

For every number model class the *source text* of ``validate_native`` /
``validate_string`` is translated to a Gallina boolean function, following the
explicit ``Parent.validate_native(cls, value)`` calls; closure constants
(``_min_b``/``_max_b``) and default ``Attributes`` are read from the imported
classes, i.e. they are whatever the working tree computes.
"""
import ast, sys, inspect, decimal, importlib
from .pyexpr import (BoolTranslator, TranslateError, find_function, single_return, body_as_expr,
                     attr_chain, TRUE, FALSE)

CLASSES = ['Decimal', 'Integer', 'UnsignedInteger', 'PositiveInteger',
           'Integer8', 'Integer16', 'Integer32', 'Integer64',
           'UnsignedInteger8', 'UnsignedInteger16', 'UnsignedInteger32',
           'UnsignedInteger64']

def zlit(v):
    v = int(v)
    return '(%d)' % v

def ext(v):
    if v is None:
        raise TranslateError('None where a number bound was expected')
    if isinstance(v, float) or isinstance(v, decimal.Decimal):
        if v == decimal.Decimal('inf') or v == float('inf'):
            return 'PosInf'
        if v == decimal.Decimal('-inf') or v == float('-inf'):
            return 'NegInf'
        if v != int(v):
            raise TranslateError('non-integral bound %r' % (v,))
    return '(Fin %s)' % zlit(v)

def class_source_path(cls):
    """['TBoundedInteger', '_BoundedInteger'] for factory classes, ['Integer'] otherwise"""
    qn = cls.__qualname__.replace('<locals>.', '')
    return qn.split('.')

class Ctx(object):
    def __init__(self):
        self.trees = {}
        self.done = {}      # (kind, key) -> coq name
        self.defs = []

    def tree(self, module):
        if module.__name__ not in self.trees:
            src = inspect.getsource(module)
            self.trees[module.__name__] = ast.parse(src)
        return self.trees[module.__name__]

    def fn_ast(self, cls, meth):
        """AST of the function that `cls.<meth>` resolves to, and the class that defines it"""
        for k in cls.__mro__:
            if meth in k.__dict__:
                owner = k
                break
        else:
            raise TranslateError('%s has no %s' % (cls, meth))
        mod = sys.modules[owner.__module__]
        path = class_source_path(owner) + [meth]
        return find_function(self.tree(mod), path), owner, mod

    def coq_name(self, kind, cls, owner):
        # factory classes share source but differ in closure: name them by concrete class
        if '<locals>' in owner.__qualname__:
            return '%s_%s' % (kind, owner.__dict__.get('__type_name__', owner.__name__))
        return '%s_%s' % (kind, owner.__name__)

    def translate(self, cls, meth, kind, mode):
        """mode: 'val' (value is not None; v : Z) or 'none' (value is None)"""
        fn, owner, mod = self.fn_ast(cls, meth)
        name = self.coq_name(kind + ('' if mode == 'val' else '_none'), cls, owner)
        if name in self.done:
            return name
        pyfn = owner.__dict__[meth]
        if isinstance(pyfn, staticmethod):
            pyfn = pyfn.__func__
        closure = {}
        if pyfn.__closure__:
            closure = dict(zip(pyfn.__code__.co_freevars,
                               [c.cell_contents for c in pyfn.__closure__]))
        args = [a.arg for a in fn.args.args]
        if args != ['cls', 'value']:
            raise TranslateError('%s.%s: unexpected signature %r' % (owner.__name__, meth, args))
        # guard clauses (early returns, locals that alias an expression) are read as the single
        # expression they abbreviate: see pyexpr.body_as_expr
        expr = body_as_expr(fn)
        me = self

        def is_value(n):
            return isinstance(n, ast.Name) and n.id == 'value'

        def num(n):
            if is_value(n):
                if mode == 'none':
                    raise TranslateError('comparison on None value would raise TypeError')
                return '(Fin v)' if kind == 'vn' else None
            if isinstance(n, ast.Call) and isinstance(n.func, ast.Name) and \
                    n.func.id == 'int' and len(n.args) == 1 and is_value(n.args[0]) and kind == 'vn':
                if mode == 'none':
                    raise TranslateError('int(None)')
                return '(Fin v)'          # int(z) is z for an int
            if isinstance(n, ast.Call) and isinstance(n.func, ast.Name) and \
                    n.func.id == 'len' and len(n.args) == 1:
                if is_value(n.args[0]) and kind == 'vs':
                    if mode == 'none':
                        raise TranslateError('len(None)')
                    return '(Fin slen)'
                ch = attr_chain(n.args[0])
                if ch == ['cls', 'Attributes', 'values']:
                    return '(Fin (Z.of_nat (length (na_values a))))'
            if isinstance(n, ast.Constant) and isinstance(n.value, int) and not isinstance(n.value, bool):
                return '(Fin %s)' % zlit(n.value)
            if isinstance(n, ast.Name) and n.id in closure:
                return ext(closure[n.id])
            ch = attr_chain(n)
            if ch and ch[:2] == ['cls', 'Attributes'] and len(ch) == 3 and \
                    ch[2] in ('gt', 'ge', 'lt', 'le', 'max_str_len'):
                return '(na_%s a)' % ch[2]
            return None

        def cmp(op, l, r):
            a, b = num(l), num(r)
            if a is None or b is None:
                raise TranslateError('%s.%s: unsupported comparison operand %s / %s'
                        % (owner.__name__, meth, ast.dump(l)[:80], ast.dump(r)[:80]))
            return {'lt': '(ext_ltb %s %s)', 'le': '(ext_leb %s %s)',
                    'gt': '(ext_ltb %s %s)', 'ge': '(ext_leb %s %s)',
                    'eq': '(ext_eqb %s %s)', 'ne': '(negb (ext_eqb %s %s))'}[op] % (
                        (b, a) if op in ('gt', 'ge') else (a, b))

        def is_none(n):
            if is_value(n):
                return TRUE if mode == 'none' else FALSE
            ch = attr_chain(n)
            if ch == ['cls', 'Attributes', 'values']:
                # the default is a (possibly empty) collection, never None
                if cls.Attributes.values is None:
                    raise TranslateError('Attributes.values is None')
                return FALSE
            if ch and ch[:2] == ['cls', 'Attributes'] and ch[2] in ('gt', 'lt', 'ge', 'le'):
                return FALSE if getattr(cls.Attributes, ch[2]) is not None else None
            return None

        def contains(e, c):
            if is_value(e) and attr_chain(c) == ['cls', 'Attributes', 'values'] and kind == 'vn':
                if mode == 'none':
                    raise TranslateError('None in values')
                return '(existsb (Z.eqb v) (na_values a))'
            raise TranslateError('unsupported membership test')

        def leaf(n):
            # Parent.validate_xxx(cls, value)
            if isinstance(n, ast.Call) and isinstance(n.func, ast.Attribute) and \
                    n.func.attr == meth and isinstance(n.func.value, ast.Name) and \
                    [ast.dump(x) for x in n.args] == [ast.dump(ast.Name('cls', ast.Load())),
                                                      ast.dump(ast.Name('value', ast.Load()))] \
                    and not n.keywords:
                parent = getattr(mod, n.func.value.id, None)
                if parent is None or not isinstance(parent, type):
                    raise TranslateError('cannot resolve parent class %s' % n.func.value.id)
                pname = me.translate(parent, meth, kind, mode)
                return '(%s a%s)' % (pname, {'vn': ' v', 'vs': ' slen'}[kind] if mode == 'val' else '')
            ch = attr_chain(n)
            if ch in (['cls', 'Attributes', 'nillable'], ['cls', 'Attributes', 'nullable']):
                return '(na_nillable a)'
            return None

        body = BoolTranslator(leaf, cmp, num, is_none, contains).tr(expr)
        params = '(a : num_attrs)' + ({'vn': ' (v : Z)', 'vs': ' (slen : Z)'}[kind] if mode == 'val' else '')
        self.defs.append('Definition %s %s : bool :=\n  %s.\n' % (name, params, body))
        self.done[name] = True
        return name


def attrs_record(cls):
    A = cls.Attributes
    vals = list(A.values) if A.values is not None else None
    if vals:
        raise TranslateError('%s: non-empty default values' % cls.__name__)
    if A.nillable != A.nullable:
        raise TranslateError('nillable/nullable differ on %s' % cls.__name__)
    def ob(x):
        return 'None' if x is None else '(Some %s)' % zlit(x)
    return ('{| na_nillable := %s; na_gt := %s; na_ge := %s; na_lt := %s; na_le := %s;\n'
            '     na_values := []; na_max_str_len := %s; na_min_bound := %s; na_max_bound := %s |}'
            % ('true' if A.nillable else 'false', ext(A.gt), ext(A.ge), ext(A.lt), ext(A.le),
               ext(A.max_str_len), ob(A.min_bound), ob(A.max_bound)))


def generate(repo):
    for m in list(sys.modules):
        pass
    number = importlib.import_module('spyne.model.primitive.number')
    if not number.__file__.startswith(repo.rstrip('/') + '/'):
        raise TranslateError('spyne imported from %s, not from %s' % (number.__file__, repo))
    ctx = Ctx()
    out = ['(* GENERATED by harness/translate/numtypes.py from %s and spyne/model/_base.py. Do not edit. *)'
           % 'spyne/model/primitive/number.py',
           'From SpyneV Require Import Base.Ext.', 'Open Scope Z_scope.', '']
    names = []
    for cn in CLASSES:
        cls = getattr(number, cn)
        vn = ctx.translate(cls, 'validate_native', 'vn', 'val')
        vnn = ctx.translate(cls, 'validate_native', 'vn', 'none')
        vs = ctx.translate(cls, 'validate_string', 'vs', 'val')
        vsn = ctx.translate(cls, 'validate_string', 'vs', 'none')
        names.append((cn, cls, vn, vnn, vs, vsn))
    out.extend(ctx.defs)
    out.append('')
    for cn, cls, vn, vnn, vs, vsn in names:
        out.append('Definition attrs_%s : num_attrs :=\n  %s.' % (cn, attrs_record(cls)))
        out.append('Definition validate_native_%s := %s.' % (cn, vn))
        out.append('Definition validate_native_none_%s := %s.' % (cn, vnn))
        out.append('Definition validate_string_%s := %s.' % (cn, vs))
        out.append('Definition validate_string_none_%s := %s.' % (cn, vsn))
        out.append('Definition type_name_%s : list Z := %s.' % (
            cn, '[' + '; '.join(str(ord(c)) for c in cls.__type_name__) + ']'))
        out.append('')
    # the table the fixed-width theorems quantify over: (signed, bits, attrs, validate_native)
    rows = []
    irows = []
    for cn, cls, vn, vnn, vs, vsn in names:
        if cn[-1].isdigit():
            bits = int(''.join(ch for ch in cn if ch.isdigit()))
            signed = not cn.startswith('Unsigned')
            rows.append('(%s, %d, attrs_%s, validate_native_%s)' % (
                'true' if signed else 'false', bits, cn, cn))
            irows.append('(%s, %d, mk_int_type attrs_%s validate_native_%s validate_native_none_%s '
                         'validate_string_%s validate_string_none_%s)' % (
                'true' if signed else 'false', bits, cn, cn, cn, cn, cn))
    out.append('Definition bounded_int_types : list (bool * Z * num_attrs * (num_attrs -> Z -> bool)) :=\n  [ %s ].'
               % ';\n    '.join(rows))
    out.append('(* the same classes with all four generated validation functions *)')
    out.append('Definition bounded_int_classes : list (bool * Z * int_type) :=\n  [ %s ].' % ';\n    '.join(irows))
    for cn in ('Integer', 'UnsignedInteger'):
        out.append('Definition class_%s : int_type := mk_int_type attrs_%s validate_native_%s validate_native_none_%s '
                   'validate_string_%s validate_string_none_%s.' % (cn, cn, cn, cn, cn, cn))
    return {'NumTypes.v': '\n'.join(out) + '\n'}
