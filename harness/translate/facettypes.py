"""spyne/model/_base.py + primitive/_base.py + primitive/string.py + primitive/datetime.py  ->  Gen/FacetTypes.v

The *source text* of the validation functions that decide the Unicode facets (length, pattern,
enumeration) and the date/time range facets is translated to Gallina boolean functions:

  ModelBase.validate_string / validate_native, SimpleModel.validate_native,
  Unicode.validate_string / validate_native, re_match_with_span          (text values, ``str_attrs``)
  ModelBase / SimpleModel.validate_native, DateTime.validate_native (which Date inherits),
  Time.validate_native                                                  (ordered values, ``rng_attrs V``)

Each function is translated twice: for a value that is not None and for None (the ``value is None``
tests are folded, as Python's short-circuit evaluation does).  Comparisons keep the operator and the
attribute they name (``value > cls.Attributes.gt`` becomes ``oo_ltb o b v`` under the ``gt`` bound), so
an edit of an operator, of an attribute name, of the length expression or of the regex method breaks
the proofs of coq/C05 directly.  The regular expression engine is a parameter (``fullm``: "the compiled
pattern matches the whole string"); the naive-value rule of DateTime is the parameter ``localize``
applied exactly where the source rebinds ``value``.  Fail closed: any other shape raises TranslateError.
"""
import ast, sys, inspect, importlib, datetime
from .pyexpr import (BoolTranslator, TranslateError, find_function, single_return, body_as_expr, attr_chain, TRUE, FALSE)


def _tree(mod):
    return ast.parse(inspect.getsource(mod))


def _strip_doc(body):
    return [s for s in body if not (isinstance(s, ast.Expr) and isinstance(s.value, ast.Constant)
                                    and isinstance(s.value.value, str))]


def _same(stmts, source):
    """the statements are, as abstract syntax, exactly those of `source`"""
    want = _strip_doc(ast.parse(source).body)
    return [ast.dump(x) for x in stmts] == [ast.dump(x) for x in want]


def _is_value(n):
    return isinstance(n, ast.Name) and n.id == 'value'


def _is_cls_value_call(n, meth):
    return (isinstance(n, ast.Call) and isinstance(n.func, ast.Attribute) and n.func.attr == meth
            and isinstance(n.func.value, ast.Name) and not n.keywords and len(n.args) == 2
            and isinstance(n.args[0], ast.Name) and n.args[0].id == 'cls' and _is_value(n.args[1]))


class Family(object):
    """one value domain: how attributes, the value and comparisons are written in Coq"""

    def __init__(self, prefix, params_val, params_none, call_val, call_none):
        self.prefix = prefix            # 's' (text) or 'r' (ordered values)
        self.params_val, self.params_none = params_val, params_none
        self.call_val, self.call_none = call_val, call_none
        self.defs, self.done = [], {}


class Ctx(object):
    def __init__(self, mods):
        self.mods = mods                # name -> module
        self.trees = {}

    def tree(self, mod):
        if mod.__name__ not in self.trees:
            self.trees[mod.__name__] = _tree(mod)
        return self.trees[mod.__name__]

    def owner_of(self, cls, meth):
        for k in cls.__mro__:
            if meth in k.__dict__:
                return k
        raise TranslateError('%s has no %s' % (cls, meth))

    def fn(self, cls, meth):
        owner = self.owner_of(cls, meth)
        mod = sys.modules[owner.__module__]
        if '<locals>' in owner.__qualname__:
            raise TranslateError('%s is a factory class' % owner)
        return find_function(self.tree(mod), owner.__qualname__.split('.') + [meth]), owner, mod


# ---------------------------------------------------------------- text values (Unicode)
def translate_text(ctx, fam, cls, meth, kind, mode):
    """kind: 'vs' | 'vn'; mode: 'val' | 'none'.  Returns the Coq name."""
    fn, owner, mod = ctx.fn(cls, meth)
    name = 's%s%s_%s' % (kind, '' if mode == 'val' else '_none', owner.__name__)
    if name in fam.done:
        return name
    if [a.arg for a in fn.args.args] != ['cls', 'value']:
        raise TranslateError('%s.%s: unexpected signature' % (owner.__name__, meth))
    expr = body_as_expr(fn)

    def num(n):
        if isinstance(n, ast.Call) and isinstance(n.func, ast.Name) and n.func.id == 'len' and len(n.args) == 1 \
                and not n.keywords:
            if _is_value(n.args[0]):
                if mode == 'none':
                    raise TranslateError('len(None)')
                return '(Fin (len v))'
            if attr_chain(n.args[0]) == ['cls', 'Attributes', 'values']:
                return '(Fin (Z.of_nat (length (sa_values a))))'
        if isinstance(n, ast.Constant) and isinstance(n.value, int) and not isinstance(n.value, bool):
            return '(Fin (%d))' % n.value
        ch = attr_chain(n)
        if ch == ['cls', 'Attributes', 'min_len']:
            return '(Fin (sa_min_len a))'
        if ch == ['cls', 'Attributes', 'max_len']:
            return '(sa_max_len a)'
        return None

    def cmp(op, l, r):
        a, b = num(l), num(r)
        if a is None or b is None:
            raise TranslateError('%s.%s: unsupported comparison operand %s / %s'
                                 % (owner.__name__, meth, ast.dump(l)[:80], ast.dump(r)[:80]))
        return {'lt': '(ext_ltb %s %s)', 'le': '(ext_leb %s %s)', 'gt': '(ext_ltb %s %s)', 'ge': '(ext_leb %s %s)',
                'eq': '(ext_eqb %s %s)', 'ne': '(negb (ext_eqb %s %s))'}[op] % ((b, a) if op in ('gt', 'ge') else (a, b))

    def is_none(n):
        if _is_value(n):
            return TRUE if mode == 'none' else FALSE
        if attr_chain(n) == ['cls', 'Attributes', 'values']:
            if cls.Attributes.values is None:
                raise TranslateError('Attributes.values is None')
            return FALSE
        return None

    def contains(e, c):
        if _is_value(e) and attr_chain(c) == ['cls', 'Attributes', 'values'] and kind == 'vn':
            if mode == 'none':
                raise TranslateError('None in values')
            return '(existsb (text_eqb v) (sa_values a))'
        raise TranslateError('unsupported membership test')

    def leaf(n):
        if _is_cls_value_call(n, meth):
            parent = getattr(mod, n.func.value.id, None)
            if parent is None or not isinstance(parent, type):
                raise TranslateError('cannot resolve parent class %s' % n.func.value.id)
            pname = translate_text(ctx, fam, parent, meth, kind, mode)
            return '(%s %s)' % (pname, fam.call_val[kind] if mode == 'val' else fam.call_none[kind])
        if isinstance(n, ast.Call) and isinstance(n.func, ast.Name) and n.func.id == 're_match_with_span' \
                and not n.keywords and len(n.args) == 2 and attr_chain(n.args[0]) == ['cls', 'Attributes'] \
                and _is_value(n.args[1]) and kind == 'vn':
            if mode == 'none':
                raise TranslateError('re_match_with_span(None)')
            if getattr(mod, 're_match_with_span', None) is not ctx.mods['pbase'].re_match_with_span:
                raise TranslateError('re_match_with_span is not the one of spyne.model.primitive._base')
            return '(re_match_with_span fullm a v)'
        ch = attr_chain(n)
        if ch in (['cls', 'Attributes', 'nillable'], ['cls', 'Attributes', 'nullable']):
            return '(sa_nillable a)'
        return None

    body = BoolTranslator(leaf, cmp, num, is_none, contains).tr(expr)
    params = fam.params_val[kind] if mode == 'val' else fam.params_none[kind]
    fam.defs.append('Definition %s %s : bool :=\n  %s.\n' % (name, params, body))
    fam.done[name] = True
    return name


RE_MATCH_WITH_SPAN = '''
if attr.pattern is None:
    return True
fullmatch = getattr(attr._pattern_re, 'fullmatch', None)
if fullmatch is not None:
    return fullmatch(value) is not None
m = attr._pattern_re.match(value)
return (m is not None) and (m.span() == (0, len(value)))
'''

def translate_re_match(ctx):
    import re
    pbase = ctx.mods['pbase']
    fn = find_function(ctx.tree(pbase), ['re_match_with_span'])
    if [a.arg for a in fn.args.args] != ['attr', 'value']:
        raise TranslateError('re_match_with_span: unexpected signature')
    if not _same(_strip_doc(fn.body), RE_MATCH_WITH_SPAN):
        raise TranslateError('re_match_with_span: body is not the recognised "no pattern -> True; '
                             'fullmatch(value) is not None; else match + span" shape')
    if not hasattr(re.compile(''), 'fullmatch'):
        raise TranslateError('this interpreter has no Pattern.fullmatch: the fallback branch would run')
    # the pattern attribute and the compiled pattern are set together by the metaclass property
    from spyne.model._base import SimpleModelAttributesMeta
    src = inspect.getsource(SimpleModelAttributesMeta.set_pattern)
    want = ("def set_pattern(self, pattern):\n    self._pattern = pattern\n    if pattern is not None:\n"
            "        self._pattern_re = re.compile(pattern)\n")
    import textwrap
    if ast.dump(ast.parse(textwrap.dedent(src))) != ast.dump(ast.parse(want)):
        raise TranslateError('SimpleModelAttributesMeta.set_pattern: unexpected body')
    return ('(* no pattern: True.  Otherwise Pattern.fullmatch(value) is not None; the match()+span() fallback is\n'
            '   for interpreters without fullmatch and is not reached on this one. *)\n'
            'Definition re_match_with_span (fullm : text -> bool) (a : str_attrs) (v : text) : bool :=\n'
            '  if negb (sa_has_pattern a) then true else fullm v.\n')


# ---------------------------------------------------------------- ordered values (DateTime, Date, Time)
DATETIME_PRELUDE = '''
if isinstance(value, datetime.datetime) and value.tzinfo is None:
    value = value.replace(tzinfo=spyne.LOCAL_TZ)
'''

def translate_range(ctx, fam, cls, meth, mode, localize=False):
    fn, owner, mod = ctx.fn(cls, meth)
    px, rec, OPT = fam.px, fam.rec, fam.opt      # field prefix, record type, bounds that may be None
    name = '%svn%s_%s' % (fam.prefix, '' if mode == 'val' else '_none', owner.__name__)
    if name in fam.done:
        return name
    if [a.arg for a in fn.args.args] != ['cls', 'value']:
        raise TranslateError('%s.%s: unexpected signature' % (owner.__name__, meth))
    body = _strip_doc(fn.body)
    has_prelude = False
    if body and _same(body[:1], DATETIME_PRELUDE):
        # the one statement that rebinds `value`; everything after it sees the localized value
        if getattr(mod, 'datetime', None) is not datetime or getattr(mod, 'spyne', None) is not ctx.mods['spyne']:
            raise TranslateError('%s: datetime / spyne do not name the expected modules' % mod.__name__)
        has_prelude = True
        body = body[1:]
    # the rest: a return expression, possibly spelled with guard clauses and aliasing locals
    expr = body_as_expr(fn, body, frozen=('value', 'cls'))

    def bound(n):
        ch = attr_chain(n)
        if ch and ch[:2] == ['cls', 'Attributes'] and len(ch) == 3 and ch[2] in ('gt', 'ge', 'lt', 'le'):
            return ch[2]
        return None

    def cmp(op, l, r):
        if mode == 'none':
            raise TranslateError('comparison on a None value would raise TypeError')
        if _is_value(l) and bound(r):
            b, flip = bound(r), False
        elif _is_value(r) and bound(l):
            b, flip = bound(l), True
            op = {'lt': 'gt', 'le': 'ge', 'gt': 'lt', 'ge': 'le'}.get(op, op)
        else:
            raise TranslateError('%s.%s: unsupported comparison %s / %s' % (owner.__name__, meth, ast.dump(l)[:60], ast.dump(r)[:60]))
        # now the comparison reads  value <op> bound
        rel = {'gt': '(oo_ltb o %(b)s v)', 'ge': '(oo_leb o %(b)s v)', 'lt': '(oo_ltb o v %(b)s)', 'le': '(oo_leb o v %(b)s)',
               'eq': '(oo_eqb o v %(b)s)', 'ne': '(negb (oo_eqb o v %(b)s))'}[op]
        if b in OPT:
            # compared only where the source has tested `is None` first (that test is a separate conjunct)
            return '(cmp_opt (fun b => %s) (%s%s a))' % (rel % {'b': 'b'}, px, b)
        if getattr(cls.Attributes, b) is None:
            raise TranslateError('%s.Attributes.%s is None but is compared without a guard' % (cls.__name__, b))
        return rel % {'b': '(%s%s a)' % (px, b)}

    def is_none(n):
        if _is_value(n):
            return TRUE if mode == 'none' else FALSE
        b = bound(n)
        if b in OPT:
            return '(is_none (%s%s a))' % (px, b)
        if attr_chain(n) == ['cls', 'Attributes', 'values']:
            if cls.Attributes.values is None:
                raise TranslateError('Attributes.values is None')
            return FALSE
        return None

    def num(n):
        if isinstance(n, ast.Call) and isinstance(n.func, ast.Name) and n.func.id == 'len' and len(n.args) == 1 \
                and attr_chain(n.args[0]) == ['cls', 'Attributes', 'values']:
            return '(Fin (Z.of_nat (length (%svalues a))))' % px
        if isinstance(n, ast.Constant) and isinstance(n.value, int) and not isinstance(n.value, bool):
            return '(Fin (%d))' % n.value
        return None

    def cmp_any(op, l, r):
        a, b = num(l), num(r)
        if a is not None and b is not None:
            return {'lt': '(ext_ltb %s %s)', 'le': '(ext_leb %s %s)', 'gt': '(ext_ltb %s %s)', 'ge': '(ext_leb %s %s)',
                    'eq': '(ext_eqb %s %s)', 'ne': '(negb (ext_eqb %s %s))'}[op] % ((b, a) if op in ('gt', 'ge') else (a, b))
        return cmp(op, l, r)

    def contains(e, c):
        if _is_value(e) and attr_chain(c) == ['cls', 'Attributes', 'values']:
            if mode == 'none':
                raise TranslateError('None in values')
            return '(existsb (oo_eqb o v) (%svalues a))' % px
        raise TranslateError('unsupported membership test')

    def leaf(n):
        if _is_cls_value_call(n, meth):
            parent = getattr(mod, n.func.value.id, None)
            if parent is None or not isinstance(parent, type):
                raise TranslateError('cannot resolve parent class %s' % n.func.value.id)
            pname = translate_range(ctx, fam, parent, meth, mode)
            return '(%s o a v)' % pname if mode == 'val' else '(%s a)' % pname
        ch = attr_chain(n)
        if ch in (['cls', 'Attributes', 'nillable'], ['cls', 'Attributes', 'nullable']):
            return '(%snillable a)' % px
        return None

    text = BoolTranslator(leaf, cmp_any, num, is_none, contains).tr(expr)
    if mode == 'val':
        if has_prelude:
            params = '{V : Type} (o : ord_ops V) (localize : V -> V) (a : %s V) (v0 : V)' % rec
            text = 'let v := localize v0 in\n  ' + text
        else:
            params = '{V : Type} (o : ord_ops V) (a : %s V) (v : V)' % rec
    else:
        # isinstance(None, datetime.datetime) is False: the prelude does nothing for None
        params = '{V : Type} (a : %s V)' % rec
    fam.defs.append('Definition %s %s : bool :=\n  %s.\n' % (name, params, text))
    fam.done[name] = has_prelude
    return name


def local_tz_minutes(spyne):
    tz = spyne.LOCAL_TZ
    off = tz.utcoffset(None) if hasattr(tz, 'utcoffset') else None
    if off is None:
        try:
            off = tz.utcoffset(datetime.datetime(2020, 1, 1))
        except Exception:
            off = None
    if off is None:
        raise TranslateError('spyne.LOCAL_TZ has no fixed UTC offset')
    us = (off.days * 86400 + off.seconds) * 1000000 + off.microseconds
    if us % 60000000:
        raise TranslateError('spyne.LOCAL_TZ offset is not a whole number of minutes')
    return us // 60000000


def generate(repo):
    spyne = importlib.import_module('spyne')
    mbase = importlib.import_module('spyne.model._base')
    pbase = importlib.import_module('spyne.model.primitive._base')
    string = importlib.import_module('spyne.model.primitive.string')
    dtm = importlib.import_module('spyne.model.primitive.datetime')
    for m in (spyne, mbase, pbase, string, dtm):
        if not m.__file__.startswith(repo.rstrip('/') + '/'):
            raise TranslateError('%s imported from %s, not from %s' % (m.__name__, m.__file__, repo))
    ctx = Ctx({'spyne': spyne, 'mbase': mbase, 'pbase': pbase, 'string': string, 'dtm': dtm})
    out = ['(* GENERATED by harness/translate/facettypes.py from spyne/model/_base.py, spyne/model/primitive/_base.py,',
           '   spyne/model/primitive/string.py and spyne/model/primitive/datetime.py. Do not edit. *)',
           'From SpyneV Require Import C05.Facets.', 'Open Scope Z_scope.', '']
    # ---- text
    sf = Family('s',
                {'vs': '(a : str_attrs) (v : text)', 'vn': '(fullm : text -> bool) (a : str_attrs) (v : text)'},
                {'vs': '(a : str_attrs)', 'vn': '(a : str_attrs)'},
                {'vs': 'a v', 'vn': 'fullm a v'}, {'vs': 'a', 'vn': 'a'})
    out.append(translate_re_match(ctx))
    U = string.Unicode
    names = {}
    for kind, meth in (('vs', 'validate_string'), ('vn', 'validate_native')):
        for mode in ('val', 'none'):
            names[(kind, mode)] = translate_text(ctx, sf, U, meth, kind, mode)
    out.extend(sf.defs)
    A = U.Attributes
    if A.min_len != 0 or A.pattern is not None or A.values or str(A.max_len) != 'Infinity' or A.nillable != A.nullable:
        raise TranslateError('unexpected default attributes of Unicode')
    if getattr(A, 'empty_is_none', False) or getattr(A, 'encoding', None) is not None \
            or getattr(A, 'format', None) is not None or getattr(A, 'cast', None) is not None:
        raise TranslateError('Unicode defaults: empty_is_none / encoding / format / cast are not the modelled ones')
    out.append('Definition attrs_Unicode : str_attrs :=\n  {| sa_nillable := %s; sa_min_len := 0; sa_max_len := PosInf; '
               'sa_has_pattern := false; sa_values := [] |}.' % ('true' if A.nillable else 'false'))
    out.append('Definition class_Unicode : str_type := mk_str_type %s %s %s %s.' % (
        names[('vs', 'val')], names[('vs', 'none')], names[('vn', 'val')], names[('vn', 'none')]))
    out.append('')
    # ---- ordered values
    rf = Family('r', None, None, None, None)
    rf.px, rf.rec, rf.opt = 'ra_', 'rng_attrs', ('gt', 'lt')
    dt_val = translate_range(ctx, rf, dtm.DateTime, 'validate_native', 'val')
    dt_none = translate_range(ctx, rf, dtm.DateTime, 'validate_native', 'none')
    if ctx.owner_of(dtm.Date, 'validate_native') is not dtm.DateTime:
        raise TranslateError('Date no longer inherits DateTime.validate_native')
    tm_val = translate_range(ctx, rf, dtm.Time, 'validate_native', 'val')
    tm_none = translate_range(ctx, rf, dtm.Time, 'validate_native', 'none')
    if not rf.done[dt_val] or rf.done[tm_val]:
        raise TranslateError('the naive-value rule is expected in DateTime.validate_native and not in Time.validate_native')
    out.extend(rf.defs)
    out.append('(* spyne.LOCAL_TZ as minutes east of UTC *)')
    out.append('Definition local_tz_minutes : Z := (%d).' % local_tz_minutes(spyne))
    out.append('Definition validate_native_DateTime {V} := @%s V.' % dt_val)
    out.append('Definition validate_native_none_DateTime {V} := @%s V.' % dt_none)
    out.append('Definition validate_native_Time {V} := @%s V.' % tm_val)
    out.append('Definition validate_native_none_Time {V} := @%s V.' % tm_none)
    # defaults that the proofs and the case generator rely on
    for cn, C in (('DateTime', dtm.DateTime), ('Date', dtm.Date), ('Time', dtm.Time)):
        D = C.Attributes
        if D.gt is not None or D.lt is not None or D.ge is None or D.le is None or D.values:
            raise TranslateError('%s: unexpected default range attributes' % cn)
    # ---- Decimal: all four bounds always hold a value (the defaults are Decimal('-inf') / Decimal('inf'))
    number = importlib.import_module('spyne.model.primitive.number')
    if not number.__file__.startswith(repo.rstrip('/') + '/'):
        raise TranslateError('spyne.model.primitive.number imported from %s' % number.__file__)
    df = Family('r4', None, None, None, None)
    df.px, df.rec, df.opt = 'r4_', 'rng4_attrs', ()
    dv = translate_range(ctx, df, number.Decimal, 'validate_native', 'val')
    dn = translate_range(ctx, df, number.Decimal, 'validate_native', 'none')
    if df.done[dv]:
        raise TranslateError('unexpected statement before the return of Decimal.validate_native')
    out.append('')
    out.extend(df.defs)
    out.append('Definition validate_native_Decimal {V} := @%s V.' % dv)
    out.append('Definition validate_native_none_Decimal {V} := @%s V.' % dn)
    DA = number.Decimal.Attributes
    import decimal
    if (DA.gt, DA.ge, DA.lt, DA.le) != (decimal.Decimal('-inf'), decimal.Decimal('-inf'), decimal.Decimal('inf'), decimal.Decimal('inf')) or DA.values:
        raise TranslateError('Decimal: unexpected default range attributes')
    return {'FacetTypes.v': '\n'.join(out) + '\n'}
