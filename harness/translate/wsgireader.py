"""spyne/server/wsgi.py (the bounded request-body reader)  ->  Gen/WsgiReader.v

The statement skeleton of ``WsgiApplication.__wsgi_input_to_iterable`` and
``WsgiApplication.__read_wsgi_input`` is compared, token for token (``ast.unparse`` of the
function with the decisive expressions cut out), with the skeleton the hand-written loop of
coq/C13/Model.v mirrors; the decisive expressions themselves - the comparison of the declared
length with the limit, the loop condition, the size of the next read, the guard inside the loop,
the end-of-stream test, the test after the loop, the length used when none is declared - are
translated to Gallina and *used by* the model, so the C13 theorems about the reader are re-proved
against the operators and operands the working tree contains.

Unlike the other translators this one always writes a compilable file: when the skeleton is not
the expected one (e.g. the unrepaired tree) it writes ``shape_ok := false`` together with the
expressions of the repaired reader, and harness/c13.py reports the tie as broken.  A build of the
whole development therefore never fails because of the shape of wsgi.py.
"""
import ast, copy, os

from .pyexpr import TranslateError

SKELETON_1 = '''def __wsgi_input_to_iterable(self, http_env):
    istream = http_env.get('wsgi.input')
    length = http_env.get('CONTENT_LENGTH')
    declared = length is not None
    if declared:
        length = str(length)
        if len(length) == 0:
            length = HOLE_empty_length
        else:
            try:
                length = int(length)
            except ValueError:
                raise ValidationError(length, '%r is not a valid Content-Length value')
    else:
        length = HOLE_undeclared_length
    if HOLE_up_front_too_long:
        raise RequestTooLongError()
    return self.__read_wsgi_input(istream, length, declared)'''

SKELETON_2 = '''def __read_wsgi_input(self, istream, length, declared):
    bytes_read = 0
    while HOLE_loop_cond:
        bytes_to_read = HOLE_to_read
        if HOLE_loop_too_long:
            raise RequestTooLongError()
        data = istream.read(bytes_to_read)
        if HOLE_eof:
            return
        bytes_read += len(data)
        yield data
    if HOLE_after_loop_too_long:
        raise RequestTooLongError()'''

# what the repaired reader contains; written when the skeleton does not match (shape_ok = false)
FALLBACK = {
    'empty_length': '0', 'undeclared_length': 'mcl', 'up_front_too_long': '(length >? mcl)',
    'loop_cond': '(bytes_read <? length)', 'to_read': '(Z.min bl (length - bytes_read))',
    'loop_too_long': '((bytes_to_read + bytes_read) >? mcl)', 'eof': '(data_is_none || (len_data =? 0))',
    'after_loop_too_long': '(negb declared)',
}

SIGS = [  # name, parameters, result type
    ('empty_length', '', 'Z'),
    ('undeclared_length', '(mcl bl : Z)', 'Z'),
    ('up_front_too_long', '(mcl bl length : Z)', 'bool'),
    ('loop_cond', '(mcl bl length bytes_read : Z) (declared : bool)', 'bool'),
    ('to_read', '(mcl bl length bytes_read : Z)', 'Z'),
    ('loop_too_long', '(mcl bl length bytes_read bytes_to_read : Z)', 'bool'),
    ('eof', '(data_is_none : bool) (len_data : Z)', 'bool'),
    ('after_loop_too_long', '(mcl bl length bytes_read : Z) (declared : bool)', 'bool'),
]
SCOPE = {
    'empty_length': set(), 'undeclared_length': {'mcl', 'bl'}, 'up_front_too_long': {'mcl', 'bl', 'length'},
    'loop_cond': {'mcl', 'bl', 'length', 'bytes_read', 'declared'}, 'to_read': {'mcl', 'bl', 'length', 'bytes_read'},
    'loop_too_long': {'mcl', 'bl', 'length', 'bytes_read', 'bytes_to_read'}, 'eof': {'data_is_none', 'len_data'},
    'after_loop_too_long': {'mcl', 'bl', 'length', 'bytes_read', 'declared'},
}
ZVARS = {'length', 'bytes_read', 'bytes_to_read'}
BVARS = {'declared'}


class Expr(object):
    """Python expression -> Gallina, over Z and bool, for one hole"""

    def __init__(self, hole):
        self.scope = SCOPE[hole]
        self.hole = hole

    def var(self, name):
        if name not in self.scope:
            raise TranslateError('%s: %s is not in scope at this point of the reader' % (self.hole, name))
        return name

    def z(self, n):
        if isinstance(n, ast.Constant) and type(n.value) is int:
            return '(%d)' % n.value
        if isinstance(n, ast.Name) and n.id in ZVARS:
            return self.var(n.id)
        if isinstance(n, ast.Attribute) and isinstance(n.value, ast.Name) and n.value.id == 'self':
            if n.attr == 'max_content_length':
                return self.var('mcl')
            if n.attr == 'block_length':
                return self.var('bl')
        if isinstance(n, ast.BinOp) and isinstance(n.op, (ast.Add, ast.Sub)):
            return '(%s %s %s)' % (self.z(n.left), '+' if isinstance(n.op, ast.Add) else '-', self.z(n.right))
        if isinstance(n, ast.Call) and isinstance(n.func, ast.Name) and not n.keywords:
            if n.func.id in ('min', 'max') and len(n.args) == 2:
                return '(Z.%s %s %s)' % (n.func.id, self.z(n.args[0]), self.z(n.args[1]))
            if n.func.id == 'len' and len(n.args) == 1 and isinstance(n.args[0], ast.Name) and n.args[0].id == 'data':
                return self.var('len_data')
        raise TranslateError('%s: unsupported integer expression %s' % (self.hole, ast.unparse(n)))

    def b(self, n):
        if isinstance(n, ast.Name) and n.id in BVARS:
            return self.var(n.id)
        if isinstance(n, ast.UnaryOp) and isinstance(n.op, ast.Not):
            return '(negb %s)' % self.b(n.operand)
        if isinstance(n, ast.BoolOp):
            op = ' && ' if isinstance(n.op, ast.And) else ' || '
            return '(' + op.join(self.b(v) for v in n.values) + ')'
        if isinstance(n, ast.Compare) and len(n.ops) == 1:
            op, l, r = n.ops[0], n.left, n.comparators[0]
            if isinstance(op, (ast.Is, ast.IsNot)) and isinstance(l, ast.Name) and l.id == 'data' \
                    and isinstance(r, ast.Constant) and r.value is None:
                t = self.var('data_is_none')
                return t if isinstance(op, ast.Is) else '(negb %s)' % t
            sym = {ast.Lt: '<?', ast.LtE: '<=?', ast.Gt: '>?', ast.GtE: '>=?', ast.Eq: '=?'}.get(type(op))
            if sym:
                return '(%s %s %s)' % (self.z(l), sym, self.z(r))
            if isinstance(op, ast.NotEq):
                return '(negb (%s =? %s))' % (self.z(l), self.z(r))
        raise TranslateError('%s: unsupported boolean expression %s' % (self.hole, ast.unparse(n)))


def _find(tree, cls, name):
    for c in tree.body:
        if isinstance(c, ast.ClassDef) and c.name == cls:
            for f in c.body:
                if isinstance(f, ast.FunctionDef) and f.name == name:
                    return f
    raise TranslateError('%s.%s not found' % (cls, name))


def _strip_doc(fn):
    fn = copy.deepcopy(fn)
    if fn.body and isinstance(fn.body[0], ast.Expr) and isinstance(fn.body[0].value, ast.Constant) \
            and isinstance(fn.body[0].value.value, str):
        fn.body = fn.body[1:]
    fn.decorator_list = []
    return fn


def _cut(fn, paths):
    """replace the nodes at `paths` (hole -> accessor) by HOLE names; returns (skeleton text, {hole: node})"""
    fn = _strip_doc(fn)
    holes = {}
    for hole, (get, put) in paths.items():
        holes[hole] = get(fn)
        put(fn, ast.Name(id='HOLE_' + hole, ctx=ast.Load()))
    return ast.unparse(fn), holes


def _attr(path):
    """accessor pair for a dotted path like 'body.3.body.1.body.0.value'"""
    parts = [int(p) if p.isdigit() else p for p in path.split('.')]

    def walk(node, parts):
        for p in parts:
            node = node[p] if isinstance(p, int) else getattr(node, p)
        return node

    def get(fn):
        return walk(fn, parts)

    def put(fn, new):
        parent = walk(fn, parts[:-1])
        if isinstance(parts[-1], int):
            parent[parts[-1]] = new
        else:
            setattr(parent, parts[-1], new)
    return get, put


PATHS_1 = {'empty_length': _attr('body.3.body.1.body.0.value'), 'undeclared_length': _attr('body.3.orelse.0.value'),
           'up_front_too_long': _attr('body.4.test')}
PATHS_2 = {'loop_cond': _attr('body.1.test'), 'to_read': _attr('body.1.body.0.value'),
           'loop_too_long': _attr('body.1.body.1.test'), 'eof': _attr('body.1.body.3.test'),
           'after_loop_too_long': _attr('body.2.test')}
KIND = {'empty_length': 'z', 'undeclared_length': 'z', 'up_front_too_long': 'b', 'loop_cond': 'b', 'to_read': 'z',
        'loop_too_long': 'b', 'eof': 'b', 'after_loop_too_long': 'b'}


def extract(repo):
    src = open(os.path.join(repo, 'spyne', 'server', 'wsgi.py')).read()
    tree = ast.parse(src)
    out = {}
    for name, skeleton, paths in (('__wsgi_input_to_iterable', SKELETON_1, PATHS_1),
                                  ('__read_wsgi_input', SKELETON_2, PATHS_2)):
        fn = _find(tree, 'WsgiApplication', name)
        try:
            text, holes = _cut(fn, paths)
        except (AttributeError, IndexError, TypeError, KeyError) as e:
            raise TranslateError('%s does not have the expected statement structure (%s)' % (name, e))
        if text != skeleton:
            import difflib
            d = [l for l in difflib.unified_diff(skeleton.split('\n'), text.split('\n'), lineterm='', n=0)
                 if not l.startswith(('---', '+++', '@@'))]
            raise TranslateError('%s: statement skeleton differs from the modelled one: %s' % (name, ' / '.join(d)[:400]))
        for hole, node in holes.items():
            e = Expr(hole)
            out[hole] = (e.z(node) if KIND[hole] == 'z' else e.b(node), ast.unparse(node))
    return out


def generate(repo):
    try:
        exprs = extract(repo)
        ok, why = True, ''
    except TranslateError as e:
        exprs = {k: (v, 'fallback: expression of the repaired reader') for k, v in FALLBACK.items()}
        ok, why = False, str(e)
    lines = ['(** GENERATED by harness/translate/wsgireader.py from spyne/server/wsgi.py',
             '    (WsgiApplication.__wsgi_input_to_iterable / __read_wsgi_input). Do not edit. *)',
             'From Coq Require Import ZArith Bool.', 'Open Scope Z_scope.', '']
    if not ok:
        lines.append('(* SHAPE MISMATCH: %s *)' % why.replace('*)', '* )').replace('(*', '( *'))
    lines.append('Definition shape_ok : bool := %s.' % ('true' if ok else 'false'))
    lines.append('')
    for name, params, ty in SIGS:
        coq, py = exprs[name]
        lines.append('(* %s *)' % py.replace('*)', '* )'))
        lines.append('Definition rd_%s %s : %s := %s.' % (name, params, ty, coq))
    return {'WsgiReader.v': '\n'.join(lines) + '\n'}
