"""spyne/server/wsgi.py (the bounded request-body reader)  ->  Gen/WsgiReader.v

The statement skeleton of ``WsgiApplication.__wsgi_input_to_iterable`` and of the private generator
it returns (``__read_wsgi_input``) is compared, token for token (``ast.unparse`` of the *normalised*
function with the decisive expressions cut out), with the skeleton the hand-written loop of
coq/C13/Model.v mirrors; the decisive expressions themselves - the comparison of the declared
length with the limit, the loop condition, the size of the next read, the guard inside the loop,
the end-of-stream test, the test after the loop, the length used when none is declared - are
translated to Gallina and *used by* the model, so the C13 theorems about the reader are re-proved
against the operators and operands the working tree contains.

Unlike the other translators this one always writes a compilable file: when the skeleton is not
the expected one (e.g. the unrepaired tree) it writes ``shape_ok := false`` together with the
expressions of the repaired reader, and harness/c13.py reports the tie as broken.  A build of the
whole development therefore never fails because of the shape of wsgi.py.

Normalisation (behaviour-preserving by construction, everything else still fails closed):

* the two functions are found by *following the calls*: the entry is the name-mangled private method
  ``__reconstruct_wsgi_request`` returns a call of (``__wsgi_input_to_iterable`` when it exists), the
  generator is the name-mangled private method of the same class the entry returns a call of.  A
  ``self.__x`` reference inside the class body can only reach ``_WsgiApplication__x``, so the private
  names are bound names like locals; each must be defined exactly once in the class;
* single-assignment temporaries holding a *pure* expression (locals, ``self.<attr>``, int constants,
  ``+``/``-``, comparisons, ``min``/``max``/``len``) whose every use lies in the directly following
  pure assignments (or the test of a directly following ``if``) of the same block, with no operand
  rebound in between, are substituted into their uses (``a = self.block_length; b = length - n;
  m = min(a, b)`` == ``m = min(self.block_length, length - n)``);
* parameters and locals are alpha-renamed, by order of first binding, to the names of the skeleton;
  refused when a free (global / builtin) name of the function would be captured, when the number of
  bound names differs, or when the function has nested scopes, ``global``/``nonlocal`` or looks at
  its own namespace (``locals``/``vars``/``eval``/``exec``/``dir``/``globals``).

Exception classes, call targets, message texts, statement order and every operator stay pinned.
"""
import ast, collections, copy, os

from .pyexpr import TranslateError

SKELETON_1 = '''def __wsgi_input_to_iterable(self, http_env):
    istream = http_env.get('wsgi.input')
    length = http_env.get('CONTENT_LENGTH')
    declared = length is not None
    if declared:
        length = str(length)
        if len(length) == 0:
            length = HOLE_empty_length
        else:
            try:
                length = int(length)
            except ValueError:
                raise ValidationError(length, '%r is not a valid Content-Length value')
    else:
        length = HOLE_undeclared_length
    if HOLE_up_front_too_long:
        raise RequestTooLongError()
    return self.__read_wsgi_input(istream, length, declared)'''

SKELETON_2 = '''def __read_wsgi_input(self, istream, length, declared):
    bytes_read = 0
    while HOLE_loop_cond:
        bytes_to_read = HOLE_to_read
        if HOLE_loop_too_long:
            raise RequestTooLongError()
        data = istream.read(bytes_to_read)
        if HOLE_eof:
            return
        bytes_read += len(data)
        yield data
    if HOLE_after_loop_too_long:
        raise RequestTooLongError()'''

# what the repaired reader contains; written when the skeleton does not match (shape_ok = false)
FALLBACK = {
    'empty_length': '0', 'undeclared_length': 'mcl', 'up_front_too_long': '(length >? mcl)',
    'loop_cond': '(bytes_read <? length)', 'to_read': '(Z.min bl (length - bytes_read))',
    'loop_too_long': '((bytes_to_read + bytes_read) >? mcl)', 'eof': '(data_is_none || (len_data =? 0))',
    'after_loop_too_long': '(negb declared)',
}

SIGS = [  # name, parameters, result type
    ('empty_length', '', 'Z'),
    ('undeclared_length', '(mcl bl : Z)', 'Z'),
    ('up_front_too_long', '(mcl bl length : Z)', 'bool'),
    ('loop_cond', '(mcl bl length bytes_read : Z) (declared : bool)', 'bool'),
    ('to_read', '(mcl bl length bytes_read : Z)', 'Z'),
    ('loop_too_long', '(mcl bl length bytes_read bytes_to_read : Z)', 'bool'),
    ('eof', '(data_is_none : bool) (len_data : Z)', 'bool'),
    ('after_loop_too_long', '(mcl bl length bytes_read : Z) (declared : bool)', 'bool'),
]
SCOPE = {
    'empty_length': set(), 'undeclared_length': {'mcl', 'bl'}, 'up_front_too_long': {'mcl', 'bl', 'length'},
    'loop_cond': {'mcl', 'bl', 'length', 'bytes_read', 'declared'}, 'to_read': {'mcl', 'bl', 'length', 'bytes_read'},
    'loop_too_long': {'mcl', 'bl', 'length', 'bytes_read', 'bytes_to_read'}, 'eof': {'data_is_none', 'len_data'},
    'after_loop_too_long': {'mcl', 'bl', 'length', 'bytes_read', 'declared'},
}
ZVARS = {'length', 'bytes_read', 'bytes_to_read'}
BVARS = {'declared'}


class Expr(object):
    """Python expression -> Gallina, over Z and bool, for one hole"""

    def __init__(self, hole):
        self.scope = SCOPE[hole]
        self.hole = hole

    def var(self, name):
        if name not in self.scope:
            raise TranslateError('%s: %s is not in scope at this point of the reader' % (self.hole, name))
        return name

    def z(self, n):
        if isinstance(n, ast.Constant) and type(n.value) is int:
            return '(%d)' % n.value
        if isinstance(n, ast.Name) and n.id in ZVARS:
            return self.var(n.id)
        if isinstance(n, ast.Attribute) and isinstance(n.value, ast.Name) and n.value.id == 'self':
            if n.attr == 'max_content_length':
                return self.var('mcl')
            if n.attr == 'block_length':
                return self.var('bl')
        if isinstance(n, ast.BinOp) and isinstance(n.op, (ast.Add, ast.Sub)):
            return '(%s %s %s)' % (self.z(n.left), '+' if isinstance(n.op, ast.Add) else '-', self.z(n.right))
        if isinstance(n, ast.Call) and isinstance(n.func, ast.Name) and not n.keywords:
            if n.func.id in ('min', 'max') and len(n.args) == 2:
                return '(Z.%s %s %s)' % (n.func.id, self.z(n.args[0]), self.z(n.args[1]))
            if n.func.id == 'len' and len(n.args) == 1 and isinstance(n.args[0], ast.Name) and n.args[0].id == 'data':
                return self.var('len_data')
        raise TranslateError('%s: unsupported integer expression %s' % (self.hole, ast.unparse(n)))

    def b(self, n):
        if isinstance(n, ast.Name) and n.id in BVARS:
            return self.var(n.id)
        if isinstance(n, ast.UnaryOp) and isinstance(n.op, ast.Not):
            return '(negb %s)' % self.b(n.operand)
        if isinstance(n, ast.BoolOp):
            op = ' && ' if isinstance(n.op, ast.And) else ' || '
            return '(' + op.join(self.b(v) for v in n.values) + ')'
        if isinstance(n, ast.Compare) and len(n.ops) == 1:
            op, l, r = n.ops[0], n.left, n.comparators[0]
            if isinstance(op, (ast.Is, ast.IsNot)) and isinstance(l, ast.Name) and l.id == 'data' \
                    and isinstance(r, ast.Constant) and r.value is None:
                t = self.var('data_is_none')
                return t if isinstance(op, ast.Is) else '(negb %s)' % t
            sym = {ast.Lt: '<?', ast.LtE: '<=?', ast.Gt: '>?', ast.GtE: '>=?', ast.Eq: '=?'}.get(type(op))
            if sym:
                return '(%s %s %s)' % (self.z(l), sym, self.z(r))
            if isinstance(op, ast.NotEq):
                return '(negb (%s =? %s))' % (self.z(l), self.z(r))
        raise TranslateError('%s: unsupported boolean expression %s' % (self.hole, ast.unparse(n)))


def _strip_doc(fn):
    fn = copy.deepcopy(fn)
    if fn.body and isinstance(fn.body[0], ast.Expr) and isinstance(fn.body[0].value, ast.Constant) \
            and isinstance(fn.body[0].value.value, str):
        fn.body = fn.body[1:]
    fn.decorator_list = []
    return fn


ENTRY, READER, CALLER = '__wsgi_input_to_iterable', '__read_wsgi_input', '__reconstruct_wsgi_request'
PURE_CALLS = ('min', 'max', 'len')
NAMESPACE_PEEKERS = ('locals', 'vars', 'eval', 'exec', 'dir', 'globals', 'compile', '__import__')


def _private(name):
    return isinstance(name, str) and name.startswith('__') and not name.endswith('__')


def _class(tree, cls):
    found = [c for c in tree.body if isinstance(c, ast.ClassDef) and c.name == cls]
    if len(found) != 1:
        raise TranslateError('class %s is defined %d times' % (cls, len(found)))
    return found[0]


def _method(cdef, name):
    """the one and only binding of `name` in the class body must be a plain def"""
    found = [f for f in cdef.body if isinstance(f, ast.FunctionDef) and f.name == name]
    other = [n for st in cdef.body if not isinstance(st, ast.FunctionDef) for n in ast.walk(st)
             if (isinstance(n, ast.Name) and isinstance(n.ctx, ast.Store) and n.id == name)
             or (isinstance(n, (ast.AsyncFunctionDef, ast.ClassDef)) and n.name == name)]
    if len(found) != 1 or other:
        raise TranslateError('%s.%s is bound %d times in the class body' % (cdef.name, name, len(found) + len(other)))
    if found[0].decorator_list:
        raise TranslateError('%s.%s is decorated' % (cdef.name, name))
    return found[0]


def _self_call(node, fn, what):
    """node must be self.__x(...) with a name-mangled __x; returns the Attribute node"""
    if not (isinstance(node, ast.Call) and isinstance(node.func, ast.Attribute) and isinstance(node.func.value, ast.Name)
            and fn.args.args and node.func.value.id == fn.args.args[0].arg and _private(node.func.attr)):
        raise TranslateError('%s: %s is not a call of a private method of the same class' % (fn.name, what))
    return node.func


def _params(fn):
    a = fn.args
    return [x.arg for x in a.posonlyargs + a.args] + ([a.vararg.arg] if a.vararg else []) + \
           [x.arg for x in a.kwonlyargs] + ([a.kwarg.arg] if a.kwarg else [])


def _walk_in_order(node):
    yield node
    for c in ast.iter_child_nodes(node):
        for x in _walk_in_order(c):
            yield x


def _bound(fn):
    """parameters, then every other name the function binds, by order of first binding in the source"""
    out = _params(fn)
    for st in fn.body:
        for n in _walk_in_order(st):
            if isinstance(n, (ast.FunctionDef, ast.AsyncFunctionDef, ast.ClassDef, ast.Lambda, ast.ListComp, ast.SetComp,
                              ast.DictComp, ast.GeneratorExp, ast.Global, ast.Nonlocal, ast.Import, ast.ImportFrom,
                              ast.NamedExpr, ast.Match)):
                raise TranslateError('%s: %s inside the reader is not modelled' % (fn.name, type(n).__name__))
            if isinstance(n, ast.Name) and isinstance(n.ctx, ast.Load) and n.id in NAMESPACE_PEEKERS:
                raise TranslateError('%s: uses %s' % (fn.name, n.id))
            name = n.id if isinstance(n, ast.Name) and isinstance(n.ctx, (ast.Store, ast.Del)) else \
                n.name if isinstance(n, ast.ExceptHandler) and n.name else None
            if name is not None and name not in out:
                out.append(name)
    return out


def _is_pure(n, bound, selfname):
    """an expression without effects whose value depends only on locals and attributes of self"""
    if isinstance(n, ast.Constant):
        return n.value is None or type(n.value) in (int, bool)
    if isinstance(n, ast.Name):
        return isinstance(n.ctx, ast.Load) and n.id in bound
    if isinstance(n, ast.Attribute):
        return isinstance(n.ctx, ast.Load) and isinstance(n.value, ast.Name) and n.value.id == selfname
    if isinstance(n, ast.BinOp):
        return isinstance(n.op, (ast.Add, ast.Sub)) and _is_pure(n.left, bound, selfname) and _is_pure(n.right, bound, selfname)
    if isinstance(n, ast.UnaryOp):
        return isinstance(n.op, (ast.Not, ast.USub)) and _is_pure(n.operand, bound, selfname)
    if isinstance(n, ast.BoolOp):
        return all(_is_pure(v, bound, selfname) for v in n.values)
    if isinstance(n, ast.Compare):
        return all(isinstance(o, (ast.Lt, ast.LtE, ast.Gt, ast.GtE, ast.Eq, ast.NotEq, ast.Is, ast.IsNot)) for o in n.ops) \
            and all(_is_pure(v, bound, selfname) for v in [n.left] + n.comparators)
    if isinstance(n, ast.Call):
        return isinstance(n.func, ast.Name) and n.func.id in PURE_CALLS and n.func.id not in bound and not n.keywords \
            and all(_is_pure(a, bound, selfname) for a in n.args)
    return False


def _blocks(fn):
    for n in ast.walk(fn):
        for f in ('body', 'orelse', 'finalbody'):
            b = getattr(n, f, None)
            if isinstance(b, list) and b and isinstance(b[0], ast.stmt):
                yield b


class _Subst(ast.NodeTransformer):
    def __init__(self, name, value):
        self.name, self.value, self.n = name, value, 0

    def visit_Name(self, node):
        if node.id == self.name and isinstance(node.ctx, ast.Load):
            self.n += 1
            return copy.deepcopy(self.value)
        return node


def _inline_temporaries(fn):
    """t = <pure>; ...pure assignments / one `if <pure>:` using t...   ==   the same with <pure> in place of t"""
    bound = set(_bound(fn))
    if not fn.args.args:
        return
    selfname = fn.args.args[0].arg

    def pure_assign(st):
        return isinstance(st, ast.Assign) and len(st.targets) == 1 and isinstance(st.targets[0], ast.Name) \
            and _is_pure(st.value, bound, selfname)

    def once():
        stores = collections.Counter(_params(fn))
        loads = collections.Counter()
        for n in ast.walk(fn):
            if isinstance(n, ast.Name):
                (loads if isinstance(n.ctx, ast.Load) else stores)[n.id] += 1
            elif isinstance(n, ast.ExceptHandler) and n.name:
                stores[n.name] += 1
            elif isinstance(n, ast.AugAssign) and isinstance(n.target, ast.Name):
                loads[n.target.id] += 1      # x += e reads x
        for block in _blocks(fn):
            for i, st in enumerate(block):
                if not pure_assign(st):
                    continue
                t = st.targets[0].id
                if stores[t] != 1 or loads[t] == 0:
                    continue
                reads = {n.id for n in ast.walk(st.value) if isinstance(n, ast.Name)}
                sites = []          # (statement, attribute holding the expression evaluated there)
                for nxt in block[i + 1:]:
                    if pure_assign(nxt):
                        sites.append((nxt, 'value'))
                        if nxt.targets[0].id in reads:
                            break   # an operand of the temporary is rebound: later uses would see the new value
                    else:
                        if isinstance(nxt, ast.If) and _is_pure(nxt.test, bound, selfname):
                            sites.append((nxt, 'test'))
                        break
                used = sum(1 for s, f in sites for n in ast.walk(getattr(s, f))
                           if isinstance(n, ast.Name) and n.id == t and isinstance(n.ctx, ast.Load))
                if used != loads[t]:
                    continue        # used somewhere else as well: keep it (the skeleton comparison decides)
                for s, f in sites:
                    setattr(s, f, _Subst(t, st.value).visit(getattr(s, f)))
                del block[i]
                return True
        return False

    for _ in range(64):
        if not once():
            return
    raise TranslateError('%s: temporaries do not reach a fixed point' % fn.name)


class _Rename(ast.NodeTransformer):
    def __init__(self, table):
        self.table = table

    def visit_Name(self, node):
        node.id = self.table.get(node.id, node.id)
        return node

    def visit_arg(self, node):
        node.arg = self.table.get(node.arg, node.arg)
        return node

    def visit_ExceptHandler(self, node):
        if node.name:
            node.name = self.table.get(node.name, node.name)
        return self.generic_visit(node)


def _alpha(fn, skeleton):
    """rename the bound names of fn, by order of first binding, to those of the skeleton"""
    want = _bound(ast.parse(skeleton).body[0])
    have = _bound(fn)
    if len(want) != len(have):
        raise TranslateError('%s binds %d names (%s), the modelled reader %d (%s)'
                             % (fn.name, len(have), ', '.join(have), len(want), ', '.join(want)))
    free = {n.id for n in ast.walk(fn) if isinstance(n, ast.Name)} - set(have)
    captured = free & set(want)
    if captured:
        raise TranslateError('%s reads the non-local name(s) %s, which the modelled reader uses for a local'
                             % (fn.name, ', '.join(sorted(captured))))
    _Rename(dict(zip(have, want))).visit(fn)


def _normalise(fn, skeleton, canonical_name):
    fn = _strip_doc(fn)
    fn.name = canonical_name
    fn.returns = None
    for a in ast.walk(fn.args):
        if isinstance(a, ast.arg):
            a.annotation = None
    _inline_temporaries(fn)
    _alpha(fn, skeleton)
    return fn


def _locate(tree):
    """(entry, reader) as normalised copies; the private names are followed, not pinned"""
    cdef = _class(tree, 'WsgiApplication')
    if any(isinstance(f, ast.FunctionDef) and f.name == ENTRY for f in cdef.body):
        entry = _method(cdef, ENTRY)
    else:
        caller = _method(cdef, CALLER)
        last = caller.body[-1]
        if not (isinstance(last, ast.Return) and isinstance(last.value, ast.Tuple) and len(last.value.elts) == 2):
            raise TranslateError('%s does not end in `return <body iterable>, charset`' % CALLER)
        entry = _method(cdef, _self_call(last.value.elts[0], caller, 'the body iterable it returns').attr)
    entry = _normalise(entry, SKELETON_1, ENTRY)
    last = entry.body[-1] if entry.body else None
    if not isinstance(last, ast.Return):
        raise TranslateError('%s does not end in a return' % ENTRY)
    ref = _self_call(last.value, entry, 'what it returns')
    reader = _normalise(_method(cdef, ref.attr), SKELETON_2, READER)
    ref.attr = READER
    return entry, reader


def _cut(fn, paths):
    """replace the nodes at `paths` (hole -> accessor) by HOLE names; returns (skeleton text, {hole: node})"""
    holes = {}
    for hole, (get, put) in paths.items():
        holes[hole] = get(fn)
        put(fn, ast.Name(id='HOLE_' + hole, ctx=ast.Load()))
    return ast.unparse(fn), holes


def _attr(path):
    """accessor pair for a dotted path like 'body.3.body.1.body.0.value'"""
    parts = [int(p) if p.isdigit() else p for p in path.split('.')]

    def walk(node, parts):
        for p in parts:
            node = node[p] if isinstance(p, int) else getattr(node, p)
        return node

    def get(fn):
        return walk(fn, parts)

    def put(fn, new):
        parent = walk(fn, parts[:-1])
        if isinstance(parts[-1], int):
            parent[parts[-1]] = new
        else:
            setattr(parent, parts[-1], new)
    return get, put


PATHS_1 = {'empty_length': _attr('body.3.body.1.body.0.value'), 'undeclared_length': _attr('body.3.orelse.0.value'),
           'up_front_too_long': _attr('body.4.test')}
PATHS_2 = {'loop_cond': _attr('body.1.test'), 'to_read': _attr('body.1.body.0.value'),
           'loop_too_long': _attr('body.1.body.1.test'), 'eof': _attr('body.1.body.3.test'),
           'after_loop_too_long': _attr('body.2.test')}
KIND = {'empty_length': 'z', 'undeclared_length': 'z', 'up_front_too_long': 'b', 'loop_cond': 'b', 'to_read': 'z',
        'loop_too_long': 'b', 'eof': 'b', 'after_loop_too_long': 'b'}


def extract(repo):
    src = open(os.path.join(repo, 'spyne', 'server', 'wsgi.py')).read()
    tree = ast.parse(src)
    out = {}
    entry, reader = _locate(tree)
    for name, fn, skeleton, paths in ((ENTRY, entry, SKELETON_1, PATHS_1), (READER, reader, SKELETON_2, PATHS_2)):
        try:
            text, holes = _cut(fn, paths)
        except (AttributeError, IndexError, TypeError, KeyError) as e:
            raise TranslateError('%s does not have the expected statement structure (%s)' % (name, e))
        if text != skeleton:
            import difflib
            d = [l for l in difflib.unified_diff(skeleton.split('\n'), text.split('\n'), lineterm='', n=0)
                 if not l.startswith(('---', '+++', '@@'))]
            raise TranslateError('%s: statement skeleton differs from the modelled one: %s' % (name, ' / '.join(d)[:400]))
        for hole, node in holes.items():
            e = Expr(hole)
            out[hole] = (e.z(node) if KIND[hole] == 'z' else e.b(node), ast.unparse(node))
    return out


def generate(repo):
    try:
        exprs = extract(repo)
        ok, why = True, ''
    except TranslateError as e:
        exprs = {k: (v, 'fallback: expression of the repaired reader') for k, v in FALLBACK.items()}
        ok, why = False, str(e)
    lines = ['(** GENERATED by harness/translate/wsgireader.py from spyne/server/wsgi.py',
             '    (WsgiApplication.__wsgi_input_to_iterable / __read_wsgi_input). Do not edit. *)',
             'From Coq Require Import ZArith Bool.', 'Open Scope Z_scope.', '']
    if not ok:
        lines.append('(* SHAPE MISMATCH: %s *)' % why.replace('*)', '* )').replace('(*', '( *'))
    lines.append('Definition shape_ok : bool := %s.' % ('true' if ok else 'false'))
    lines.append('')
    for name, params, ty in SIGS:
        coq, py = exprs[name]
        lines.append('(* %s *)' % py.replace('*)', '* )'))
        lines.append('Definition rd_%s %s : %s := %s.' % (name, params, ty, coq))
    return {'WsgiReader.v': '\n'.join(lines) + '\n' + generate_iterator(repo)}


# ------------------------------------------------------------------ _ResponseIterator
SKELETON_RI = """class _ResponseIterator(object):

    def __init__(self, chunks, on_close):
        self.__chunks = iter(chunks)
        self.__on_close = on_close
        self.__closed = False

    def __iter__(self):
        return self

    def __next__(self):
        if self.__closed:
            raise StopIteration()
        try:
            return next(self.__chunks)
        except BaseException:
            self.close()
            raise

    def close(self):
        if self.__closed:
            return
        HOLE_steps"""


def _private_attrs(cdef):
    """name-mangled attributes of the instance, by order of first occurrence"""
    out = []
    for n in _walk_in_order(cdef):
        if isinstance(n, ast.Attribute) and isinstance(n.value, ast.Name) and _private(n.attr) and n.attr not in out:
            out.append(n.attr)
    return out


def extract_iterator(tree):
    """the statement order of _ResponseIterator.close after its guard: [RiMark; RiCall] on the repaired tree.
    Everything else of the class is pinned after normalisation (docstrings dropped, the private attribute
    names and the locals of each method alpha-renamed by order of first occurrence)."""
    cdef = copy.deepcopy(_class(tree, '_ResponseIterator'))
    want = ast.parse(SKELETON_RI).body[0]
    # docstring; `next = __next__` (the Python 2 spelling of the iterator protocol, dead on Python 3)
    cdef.body = [st for st in cdef.body if not (isinstance(st, ast.Expr) and isinstance(st.value, ast.Constant))
                 and ast.unparse(st) != 'next = __next__']
    wanted = {f.name: f for f in want.body if isinstance(f, ast.FunctionDef)}
    body = []
    for st in cdef.body:
        if isinstance(st, ast.FunctionDef):
            if st.name not in wanted:
                raise TranslateError('_ResponseIterator.%s is not modelled' % st.name)
            fn = _strip_doc(_method(cdef, st.name))
            if len(_params(fn)) != len(_params(wanted[st.name])) or not _params(fn) or \
                    any(isinstance(n, ast.Name) and n.id == _params(fn)[0] and not isinstance(n.ctx, ast.Load)
                        for n in ast.walk(fn)):
                raise TranslateError('_ResponseIterator.%s: parameters differ from the modelled ones' % st.name)
            if st.name != 'close':
                _alpha(fn, ast.unparse(wanted[st.name]))
            else:
                _Rename({_params(fn)[0]: 'self'}).visit(fn)
            body.append(fn)
        else:
            body.append(st)
    cdef.body = body
    have, canon = _private_attrs(cdef), _private_attrs(want)
    if len(have) != len(canon):
        raise TranslateError('_ResponseIterator keeps %d private attributes (%s), the modelled one %d (%s)'
                             % (len(have), ', '.join(have), len(canon), ', '.join(canon)))
    table = dict(zip(have, canon))
    for n in ast.walk(cdef):
        if isinstance(n, ast.Attribute) and isinstance(n.value, ast.Name) and n.attr in table:
            n.attr = table[n.attr]
    close = [f for f in cdef.body if isinstance(f, ast.FunctionDef) and f.name == 'close']
    if len(close) != 1 or len(close[0].body) < 2:
        raise TranslateError('_ResponseIterator.close does not have the modelled structure')
    tail = close[0].body[1:]
    close[0].body = close[0].body[:1] + [ast.Expr(ast.Name(id='HOLE_steps', ctx=ast.Load()))]
    text = ast.unparse(cdef)
    if text != SKELETON_RI:
        import difflib
        d = [l for l in difflib.unified_diff(SKELETON_RI.split('\n'), text.split('\n'), lineterm='', n=0)
             if not l.startswith(('---', '+++', '@@'))]
        raise TranslateError('_ResponseIterator: statement skeleton differs from the modelled one: %s' % ' / '.join(d)[:400])
    steps = []
    for st in tail:
        u = ast.unparse(st)
        if u == 'self.__closed = True':
            steps.append('RiMark')
        elif u == 'self.__on_close()':
            steps.append('RiCall')
        else:
            raise TranslateError('_ResponseIterator.close: unmodelled statement %s' % u[:120])
    if sorted(steps) != ['RiCall', 'RiMark']:
        raise TranslateError('_ResponseIterator.close: steps %s' % steps)
    return steps


def generate_iterator(repo):
    src = open(os.path.join(repo, 'spyne', 'server', 'wsgi.py')).read()
    try:
        steps, ok, why = extract_iterator(ast.parse(src)), True, ''
    except TranslateError as e:
        steps, ok, why = ['RiMark', 'RiCall'], False, str(e)
    lines = ['', '(** _ResponseIterator.close after its guard, statement by statement *)',
             'Inductive ri_step := RiMark (* self.__closed = True *) | RiCall (* self.__on_close() *).']
    if not ok:
        lines.append('(* RI SHAPE MISMATCH: %s *)' % why.replace('*)', '* )').replace('(*', '( *'))
    lines.append('Definition ri_shape_ok : bool := %s.' % ('true' if ok else 'false'))
    lines.append('Definition ri_close_steps : list ri_step := (%s)%%list.' % ' :: '.join(steps + ['nil']))
    return '\n'.join(lines) + '\n'
