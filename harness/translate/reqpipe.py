"""The exception-handling skeleton of the request-decoding pipeline  ->  Gen/ReqPipe.v   (C10)

For every function of the modelled pipeline the translator reads, from the *source text*:
  * every ``try`` statement, in source order: the classes each ``except`` clause names
    (resolved in the module's namespace at run time, so ``JSONDecodeError = ValueError`` is what
    the interpreter really binds) and what the clause's body does (raise a Fault with which
    code / re-raise / something else);
  * the guards of the form ``if <test>: raise <Fault>(...)`` (or ``continue`` / ``return``)
    the totality proof relies on: present or not, and the class and code they raise;
  * the order of the protocol calls inside ``ServerBase.generate_contexts`` /
    ``get_in_object``, the guard of ``get_out_object``, and the statement skeleton of
    ``WsgiApplication.handle_rpc``.
The class hierarchy (``exn_bases``) and the ``CODE`` of every Fault subclass come from the live
classes.  Fail closed: an unknown class, a missing function, an unexpected shape raise
TranslateError.
"""
import ast, sys, inspect, importlib, textwrap
from .pyexpr import TranslateError

# python class (module, qualname) -> Coq constructor of C10/Exn.v:pyexn
CLASS_NAMES = [
    ('builtins', 'Exception', 'EException'), ('builtins', 'ValueError', 'EValueError'),
    ('builtins', 'TypeError', 'ETypeError'), ('builtins', 'AttributeError', 'EAttributeError'),
    ('builtins', 'LookupError', 'ELookupError'), ('builtins', 'KeyError', 'EKeyError'),
    ('builtins', 'IndexError', 'EIndexError'), ('builtins', 'ArithmeticError', 'EArithmeticError'),
    ('builtins', 'OverflowError', 'EOverflowError'), ('builtins', 'UnicodeError', 'EUnicodeError'),
    ('builtins', 'UnicodeDecodeError', 'EUnicodeDecodeError'), ('builtins', 'UnicodeEncodeError', 'EUnicodeEncodeError'),
    ('builtins', 'RuntimeError', 'ERuntimeError'), ('builtins', 'RecursionError', 'ERecursionError'),
    ('builtins', 'NotImplementedError', 'ENotImplementedError'), ('builtins', 'AssertionError', 'EAssertionError'),
    ('builtins', 'StopIteration', 'EStopIteration'),
    ('binascii', 'Error', 'EBinasciiError'), ('decimal', 'InvalidOperation', 'EInvalidOperation'),
    ('json.decoder', 'JSONDecodeError', 'EJSONDecodeError'),
    ('lxml.etree', 'XMLSyntaxError', 'EXMLSyntaxError'),
    ('yaml.error', 'YAMLError', 'EYAMLError'), ('yaml.error', 'MarkedYAMLError', 'EMarkedYAMLError'),
    ('yaml.scanner', 'ScannerError', 'EScannerError'), ('yaml.parser', 'ParserError', 'EParserError'),
    ('yaml.composer', 'ComposerError', 'EComposerError'), ('yaml.constructor', 'ConstructorError', 'EConstructorError'),
    ('yaml.reader', 'ReaderError', 'EReaderError'),
    ('msgpack.exceptions', 'UnpackException', 'EMsgpackUnpackException'),
    ('msgpack.exceptions', 'ExtraData', 'EMsgpackExtraData'), ('msgpack.exceptions', 'FormatError', 'EMsgpackFormatError'),
    ('msgpack.exceptions', 'StackError', 'EMsgpackStackError'), ('msgpack.exceptions', 'OutOfData', 'EMsgpackOutOfData'),
    ('spyne.model.fault', 'Fault', 'EFault'), ('spyne.error', 'ValidationError', 'EValidationError'),
    ('spyne.error', 'ResourceNotFoundError', 'EResourceNotFoundError'),
    ('spyne.error', 'RequestTooLongError', 'ERequestTooLongError'),
    ('spyne.error', 'RequestNotAllowed', 'ERequestNotAllowed'),
    ('spyne.error', 'InvalidCredentialsError', 'EInvalidCredentialsError'),
    ('spyne.error', 'InternalError', 'EInternalError'),
    ('spyne.protocol.xml', 'SchemaValidationError', 'ESchemaValidationError'),
    ('spyne.protocol.msgpack', 'MessagePackDecodeError', 'EMessagePackDecodeError'),
    ('spyne.error', 'Redirect', 'ERedirect'),
]

# (coq name, module, qualified function name): every try statement of the function is emitted
TRY_SITES = [
    ('generate_contexts', 'spyne.server._base', 'ServerBase.generate_contexts'),
    ('get_in_object', 'spyne.server._base', 'ServerBase.get_in_object'),
    ('process_request', 'spyne.application', 'Application.process_request'),
    ('xml_create_in_document', 'spyne.protocol.xml', 'XmlDocument.create_in_document'),
    ('soap_parse_xml_string', 'spyne.protocol.soap.soap11', '_parse_xml_string'),
    ('json_create_in_document', 'spyne.protocol.json', 'JsonDocument.create_in_document'),
    ('yaml_create_in_document', 'spyne.protocol.yaml', 'YamlDocument.create_in_document'),
    ('msgpack_create_in_document', 'spyne.protocol.msgpack', 'MessagePackDocument.create_in_document'),
    ('msgpack_gen_mrs', 'spyne.protocol.msgpack', 'MessagePackDocument.gen_method_request_string'),
    ('hier_doc_to_object', 'spyne.protocol.dictdoc.hier', 'HierDictDocument._doc_to_object'),
    ('hier_from_dict_value', 'spyne.protocol.dictdoc.hier', 'HierDictDocument._from_dict_value'),
    ('integer_from_bytes', 'spyne.protocol._inbase', 'InProtocolBase.integer_from_bytes'),
    ('time_from_unicode', 'spyne.protocol._inbase', 'InProtocolBase.time_from_unicode'),
    ('date_from_unicode_iso', 'spyne.protocol._inbase', 'InProtocolBase.date_from_unicode_iso'),
    ('date_from_unicode', 'spyne.protocol._inbase', 'InProtocolBase.date_from_unicode'),
    ('datetime_from_unicode_iso', 'spyne.protocol._inbase', 'InProtocolBase.datetime_from_unicode_iso'),
    ('parse_datetime_iso_match', 'spyne.protocol._inbase', '_parse_datetime_iso_match'),
    ('duration_from_unicode', 'spyne.protocol._inbase', 'InProtocolBase.duration_from_unicode'),
    ('unicode_from_bytes', 'spyne.protocol._inbase', 'InProtocolBase.unicode_from_bytes'),
    ('from_base64', 'spyne.model.binary', 'ByteArray.from_base64'),
    ('from_urlsafe_base64', 'spyne.model.binary', 'ByteArray.from_urlsafe_base64'),
    ('from_hex', 'spyne.model.binary', 'ByteArray.from_hex'),
    ('wsgi_handle_rpc', 'spyne.server.wsgi', 'WsgiApplication.handle_rpc'),
    ('wsgi_reconstruct', 'spyne.server.wsgi', 'WsgiApplication.__reconstruct_wsgi_request'),
]

# (coq name, module, qualified function name): every `raise <Fault class>(...)` statement of the
# function, in source order, as (class, code); a raise of anything else is (EException, [])
RAISE_SITES = [
    ('xml_from_element', 'spyne.protocol.xml', 'XmlDocument.from_element'),
    ('xml_get_xsi_target', 'spyne.protocol.xml', 'XmlDocument._get_xsi_target'),
    ('xml_array_from_element', 'spyne.protocol.xml', 'XmlDocument.array_from_element'),
    ('xml_complex_from_element', 'spyne.protocol.xml', 'XmlDocument.complex_from_element'),
    ('xml_base_from_element', 'spyne.protocol.xml', 'XmlDocument.base_from_element'),
    ('xml_unicode_from_element', 'spyne.protocol.xml', 'XmlDocument.unicode_from_element'),
    ('xml_byte_array_from_element', 'spyne.protocol.xml', 'XmlDocument.byte_array_from_element'),
    ('xml_enum_from_element', 'spyne.protocol.xml', 'XmlDocument.enum_from_element'),
    ('xml_validate_lxml', 'spyne.protocol.xml', 'XmlDocument._XmlDocument__validate_lxml'),
    ('hier_deserialize', 'spyne.protocol.dictdoc.hier', 'HierDictDocument.deserialize'),
    ('hier_doc_to_object', 'spyne.protocol.dictdoc.hier', 'HierDictDocument._doc_to_object'),
    ('hier_from_dict_value', 'spyne.protocol.dictdoc.hier', 'HierDictDocument._from_dict_value'),
    ('hier_validate', 'spyne.protocol.dictdoc.hier', 'HierDictDocument.validate'),
    ('dict_check_freq', 'spyne.protocol.dictdoc._base', 'DictDocument._check_freq_dict'),
    ('json_ret_number', 'spyne.protocol.json', 'JsonDocument._ret_number'),
    ('yaml_ret_number', 'spyne.protocol.yaml', 'YamlDocument._ret_number'),
    ('msgpack_ret_number', 'spyne.protocol.msgpack', 'MessagePackDocument._ret_number'),
    ('msgpack_integer_from_bytes', 'spyne.protocol.msgpack', 'MessagePackDocument.integer_from_bytes'),
    ('json_validate', 'spyne.protocol.json', 'JsonDocument.validate'),
    ('json_ret_bool', 'spyne.protocol.json', 'JsonDocument._ret_bool'),
    ('yaml_ret_bool', 'spyne.protocol.yaml', 'YamlDocument._ret_bool'),
    ('msgpack_ret_bool', 'spyne.protocol.msgpack', 'MessagePackDocument._ret_bool'),
]

# guards: (coq name, module, function, normalised source of the test, kind)
#   kind 'raise'    : the body raises a Fault subclass (class and code are emitted)
#   kind 'continue' : the body is `continue`
#   kind 'return'   : the body returns
GUARDS = [
    ('g_wsgi_charset_not_text', 'spyne.server.wsgi', 'WsgiApplication.__reconstruct_wsgi_request',
     "not getattr(codec_info, '_is_text_encoding', True)", 'raise'),
    ('g_soap_envelope_tag', 'spyne.protocol.soap.soap11', '_from_soap',
     "in_envelope_xml.tag != '{%s}Envelope' % ns_soap", 'raise'),
    ('g_soap_envelope_empty', 'spyne.protocol.soap.soap11', '_from_soap',
     "len(header_envelope) == 0 and len(body_envelope) == 0", 'raise'),
    ('g_soap_body_none', 'spyne.protocol.soap.soap11', 'Soap11.decompose_incoming_envelope',
     "body_document is None", 'raise'),
    ('g_call_handles_name_none', 'spyne.protocol._base', 'ProtocolMixin.get_call_handles',
     "name is None", 'return'),
    ('g_method_not_found', 'spyne.protocol._base', 'ProtocolMixin.generate_method_contexts',
     "len(call_handles) == 0", 'raise'),
    ('g_xml_skip_comment_pi', 'spyne.protocol.xml', 'XmlDocument.complex_from_element',
     "isinstance(c, (etree._Comment, etree._ProcessingInstruction))", 'continue'),
    ('g_xml_entity', 'spyne.protocol.xml', 'XmlDocument.complex_from_element',
     "isinstance(c, etree._Entity)", 'raise'),
    ('g_xml_member_attr', 'spyne.protocol.xml', 'XmlDocument.complex_from_element',
     "not issubclass(member, XmlAttribute)", 'continue'),
    ('g_xml_child_attr_member', 'spyne.protocol.xml', 'XmlDocument.complex_from_element',
     "issubclass(member, XmlAttribute)", 'continue'),
    ('g_xml_enum_member', 'spyne.protocol.xml', 'XmlDocument.enum_from_element',
     "not element.text in cls.__values__", 'raise'),
    ('g_xml_nil_not_nillable', 'spyne.protocol.xml', 'XmlDocument.from_element',
     "self.validator is self.SOFT_VALIDATION and (not cls_attrs.nillable)", 'raise'),
    ('g_xml_xsi_type_unknown', 'spyne.protocol.xml', 'XmlDocument.from_element',
     "newclass is None", 'raise'),
    ('g_dict_one_key', 'spyne.protocol.dictdoc._base', 'DictDocument.decompose_incoming_envelope',
     "not isinstance(doc, dict) or len(doc) != 1", 'raise'),
    ('g_hier_no_descriptor', 'spyne.protocol.dictdoc.hier', 'HierDictDocument.deserialize',
     "ctx.descriptor is None", 'raise'),
    ('g_hier_array_iterable', 'spyne.protocol.dictdoc.hier', 'HierDictDocument._doc_to_object',
     "not isinstance(doc, AbcIterable)", 'raise'),
    ('g_hier_repeated_iterable', 'spyne.protocol.dictdoc.hier', 'HierDictDocument._doc_to_object',
     "not isinstance(v, AbcIterable)", 'raise'),
    ('g_hier_text_only', 'spyne.protocol.dictdoc.hier', 'HierDictDocument._from_dict_value',
     "inst is not None and (not isinstance(inst, self.VALID_UNICODE_SOURCES)) and "
     "issubclass(cls, self.stringified_types + (ByteArray,)) and (getattr(cls_attrs, 'serialize_as', None) is None)",
     'raise'),
    ('g_hier_validate_unicode', 'spyne.protocol.dictdoc.hier', 'HierDictDocument.validate',
     "issubclass(cls, Unicode) and (not isinstance(inst, self.VALID_UNICODE_SOURCES))", 'raise'),
    ('g_json_ret_number', 'spyne.protocol.json', 'JsonDocument._ret_number',
     "isinstance(value, NON_NUMBER_TYPES)", 'raise'),
    ('g_yaml_ret_number', 'spyne.protocol.yaml', 'YamlDocument._ret_number',
     "isinstance(value, NON_NUMBER_TYPES)", 'raise'),
    ('g_msgpack_ret_number', 'spyne.protocol.msgpack', 'MessagePackDocument._ret_number',
     "isinstance(value, NON_NUMBER_TYPES)", 'raise'),
    ('g_msgpack_integer_non_number', 'spyne.protocol.msgpack', 'MessagePackDocument.integer_from_bytes',
     "isinstance(value, NON_NUMBER_TYPES)", 'raise'),
    ('g_hier_number_sources', 'spyne.protocol.dictdoc.hier', 'HierDictDocument._from_dict_value',
     "inst is not None and issubclass(cls, Decimal) and (not isinstance(inst, self.VALID_NUMBER_SOURCES))", 'raise'),
    ('g_hier_validate_stringified', 'spyne.protocol.dictdoc.hier', 'HierDictDocument.validate',
     "inst is not None and issubclass(cls, self.stringified_types) and "
     "(getattr(self.get_cls_attrs(cls), 'serialize_as', None) is None) and "
     "(not isinstance(inst, (six.text_type, six.binary_type)))", 'raise'),
    ('g_hier_null_member', 'spyne.protocol.dictdoc.hier', 'HierDictDocument._from_dict_value',
     "inst is None", 'assign'),
    ('g_json_validate_dt', 'spyne.protocol.json', 'JsonDocument.validate',
     "val is not None and issubclass(cls, (DateTime, Date, Time)) and (not (isinstance(val, six.string_types) and "
     "cls.validate_string(cls, val)))", 'raise'),
    ('g_urlsafe_text_to_bytes', 'spyne.model.binary', 'ByteArray.from_urlsafe_base64',
     "isinstance(value, six.text_type)", 'encode'),
    ('g_inbase_enum_member', 'spyne.protocol._inbase', 'InProtocolBase.enum_base_from_bytes',
     "not value in cls.__values__", 'raise'),
]


def find_function(tree, qualname):
    node = tree
    for part in qualname.split('.'):
        for ch in ast.iter_child_nodes(node):
            if isinstance(ch, (ast.FunctionDef, ast.ClassDef)) and ch.name == part:
                node = ch
                break
        else:
            raise TranslateError('cannot find %s' % qualname)
    if not isinstance(node, ast.FunctionDef):
        raise TranslateError('%s is not a function' % qualname)
    return node


class Translator(object):
    def __init__(self):
        self.trees = {}
        self.cls2coq = {}
        for mod, qn, coq in CLASS_NAMES:
            m = importlib.import_module(mod)
            obj = m
            for part in qn.split('.'):
                obj = getattr(obj, part)
            self.cls2coq[obj] = coq
        self.fault = importlib.import_module('spyne.model.fault').Fault

    def module(self, name):
        m = importlib.import_module(name)
        if name not in self.trees:
            self.trees[name] = ast.parse(inspect.getsource(m))
        return m, self.trees[name]

    def coq_class(self, cls, where):
        if cls not in self.cls2coq:
            raise TranslateError('%s: exception class %r is outside the modelled set' % (where, cls))
        return self.cls2coq[cls]

    def resolve(self, mod, node, where):
        """an expression naming an exception class (Name / dotted Attribute) -> the class"""
        try:
            src = ast.unparse(node)
            obj = eval(compile(ast.Expression(node), '<handler>', 'eval'), vars(mod))
        except Exception as e:
            raise TranslateError('%s: cannot resolve %s: %s' % (where, ast.dump(node)[:80], e))
        if not (isinstance(obj, type) and issubclass(obj, BaseException)):
            raise TranslateError('%s: %s is not an exception class' % (where, src))
        return obj

    def classes_of(self, mod, h, where):
        if h.type is None:
            raise TranslateError('%s: bare except' % where)
        elts = h.type.elts if isinstance(h.type, ast.Tuple) else [h.type]
        for e in elts:
            if not isinstance(e, (ast.Name, ast.Attribute)):
                raise TranslateError('%s: unsupported except expression' % where)
        return [self.coq_class(self.resolve(mod, e, where), where) for e in elts]

    def fault_of_raise(self, mod, st, where):
        """`raise X(args)` with X a Fault subclass -> (coq class, code) or None"""
        if not (isinstance(st, ast.Raise) and isinstance(st.exc, ast.Call)):
            return None
        f = st.exc.func
        if not isinstance(f, (ast.Name, ast.Attribute)):
            return None
        try:
            cls = self.resolve(mod, f, where)
        except TranslateError:
            return None
        if not issubclass(cls, self.fault):
            return None
        if cls is self.fault:
            a = st.exc.args
            if not a or not (isinstance(a[0], ast.Constant) and isinstance(a[0].value, str)):
                raise TranslateError('%s: raise Fault(...) without a literal fault code' % where)
            code = a[0].value
        else:
            code = getattr(cls, 'CODE', None)
            if not isinstance(code, str):
                raise TranslateError('%s: %s has no CODE' % (where, cls.__name__))
        return self.coq_class(cls, where), code

    def action_of(self, mod, h, where):
        last = h.body[-1]
        # anything but logging in front of the final statement: the model must spell the body out
        for st in h.body[:-1]:
            if not (isinstance(st, ast.Expr) and isinstance(st.value, ast.Call) and
                    ast.unparse(st.value.func).split('.')[0] in ('logger', 'logger_invalid', 'logger_client', 'logger_server')):
                return 'HOther'
        fr = self.fault_of_raise(mod, last, where)
        if fr is not None:
            return 'HFault %s %s' % (fr[0], gtext(fr[1]))
        if isinstance(last, ast.If) and last.orelse:
            # if ...: raise F(...) else: raise F(...): the same fault either way
            a = self.fault_of_raise(mod, last.body[-1], where)
            b = self.fault_of_raise(mod, last.orelse[-1], where)
            if a is not None and a == b:
                return 'HFault %s %s' % (a[0], gtext(a[1]))
        if isinstance(last, ast.Raise) and (last.exc is None or (
                isinstance(last.exc, ast.Name) and last.exc.id == h.name)):
            return 'HReraise'
        return 'HOther'

    def tries(self, modname, qualname):
        mod, tree = self.module(modname)
        fn = find_function(tree, qualname)
        out = []
        def visit(node):
            for ch in ast.iter_child_nodes(node):
                if isinstance(ch, (ast.FunctionDef, ast.Lambda, ast.ClassDef)):
                    continue
                if isinstance(ch, ast.Try):
                    where = '%s.%s try #%d' % (modname, qualname, len(out))
                    hs = []
                    for h in ch.handlers:
                        hs.append('mkh %s (%s)' % (glist(self.classes_of(mod, h, where)), self.action_of(mod, h, where)))
                    out.append(glist(hs))
                visit(ch)
        visit(fn)
        return out

    def raises(self, modname, qualname):
        mod, tree = self.module(modname)
        fn = find_function(tree, qualname.replace('_XmlDocument__', '__'))
        out = []
        where = '%s.%s' % (modname, qualname)
        def visit(node):
            for ch in ast.iter_child_nodes(node):
                if isinstance(ch, (ast.FunctionDef, ast.Lambda, ast.ClassDef)):
                    continue
                if isinstance(ch, ast.Raise):
                    fr = self.fault_of_raise(mod, ch, where)
                    out.append('(%s, %s)' % (fr[0], gtext(fr[1])) if fr else '(EException, [])')
                visit(ch)
        visit(fn)
        return out

    def guard(self, modname, qualname, test_src, kind):
        mod, tree = self.module(modname)
        fn = find_function(tree, qualname)
        want = ast.unparse(ast.parse(test_src, mode='eval').body)
        where = '%s.%s guard %r' % (modname, qualname, test_src[:40])
        for node in ast.walk(fn):
            if isinstance(node, ast.If) and ast.unparse(node.test) == want:
                body = node.body
                if kind == 'raise':
                    fr = self.fault_of_raise(mod, body[-1], where)
                    if fr is None:
                        continue
                    return 'mkguard true %s %s' % (fr[0], gtext(fr[1]))
                if kind == 'continue' and isinstance(body[-1], ast.Continue):
                    return 'mkguard true EException []'
                if kind == 'return' and isinstance(body[-1], ast.Return):
                    return 'mkguard true EException []'
                if kind == 'assign' and isinstance(body[-1], ast.Assign):
                    return 'mkguard true EException []'
                if kind == 'encode':
                    # if isinstance(value, str): value = value.encode(...) as a statement of the
                    # function body, before the try
                    # (possibly under its own try), before the try around the decoder
                    stmts = fn.body
                    enc = [b0 for b0 in ast.walk(node)
                           if isinstance(b0, ast.Assign) and isinstance(b0.value, ast.Call)
                           and isinstance(b0.value.func, ast.Attribute) and b0.value.func.attr == 'encode'
                           and ast.unparse(b0.targets[0]) == ast.unparse(b0.value.func.value)]
                    if enc and not node.orelse and node in stmts \
                            and any(isinstance(s, ast.Try) for s in stmts[stmts.index(node) + 1:]):
                        return 'mkguard true EException []'
        return 'mkguard false EException []'

    # ---- skeletons
    def server_steps(self):
        mod, tree = self.module('spyne.server._base')
        names = {'create_in_document': 'SCreateInDocument', 'decompose_incoming_envelope': 'SDecompose',
                 'generate_method_contexts': 'SGenerateMethodContexts', 'deserialize': 'SDeserialize'}
        res = {}
        for fname in ('generate_contexts', 'get_in_object'):
            fn = find_function(tree, 'ServerBase.' + fname)
            trys = [n for n in fn.body if isinstance(n, ast.Try)]
            if len(trys) != 1:
                raise TranslateError('ServerBase.%s: expected exactly one top-level try' % fname)
            steps = []
            for st in trys[0].body:
                for c in ast.walk(st):
                    if isinstance(c, ast.Call) and isinstance(c.func, ast.Attribute) and c.func.attr in names:
                        ch = ast.unparse(c.func.value)
                        if ch != 'self.app.in_protocol':
                            raise TranslateError('ServerBase.%s: %s called on %s' % (fname, c.func.attr, ch))
                        steps.append(names[c.func.attr])
            # protocol calls outside the try body would escape the handler
            for st in fn.body:
                if st is trys[0]:
                    continue
                for c in ast.walk(st):
                    if isinstance(c, ast.Call) and isinstance(c.func, ast.Attribute) and c.func.attr in names:
                        raise TranslateError('ServerBase.%s: protocol call outside the try statement' % fname)
            res[fname] = steps
        # get_out_object: `if ctx.in_error is None: self.app.process_request(ctx)  else: raise ctx.in_error`
        fn = find_function(tree, 'ServerBase.get_out_object')
        guarded = False
        first = [s for s in fn.body if not (isinstance(s, ast.Expr) and isinstance(s.value, ast.Constant))][0]
        if isinstance(first, ast.If) and ast.unparse(first.test) == 'ctx.in_error is None' and \
                len(first.body) == 1 and ast.unparse(first.body[0]) == 'self.app.process_request(ctx)' and \
                len(first.orelse) == 1 and isinstance(first.orelse[0], ast.Raise):
            guarded = True
        # no other call of process_request
        n_calls = sum(1 for c in ast.walk(fn) if isinstance(c, ast.Call) and isinstance(c.func, ast.Attribute)
                      and c.func.attr == 'process_request')
        if n_calls != 1:
            guarded = False
        res['get_out_object_guarded'] = guarded
        return res

    def wsgi_steps(self):
        mod, tree = self.module('spyne.server.wsgi')
        fn = find_function(tree, 'WsgiApplication.handle_rpc')
        steps = []
        def is_return_handle_error(st):
            return isinstance(st, ast.Return) and isinstance(st.value, ast.Call) and \
                ast.unparse(st.value.func) == 'self.handle_error'
        def handlers(t, where):
            hs = []
            for h in t.handlers:
                hs.append('mkh %s (%s)' % (glist(self.classes_of(mod, h, where)), self.action_of(mod, h, where)))
            return glist(hs)
        for st in fn.body:
            src = ast.unparse(st)
            if isinstance(st, ast.Try) and '__reconstruct_wsgi_request' in ast.unparse(st.body[0]):
                if not all(is_return_handle_error(h.body[-1]) for h in st.handlers):
                    raise TranslateError('handle_rpc: reconstruct handler does not return handle_error')
                steps.append('WReconstruct %s' % handlers(st, 'handle_rpc reconstruct'))
            elif '__reconstruct_wsgi_request' in src:
                steps.append('WReconstruct []')
            elif isinstance(st, ast.Assign) and ast.unparse(st.value).startswith('self.generate_contexts('):
                steps.append('WGenerateContexts')
            elif isinstance(st, ast.If) and ast.unparse(st.test) == 'p_ctx.in_error' and is_return_handle_error(st.body[-1]):
                steps.append('WIfInErrorReturn')
            elif isinstance(st, ast.If) and ast.unparse(st.test) == 'p_ctx.out_error' and is_return_handle_error(st.body[-1]):
                steps.append('WIfOutErrorReturn')
            elif src == 'self.get_in_object(p_ctx)':
                steps.append('WGetInObject')
            elif src == 'self.get_out_object(p_ctx)':
                steps.append('WGetOutObject')
            elif isinstance(st, ast.Try) and ast.unparse(st.body[0]) == 'self.get_out_string(p_ctx)':
                steps.append('WGetOutString %s' % handlers(st, 'handle_rpc get_out_string'))
                break
            elif any(k in src for k in ('get_in_object', 'get_out_object', 'generate_contexts')):
                raise TranslateError('handle_rpc: unrecognised statement %r' % src[:80])
        return steps


def gtext(s):
    return '[' + '; '.join(str(ord(c)) for c in s) + ']'

def glist(items):
    return '[' + '; '.join(items) + ']'


def generate(repo):
    spyne = importlib.import_module('spyne')
    if not spyne.__file__.startswith(repo.rstrip('/') + '/'):
        raise TranslateError('spyne imported from %s, not from %s' % (spyne.__file__, repo))
    t = Translator()
    out = ['(* GENERATED by harness/translate/reqpipe.py from the spyne sources. Do not edit. *)',
           'From SpyneV Require Import C10.Exn.', 'Open Scope Z_scope.', '']
    # class hierarchy
    out.append('(* proper ancestors among the modelled classes, from the live __mro__ *)')
    out.append('Definition exn_bases (e : pyexn) : list pyexn :=\n  match e with')
    for cls, coq in t.cls2coq.items():
        bases = [t.cls2coq[b] for b in cls.__mro__[1:] if b in t.cls2coq]
        out.append('  | %s => %s' % (coq, glist(bases)))
    out.append('  | EOutOfFuel => []\n  end.')
    out.append('')
    out.append('(* CODE of the Fault subclasses *)')
    out.append('Definition fault_code (e : pyexn) : text :=\n  match e with')
    for cls, coq in t.cls2coq.items():
        if issubclass(cls, t.fault) and cls is not t.fault:
            code = getattr(cls, 'CODE', None)
            if not isinstance(code, str):
                raise TranslateError('%s has no CODE' % cls.__name__)
            out.append('  | %s => %s  (* %s *)' % (coq, gtext(code), code))
    out.append('  | _ => []\n  end.')
    out.append('')
    # what the names JSONDecodeError / RecursionError are bound to in spyne.protocol.json
    js = importlib.import_module('spyne.protocol.json')
    out.append('(* spyne.protocol.json: the class the name JSONDecodeError is bound to *)')
    out.append('Definition json_JSONDecodeError : pyexn := %s.' % t.coq_class(js.JSONDecodeError, 'json.JSONDecodeError'))
    out.append('')
    for name, mod, qn in TRY_SITES:
        ts = t.tries(mod, qn)
        out.append('(* %s.%s *)' % (mod, qn))
        out.append('Definition %s_tries : list (list handler) :=\n  %s.' % (name, glist(['\n    ' + x for x in ts])))
        out.append('')
    for name, mod, qn in RAISE_SITES:
        out.append('(* %s.%s *)' % (mod, qn))
        out.append('Definition %s_raises : list (pyexn * text) :=\n  %s.' % (name, glist(t.raises(mod, qn))))
    out.append('')
    for name, mod, qn, test, kind in GUARDS:
        out.append('(* %s.%s: if %s: %s *)' % (mod, qn, test[:70], kind))
        out.append('Definition %s : guard := %s.' % (name, t.guard(mod, qn, test, kind)))
    out.append('')
    ss = t.server_steps()
    out.append('Definition generate_contexts_steps : list pstep := %s.' % glist(ss['generate_contexts']))
    out.append('Definition get_in_object_steps : list pstep := %s.' % glist(ss['get_in_object']))
    out.append('Definition get_out_object_guarded : bool := %s.' % ('true' if ss['get_out_object_guarded'] else 'false'))
    out.append('Definition handle_rpc_steps : list wstep :=\n  %s.' % glist(['\n    ' + x for x in t.wsgi_steps()]))
    return {'ReqPipe.v': '\n'.join(out) + '\n'}
