"""Normalisation of a Python function before harness/translate/routekeys.py compares it with a skeleton
(helper module, not a translator).  Both the function of the working tree and the skeleton go through the
same passes, so the comparison is modulo exactly these behaviour-preserving rewrites:

  inline      `if not self._h(a, b, c): continue` where _h is a private method of the same class whose body
              is straight-line code with `if <test>: return False` exits and a final `return True`  ->  the
              body with the arguments substituted, `return False` -> `continue` (conditions below)
              `self._h(a, b)` where _h's body is a single `return <expr>` and every argument is a plain name,
              attribute chain or constant  ->  <expr> with the arguments substituted
              `self._h(a, b)` as a statement, where _h has no return statement  ->  its body
              a module-level private function `def _f(p): return <expr>` used as a value (key=_f)  ->
              `lambda p: <expr>`
  items       `for k, v in d.items(): ...` with k not used anywhere  ->  `for v in d.values(): ...`
  guard       in a loop body, `if T: continue` followed by the rest R of the body  ->  `if not T: R`
  setdefault  `v = d.get(k, None)` / `if v is None: v = d[k] = <empty list/dict display>`  ->
              `v = d.setdefault(k, <display>)`   (equal as long as d never stores None, which is what a model
              that reads d[k] as a list assumes anyway)
  tempret     `x = <expr>` / `return x`  ->  `return <expr>`   (x a local not used elsewhere)
  ifmerge     `if A: S elif B: S`  ->  `if A or B: S`   (same statements S; `or` short-circuits like elif)
  noteq       `a != b`  ->  `not a == b`  when one operand is a tuple/list display or a constant
  strip       docstrings, bare string statements, logger.<x>(...) calls, comments (not in the AST anyway)
  alpha       locals (every name the function binds, other than its parameters; `except ... as e` names)
              renamed _v0, _v1, ... in the order of their first binding; the parameters of every lambda
              renamed within that lambda

Anything else is left alone: a change of a test, of an operand, of the order of statements, of a constant
still shows up as a mismatch (fail closed)."""
import ast, copy


class NotInlinable(Exception):
    pass


def dump(n):
    return ast.dump(n)


def strip(stmts):
    """drop docstrings / bare string statements and logger.<x>(...) calls, recursively"""
    out = []
    for st in stmts:
        if isinstance(st, ast.Expr):
            v = st.value
            if isinstance(v, ast.Constant) and isinstance(v.value, str):
                continue
            if (isinstance(v, ast.Call) and isinstance(v.func, ast.Attribute) and isinstance(v.func.value, ast.Name)
                    and v.func.value.id == 'logger'):
                continue
        for f in ('body', 'orelse', 'finalbody'):
            if hasattr(st, f) and isinstance(getattr(st, f), list):
                setattr(st, f, strip(getattr(st, f)))
        if isinstance(st, ast.Try):
            for h in st.handlers:
                h.body = strip(h.body)
        out.append(st)
    return out


# ------------------------------------------------------------------ helper inlining
def _simple(e):
    """evaluating it has no effect and does not depend on when it is evaluated within the helper's body
    (names, constants, attribute chains of names)"""
    if isinstance(e, (ast.Name, ast.Constant)):
        return True
    if isinstance(e, ast.Attribute):
        return _simple(e.value)
    return False


def _names(node):
    return {n.id for n in ast.walk(node) if isinstance(n, ast.Name)}


def _bound(node):
    out = {n.id for n in ast.walk(node) if isinstance(n, ast.Name) and isinstance(n.ctx, (ast.Store, ast.Del))}
    out |= {h.name for h in ast.walk(node) if isinstance(h, ast.ExceptHandler) and h.name}
    return out


class _Subst(ast.NodeTransformer):
    def __init__(self, env):
        self.env = env

    def visit_Name(self, n):
        if n.id in self.env and isinstance(n.ctx, ast.Load):
            return copy.deepcopy(self.env[n.id])
        return n


def _helper_params(h, call):
    decos = [d.id for d in h.decorator_list if isinstance(d, ast.Name)]
    if len(decos) != len(h.decorator_list) or any(d not in ('staticmethod',) for d in decos):
        raise NotInlinable('decorated helper')
    a = h.args
    if a.vararg or a.kwarg or a.kwonlyargs or a.defaults or getattr(a, 'posonlyargs', []) or call.keywords:
        raise NotInlinable('helper signature')
    params = [x.arg for x in a.args]
    env = {}
    if 'staticmethod' not in decos:
        if not params:
            raise NotInlinable('no self')
        env[params[0]] = ast.Name(id='self', ctx=ast.Load())
        params = params[1:]
    if len(params) != len(call.args) or any(isinstance(x, ast.Starred) for x in call.args):
        raise NotInlinable('arity')
    for p, arg in zip(params, call.args):
        env[p] = arg
    return params, env


def _check_body(h, body, params, env, caller_names):
    for n in ast.walk(ast.Module(body=body, type_ignores=[])):
        if isinstance(n, (ast.FunctionDef, ast.AsyncFunctionDef, ast.Lambda, ast.ClassDef, ast.Yield, ast.YieldFrom,
                          ast.Await, ast.Global, ast.Nonlocal)):
            raise NotInlinable('helper body too rich')
    bound = set()
    for st in body:
        bound |= _bound(st)
    if bound & set(env):
        raise NotInlinable('helper assigns a parameter')
    if bound & caller_names:
        raise NotInlinable('helper local clashes with a name of the caller')
    uses = {p: 0 for p in env}
    for st in body:
        for n in ast.walk(st):
            if isinstance(n, ast.Name) and n.id in uses:
                uses[n.id] += 1
    complex_params = [p for p in params if not _simple(env[p])]
    if len(complex_params) > 1:
        raise NotInlinable('more than one argument with effects')
    return uses, complex_params


def _is_const(n, v):
    return isinstance(n, ast.Constant) and n.value is v


def _inline_guard(h, call, caller_names):
    """statements replacing `if not self.h(args): continue`"""
    params, env = _helper_params(h, call)
    body = strip(copy.deepcopy(h.body))
    if not body or not (isinstance(body[-1], ast.Return) and _is_const(body[-1].value, True)):
        raise NotInlinable('helper does not end in return True')
    body = body[:-1]
    uses, complex_params = _check_body(h, body, params, env, caller_names)
    out = []
    for i, st in enumerate(body):
        if isinstance(st, ast.If) and not st.orelse and len(st.body) == 1 and isinstance(st.body[0], ast.Return):
            if not _is_const(st.body[0].value, False):
                raise NotInlinable('early exit other than return False')
            st = ast.If(test=st.test, body=[ast.Continue()], orelse=[])
        elif any(isinstance(n, ast.Return) for n in ast.walk(st)):
            raise NotInlinable('return in the middle of the helper')
        out.append(st)
    if complex_params:
        # the one argument with effects is evaluated, in the call, before anything of the body: it has to be
        # the first thing the body evaluates, once: the receiver of the call the first statement makes
        p = complex_params[0]
        first = out[0] if out else None
        v = first.value if isinstance(first, (ast.Assign, ast.Expr)) else None
        ok = (uses[p] == 1 and isinstance(v, ast.Call) and isinstance(v.func, ast.Attribute)
              and isinstance(v.func.value, ast.Name) and v.func.value.id == p)
        if not ok:
            raise NotInlinable('argument with effects is not evaluated first')
    sub = _Subst(env)
    return [ast.fix_missing_locations(sub.visit(st)) for st in out]


def _inline_expr(h, call, caller_names):
    params, env = _helper_params(h, call)
    body = strip(copy.deepcopy(h.body))
    if len(body) != 1 or not isinstance(body[0], ast.Return) or body[0].value is None:
        raise NotInlinable('not a single return')
    _check_body(h, body, params, env, caller_names)
    if not all(_simple(env[p]) for p in params):
        raise NotInlinable('argument with effects')
    return _Subst(env).visit(body[0].value)


def _inline_proc(h, call, caller_names):
    """statements replacing the statement `self.h(args)`"""
    params, env = _helper_params(h, call)
    body = strip(copy.deepcopy(h.body))
    if any(isinstance(n, ast.Return) for st in body for n in ast.walk(st)):
        raise NotInlinable('helper returns')
    _check_body(h, body, params, env, caller_names)
    if not all(_simple(env[p]) for p in params):
        raise NotInlinable('argument with effects')
    sub = _Subst(env)
    return [ast.fix_missing_locations(sub.visit(st)) for st in body]


def _self_call(e, helpers):
    if (isinstance(e, ast.Call) and isinstance(e.func, ast.Attribute) and isinstance(e.func.value, ast.Name)
            and e.func.value.id == 'self' and e.func.attr in helpers):
        return helpers[e.func.attr]
    return None


def inline_helpers(fn, cls, module=None):
    """private methods of the same class that the function calls as `if not self._h(...): continue` or as an
    expression helper are inlined; a call that does not meet the conditions is left as it is"""
    helpers = {n.name: n for n in cls.body
               if isinstance(n, ast.FunctionDef) and n.name.startswith('_') and not n.name.startswith('__')
               and n is not fn}
    mfuncs = {}
    if module is not None:
        for n in module.body:
            if (isinstance(n, ast.FunctionDef) and n.name.startswith('_') and not n.decorator_list
                    and len(strip(copy.deepcopy(n.body))) == 1 and isinstance(strip(copy.deepcopy(n.body))[0], ast.Return)
                    and strip(copy.deepcopy(n.body))[0].value is not None
                    and not (n.args.vararg or n.args.kwarg or n.args.kwonlyargs or n.args.defaults
                             or getattr(n.args, 'posonlyargs', []))):
                mfuncs[n.name] = n
    if not helpers and not mfuncs:
        return
    caller_names = _names(fn) | {a.arg for a in fn.args.args}

    def stmts(lst):
        out = []
        for st in lst:
            h = None
            if (isinstance(st, ast.If) and not st.orelse and len(st.body) == 1 and isinstance(st.body[0], ast.Continue)
                    and isinstance(st.test, ast.UnaryOp) and isinstance(st.test.op, ast.Not)):
                h = _self_call(st.test.operand, helpers)
            if h is not None:
                try:
                    out.extend(_inline_guard(h, st.test.operand, caller_names))
                    continue
                except NotInlinable:
                    pass
            if isinstance(st, ast.Expr):
                h = _self_call(st.value, helpers)
                if h is not None:
                    try:
                        out.extend(stmts(_inline_proc(h, st.value, caller_names)))
                        continue
                    except NotInlinable:
                        pass
            for f in ('body', 'orelse', 'finalbody'):
                if hasattr(st, f) and isinstance(getattr(st, f), list):
                    setattr(st, f, stmts(getattr(st, f)))
            if isinstance(st, ast.Try):
                for hd in st.handlers:
                    hd.body = stmts(hd.body)
            out.append(st)
        return out

    fn.body = stmts(fn.body)

    bound_here = _bound(fn) | {a.arg for a in fn.args.args}

    class Expr(ast.NodeTransformer):
        def visit_Call(self, n):
            self.generic_visit(n)
            h = _self_call(n, helpers)
            if h is not None:
                try:
                    return _inline_expr(h, n, caller_names)
                except NotInlinable:
                    return n
            return n

        def visit_Name(self, n):
            # a module-level `def _f(p): return e` used as a value is `lambda p: e` (the name must not be
            # rebound in the function, and e may only mention its parameters and module-level names)
            if isinstance(n.ctx, ast.Load) and n.id in mfuncs and n.id not in bound_here:
                h = mfuncs[n.id]
                e = copy.deepcopy(strip(copy.deepcopy(h.body))[0].value)
                free = _names(e) - {a.arg for a in h.args.args}
                if free & bound_here:
                    return n
                return ast.Lambda(args=copy.deepcopy(h.args), body=e)
            return n
    Expr().visit(fn)
    ast.fix_missing_locations(fn)


# ------------------------------------------------------------------ statement rewrites
def _is_empty_display(e):
    return (isinstance(e, ast.List) and not e.elts) or (isinstance(e, ast.Dict) and not e.keys)


def _setdefault(a, b):
    """a: v = D.get(K, None) ; b: if v is None: v = D[K] = <empty display>   ->   v = D.setdefault(K, <display>)"""
    if not (isinstance(a, ast.Assign) and len(a.targets) == 1 and isinstance(a.targets[0], ast.Name)):
        return None
    v = a.targets[0].id
    c = a.value
    if not (isinstance(c, ast.Call) and isinstance(c.func, ast.Attribute) and c.func.attr == 'get' and not c.keywords
            and len(c.args) in (1, 2) and (len(c.args) == 1 or _is_const(c.args[1], None))):
        return None
    d, k = c.func.value, c.args[0]
    if not (_simple(d) and _simple(k)):
        return None
    if not (isinstance(b, ast.If) and not b.orelse and len(b.body) == 1 and isinstance(b.test, ast.Compare)
            and isinstance(b.test.left, ast.Name) and b.test.left.id == v and len(b.test.ops) == 1
            and isinstance(b.test.ops[0], ast.Is) and _is_const(b.test.comparators[0], None)):
        return None
    s = b.body[0]
    if not (isinstance(s, ast.Assign) and len(s.targets) == 2 and _is_empty_display(s.value)):
        return None
    t_names = [t for t in s.targets if isinstance(t, ast.Name) and t.id == v]
    t_subs = [t for t in s.targets if isinstance(t, ast.Subscript) and dump(t.value) == dump(d)
              and dump(t.slice) == dump(k)]
    if len(t_names) != 1 or len(t_subs) != 1:
        return None
    call = ast.Call(func=ast.Attribute(value=d, attr='setdefault', ctx=ast.Load()), args=[k, s.value], keywords=[])
    return ast.Assign(targets=[ast.Name(id=v, ctx=ast.Store())], value=call)


def _uses(name, nodes):
    return sum(1 for st in nodes for n in ast.walk(st) if isinstance(n, ast.Name) and n.id == name)


def _unguard(body):
    for i, st in enumerate(body):
        if (isinstance(st, ast.If) and not st.orelse and len(st.body) == 1 and isinstance(st.body[0], ast.Continue)
                and i + 1 < len(body)):
            t = st.test
            t = t.operand if isinstance(t, ast.UnaryOp) and isinstance(t.op, ast.Not) else ast.UnaryOp(op=ast.Not(), operand=t)
            return body[:i] + [ast.If(test=t, body=_unguard(body[i + 1:]), orelse=[])]
    return body


def _rewrite_block(lst, fn):
    out = []
    i = 0
    while i < len(lst):
        st = lst[i]
        nxt = lst[i + 1] if i + 1 < len(lst) else None
        # setdefault
        if nxt is not None:
            r = _setdefault(st, nxt)
            if r is not None:
                out.append(r)
                i += 2
                continue
        # tempret
        if (nxt is not None and isinstance(st, ast.Assign) and len(st.targets) == 1 and isinstance(st.targets[0], ast.Name)
                and isinstance(nxt, ast.Return) and isinstance(nxt.value, ast.Name) and nxt.value.id == st.targets[0].id
                and _uses(st.targets[0].id, [fn]) == 2 and st.targets[0].id not in {a.arg for a in fn.args.args}):
            out.append(ast.Return(value=st.value))
            i += 2
            continue
        for f in ('body', 'orelse', 'finalbody'):
            if hasattr(st, f) and isinstance(getattr(st, f), list):
                setattr(st, f, _rewrite_block(getattr(st, f), fn))
        if isinstance(st, ast.Try):
            for hd in st.handlers:
                hd.body = _rewrite_block(hd.body, fn)
        # items: for k, v in X.items() with k unused -> for v in X.values()
        if (isinstance(st, ast.For) and isinstance(st.target, ast.Tuple) and len(st.target.elts) == 2
                and all(isinstance(e, ast.Name) for e in st.target.elts)
                and isinstance(st.iter, ast.Call) and isinstance(st.iter.func, ast.Attribute)
                and st.iter.func.attr == 'items' and not st.iter.args and not st.iter.keywords
                and _uses(st.target.elts[0].id, [fn]) == 1):
            st.target = st.target.elts[1]
            st.iter.func.attr = 'values'
        # guard: in a loop body, `if T: continue` + rest  ->  `if not T: rest`
        if isinstance(st, (ast.For, ast.While)):
            st.body = _unguard(st.body)
        # ifmerge (after the branches themselves were rewritten)
        while (isinstance(st, ast.If) and len(st.orelse) == 1 and isinstance(st.orelse[0], ast.If)
               and [dump(x) for x in st.body] == [dump(x) for x in st.orelse[0].body]):
            inner = st.orelse[0]
            vals = []
            for t in (st.test, inner.test):
                vals.extend(t.values if isinstance(t, ast.BoolOp) and isinstance(t.op, ast.Or) else [t])
            st = ast.If(test=ast.BoolOp(op=ast.Or(), values=vals), body=st.body, orelse=inner.orelse)
        out.append(st)
        i += 1
    return out


class _NotEq(ast.NodeTransformer):
    def visit_Compare(self, n):
        self.generic_visit(n)
        if len(n.ops) == 1 and isinstance(n.ops[0], ast.NotEq):
            ops = [n.left, n.comparators[0]]
            if any(isinstance(o, (ast.Tuple, ast.List, ast.Constant)) for o in ops):
                return ast.UnaryOp(op=ast.Not(), operand=ast.Compare(left=n.left, ops=[ast.Eq()],
                                                                     comparators=n.comparators))
        return n


# ------------------------------------------------------------------ alpha renaming
def alpha(fn):
    params = {a.arg for a in fn.args.args + fn.args.kwonlyargs}
    if fn.args.vararg:
        params.add(fn.args.vararg.arg)
    if fn.args.kwarg:
        params.add(fn.args.kwarg.arg)
    order = []

    def bind(name):
        if name not in params and name not in order and not name.startswith('HOLE_'):
            order.append(name)

    lam = [0]

    def scope_lambdas(n):
        for c in ast.iter_child_nodes(n):
            scope_lambdas(c)
        if isinstance(n, ast.Lambda):
            ren = {a.arg: '_L%d_%d' % (lam[0], i) for i, a in enumerate(n.args.args)}
            lam[0] += 1
            for a in n.args.args:
                a.arg = ren[a.arg]
            for m in ast.walk(n.body):
                if isinstance(m, ast.Name) and m.id in ren:
                    m.id = ren[m.id]

    for st in fn.body:
        scope_lambdas(st)

    def walk(n):
        if isinstance(n, ast.ExceptHandler) and n.name:
            bind(n.name)
        if isinstance(n, ast.Name) and isinstance(n.ctx, (ast.Store, ast.Del)):
            bind(n.id)
        for c in ast.iter_child_nodes(n):
            walk(c)

    for st in fn.body:
        walk(st)
    ren = {name: '_v%d' % i for i, name in enumerate(order)}

    for n in ast.walk(fn):
        if n is fn:
            continue
        if isinstance(n, ast.Name) and n.id in ren:
            n.id = ren[n.id]
        elif isinstance(n, ast.arg) and n.arg in ren:
            n.arg = ren[n.arg]
        elif isinstance(n, ast.ExceptHandler) and n.name in ren:
            n.name = ren[n.name]
    return ren


def normalise(fn, cls=None, module=None):
    """in place; returns the function"""
    if cls is not None:
        inline_helpers(fn, cls, module)
    fn.body = strip(fn.body)
    fn.body = _rewrite_block(fn.body, fn)
    _NotEq().visit(fn)
    alpha(fn)
    ast.fix_missing_locations(fn)
    return fn
