"""spyne/protocol/dictdoc/simple.py, spyne/model/complex.py, spyne/server/wsgi.py -> Gen/FlatKeys.v

The tokens that decide C03 are read from the *source text* with ``ast`` and written as
Gallina definitions; coq/C03/SourceTie.v proves that they are what the hand-written model
(coq/C03/Model.v) uses, so an edit of one of them breaks a proof obligation directly:

  * the pattern of RE_HTTP_ARRAY_INDEX,
  * the body of _s2cmi (initial value, both comparisons, all three increments), as a function,
  * the sort key of the loop in simple_dict_to_object (plain key string / _natural_key) and the
    body of _natural_key,
  * the two comparisons of the strict_arrays branch,
  * the 'empty' marker (read and written) and the '%s[%d]' index format,
  * whether get_simple_type_info_with_prot stops on a class seen anywhere (pinned) or only on
    a class seen in the current branch (repaired),
  * the separators of _parse_qs,
  * that the index map of the non-strict branch is looked up under id(list being built) (and whether that list is
    kept referenced), one _s2cmi call, one insert,
  * _header_to_bytes: a DateTime header goes to UTC first (aware: astimezone, naive: read as UTC) and is written
    with the IMF-fixdate format and the _weekday/_month tables.

Fail closed: any shape that is not recognised raises TranslateError.
"""
import ast, os
from . import TranslateError

CMP = {ast.GtE: '>=?', ast.Gt: '>?', ast.LtE: '<=?', ast.Lt: '<?', ast.Eq: '=?'}


def gtext(s):
    return '[' + '; '.join(str(ord(c)) for c in s) + ']'


def need(cond, what):
    if not cond:
        raise TranslateError(what)


def find_def(body, name, kind=ast.FunctionDef):
    for n in body:
        if isinstance(n, kind) and n.name == name:
            return n
    raise TranslateError('no %s %s' % (kind.__name__, name))


def strip_doc(body):
    if body and isinstance(body[0], ast.Expr) and isinstance(getattr(body[0], 'value', None), ast.Constant) \
            and isinstance(body[0].value.value, str):
        return body[1:]
    return body


def name_of(n, allowed):
    need(isinstance(n, ast.Name) and n.id in allowed, 'expected one of %s, got %s' % (allowed, ast.dump(n)))
    return n.id


def const_int(n):
    if isinstance(n, ast.UnaryOp) and isinstance(n.op, ast.USub) and isinstance(n.operand, ast.Constant):
        v = -n.operand.value
    else:
        need(isinstance(n, ast.Constant), 'expected an int literal, got %s' % ast.dump(n))
        v = n.value
    need(isinstance(v, int) and not isinstance(v, bool), 'expected an int literal')
    return v


def compare(n, names):
    need(isinstance(n, ast.Compare) and len(n.ops) == 1 and type(n.ops[0]) in CMP, 'comparison expected: %s' % ast.dump(n))
    a = name_of(n.left, names)
    b = name_of(n.comparators[0], names)
    return '(%s %s %s)' % (a, CMP[type(n.ops[0])], b)


def plus_const(n, var):
    """var + c"""
    need(isinstance(n, ast.BinOp) and isinstance(n.op, ast.Add) and isinstance(n.left, ast.Name) and n.left.id == var,
         'expected %s + <int>: %s' % (var, ast.dump(n)))
    return const_int(n.right)


def regex_ast(pattern):
    """the parsed pattern (re's own parser) as a canonical string: two spellings of the same regular
    expression (`]` / `\\]`, `+` / `{1,}`, ...) give the same tree; `[0-9]` and `\\d` do NOT (a str pattern's
    \\d matches every Unicode digit).  No inline flags."""
    try:
        import re._parser as P, re._constants as C
    except ImportError:                     # Python < 3.11
        import sre_parse as P, sre_constants as C
    try:
        tree = P.parse(pattern)
    except Exception as e:
        raise TranslateError('RE_HTTP_ARRAY_INDEX does not parse: %s' % e)
    need(tree.state.flags & ~C.SRE_FLAG_UNICODE == 0, 'inline flags in RE_HTTP_ARRAY_INDEX')

    def dump(x):
        if isinstance(x, P.SubPattern):
            return '[' + ', '.join(dump(i) for i in x) + ']'
        if isinstance(x, (list, tuple)):
            return '(' + ' '.join(dump(i) for i in x) + ')'
        if x is C.MAXREPEAT:
            return 'inf'
        if x is None:
            return 'None'
        return str(x)
    return dump(tree)


def tr_s2cmi(fn):
    need([a.arg for a in fn.args.args] == ['m', 'nidx'], '_s2cmi arguments')
    body = strip_doc(fn.body)
    need(len(body) == 4, '_s2cmi: 4 statements expected, got %d' % len(body))
    a0, loop, a1, ret = body
    need(isinstance(a0, ast.Assign) and len(a0.targets) == 1 and name_of(a0.targets[0], ['nv']), '_s2cmi: nv = <int>')
    init = const_int(a0.value)
    need(isinstance(loop, ast.For) and not loop.orelse, '_s2cmi: for loop')
    t = loop.target
    need(isinstance(t, ast.Tuple) and [name_of(e, ['i', 'v']) for e in t.elts] == ['i', 'v'], '_s2cmi: for i, v')
    it = loop.iter
    need(isinstance(it, ast.Call) and isinstance(it.func, ast.Attribute) and it.func.attr == 'items'
         and isinstance(it.func.value, ast.Name) and it.func.value.id == 'm' and not it.args, '_s2cmi: m.items()')
    need(len(loop.body) == 1 and isinstance(loop.body[0], ast.If), '_s2cmi: if/elif')
    if1 = loop.body[0]
    c1 = compare(if1.test, ['i', 'v', 'nidx', 'nv'])
    need(len(if1.body) == 1 and isinstance(if1.body[0], ast.AugAssign) and isinstance(if1.body[0].op, ast.Add),
         '_s2cmi: m[i] += <int>')
    tgt = if1.body[0].target
    need(isinstance(tgt, ast.Subscript) and isinstance(tgt.value, ast.Name) and tgt.value.id == 'm'
         and isinstance(tgt.slice, ast.Name) and tgt.slice.id == 'i', '_s2cmi: m[i] += ...')
    inc1 = const_int(if1.body[0].value)
    need(len(if1.orelse) == 1 and isinstance(if1.orelse[0], ast.If) and not if1.orelse[0].orelse, '_s2cmi: elif')
    if2 = if1.orelse[0]
    c2 = compare(if2.test, ['i', 'v', 'nidx', 'nv'])
    need(len(if2.body) == 1 and isinstance(if2.body[0], ast.Assign) and name_of(if2.body[0].targets[0], ['nv'])
         and name_of(if2.body[0].value, ['v']), '_s2cmi: nv = v')
    need(isinstance(a1, ast.Assign) and isinstance(a1.targets[0], ast.Subscript)
         and isinstance(a1.targets[0].value, ast.Name) and a1.targets[0].value.id == 'm'
         and isinstance(a1.targets[0].slice, ast.Name) and a1.targets[0].slice.id == 'nidx', '_s2cmi: m[nidx] = ...')
    inc2 = plus_const(a1.value, 'nv')
    need(isinstance(ret, ast.Return), '_s2cmi: return')
    inc3 = plus_const(ret.value, 'nv')
    return '''(** _s2cmi, statement by statement from the source *)
Fixpoint src_s2cmi_loop (m : list (Z * Z)) (nidx nv : Z) : list (Z * Z) * Z :=
  match m with
  | [] => ([], nv)
  | (i, v) :: r =>
      if %s then
        let '(r', nv') := src_s2cmi_loop r nidx nv in ((i, v + (%d)) :: r', nv')
      else
        let '(r', nv') := src_s2cmi_loop r nidx (if %s then v else nv) in ((i, v) :: r', nv')
  end.
Definition src_s2cmi (m : list (Z * Z)) (nidx : Z) : list (Z * Z) * Z :=
  let '(m', nv) := src_s2cmi_loop m nidx (%d) in (zset m' nidx (nv + (%d)), nv + (%d)).
''' % (c1, inc1, c2, init, inc2, inc3)


def is_call(n, fname):
    return isinstance(n, ast.Call) and isinstance(n.func, ast.Name) and n.func.id == fname


def subscript0(n, var):
    return isinstance(n, ast.Subscript) and isinstance(n.value, ast.Name) and n.value.id == var \
        and isinstance(n.slice, ast.Constant) and n.slice.value == 0


def tr_natural_key(mod):
    """_natural_key as a Gallina function from the list RE.split(k) returns to the key (None if the function
    does not exist).  Two idioms, local names free:
      X = RE.split(k); X[1::2] = [int(v) for v in X[1::2]]; return X             -> conv_slice
      X = RE.split(k); return [int(p) if <c(i)> else p for i, p in enumerate(X)]  -> conv_enum (fun i => c)
    (also with the two arms of the conditional swapped; c is i % 2 as a truth value or compared with 0/1).
    coq/C03/SourceTie.v proves either equal to conv_slice, the conversion the model transcribes."""
    try:
        fn = find_def(mod.body, '_natural_key')
    except TranslateError:
        return None
    need(len(fn.args.args) == 1, '_natural_key: one argument')
    karg = fn.args.args[0].arg
    body = strip_doc(fn.body)
    need(len(body) >= 2, '_natural_key: at least two statements')
    s0 = body[0]
    need(isinstance(s0, ast.Assign) and len(s0.targets) == 1 and isinstance(s0.targets[0], ast.Name)
         and isinstance(s0.value, ast.Call) and isinstance(s0.value.func, ast.Attribute) and s0.value.func.attr == 'split'
         and isinstance(s0.value.func.value, ast.Name) and s0.value.func.value.id == 'RE_HTTP_ARRAY_INDEX'
         and len(s0.value.args) == 1 and not s0.value.keywords and getattr(s0.value.args[0], 'id', None) == karg,
         '_natural_key: X = RE_HTTP_ARRAY_INDEX.split(k)')
    X = s0.targets[0].id

    def odd(n):
        return isinstance(n, ast.Subscript) and getattr(n.value, 'id', None) == X \
            and isinstance(n.slice, ast.Slice) and isinstance(n.slice.lower, ast.Constant) and n.slice.lower.value == 1 \
            and n.slice.upper is None and isinstance(n.slice.step, ast.Constant) and n.slice.step.value == 2

    def int_of(n, v):
        return is_call(n, 'int') and len(n.args) == 1 and not n.keywords and getattr(n.args[0], 'id', None) == v
    if len(body) == 3:
        s1, s2 = body[1], body[2]
        need(isinstance(s1, ast.Assign) and len(s1.targets) == 1 and odd(s1.targets[0]) and isinstance(s1.value, ast.ListComp)
             and len(s1.value.generators) == 1 and not s1.value.generators[0].ifs and odd(s1.value.generators[0].iter)
             and isinstance(s1.value.generators[0].target, ast.Name)
             and int_of(s1.value.elt, s1.value.generators[0].target.id), '_natural_key: X[1::2] = [int(v) for v in X[1::2]]')
        need(isinstance(s2, ast.Return) and getattr(s2.value, 'id', None) == X, '_natural_key: return X')
        return 'conv_slice'
    need(len(body) == 2 and isinstance(body[1], ast.Return) and isinstance(body[1].value, ast.ListComp),
         '_natural_key: return [... for i, p in enumerate(X)]')
    lc = body[1].value
    need(len(lc.generators) == 1 and not lc.generators[0].ifs, '_natural_key: one generator without filter')
    g = lc.generators[0]
    need(is_call(g.iter, 'enumerate') and len(g.iter.args) == 1 and not g.iter.keywords and getattr(g.iter.args[0], 'id', None) == X
         and isinstance(g.target, ast.Tuple) and len(g.target.elts) == 2 and all(isinstance(e, ast.Name) for e in g.target.elts),
         '_natural_key: for i, p in enumerate(X)')
    iv, pv = g.target.elts[0].id, g.target.elts[1].id
    need(isinstance(lc.elt, ast.IfExp), '_natural_key: conditional element')

    def mod2(n):
        return isinstance(n, ast.BinOp) and isinstance(n.op, ast.Mod) and getattr(n.left, 'id', None) == iv \
            and isinstance(n.right, ast.Constant) and n.right.value == 2

    def cond(t):
        if mod2(t):
            return 'negb (i mod 2 =? 0)'
        if isinstance(t, ast.Compare) and len(t.ops) == 1 and mod2(t.left) and isinstance(t.comparators[0], ast.Constant) \
                and t.comparators[0].value in (0, 1) and type(t.ops[0]) in (ast.Eq, ast.NotEq):
            c = '(i mod 2 =? %d)' % t.comparators[0].value
            return c if isinstance(t.ops[0], ast.Eq) else 'negb %s' % c
        if isinstance(t, ast.UnaryOp) and isinstance(t.op, ast.Not):
            return 'negb (%s)' % cond(t.operand)
        raise TranslateError('_natural_key: index test not recognised: %s' % ast.unparse(t))
    c = cond(lc.elt.test)
    if int_of(lc.elt.body, pv) and getattr(lc.elt.orelse, 'id', None) == pv:
        pass
    elif int_of(lc.elt.orelse, pv) and getattr(lc.elt.body, 'id', None) == pv:
        c = 'negb (%s)' % c
    else:
        raise TranslateError('_natural_key: element is not int(p) / p: %s' % ast.unparse(lc.elt))
    return 'conv_enum (fun i : Z => %s)' % c


def tr_sort(mod, fn):
    """the key of sorted(doc.items(), key=...) in the main loop of simple_dict_to_object"""
    loops = [n for n in ast.walk(fn) if isinstance(n, ast.For) and is_call(n.iter, 'sorted')]
    need(len(loops) == 1, 'simple_dict_to_object: exactly one loop over sorted(...) expected, got %d' % len(loops))
    call = loops[0].iter
    need(len(call.args) == 1 and isinstance(call.args[0], ast.Call) and isinstance(call.args[0].func, ast.Attribute)
         and call.args[0].func.attr == 'items' and isinstance(call.args[0].func.value, ast.Name)
         and call.args[0].func.value.id == 'doc', 'sorted(doc.items(), ...)')
    kws = {k.arg: k.value for k in call.keywords}
    need(set(kws) <= {'key'}, 'sorted(): unexpected keywords %s' % sorted(kws))
    if 'key' not in kws:
        return False        # sorts the (key, value) pairs: by key string first
    lam = kws['key']
    need(isinstance(lam, ast.Lambda) and len(lam.args.args) == 1, 'sorted key: lambda of one argument')
    a = lam.args.args[0].arg
    if subscript0(lam.body, a):
        return False
    if is_call(lam.body, '_natural_key') and len(lam.body.args) == 1 and subscript0(lam.body.args[0], a):
        need(tr_natural_key(mod) is not None, 'sorted key uses _natural_key but the function is missing')
        return True
    raise TranslateError('sorted key not recognised: %s' % ast.dump(lam.body))


def split_tuple_assignments(fn):
    """`a, b = x, y` -> `a = x; b = y` when no later element reads an earlier target (same evaluation order)"""
    class T(ast.NodeTransformer):
        def visit_Assign(self, n):
            self.generic_visit(n)
            if len(n.targets) == 1 and isinstance(n.targets[0], ast.Tuple) and isinstance(n.value, ast.Tuple) \
                    and len(n.targets[0].elts) == len(n.value.elts) > 1 and all(isinstance(t, ast.Name) for t in n.targets[0].elts):
                seen = set()
                for t, v in zip(n.targets[0].elts, n.value.elts):
                    if seen & {x.id for x in ast.walk(v) if isinstance(x, ast.Name)}:
                        return n
                    seen.add(t.id)
                return [ast.copy_location(ast.Assign(targets=[t], value=v), n) for t, v in zip(n.targets[0].elts, n.value.elts)]
            return n
    return ast.fix_missing_locations(T().visit(fn))


def normalise_walk(fn):
    """alpha-normalisation of the member-path walk of simple_dict_to_object: the locals are identified by what
    they are bound to (not by their names) and renamed to the names the recognisers below use; tuple assignments
    are split.  A local whose role cannot be identified uniquely, or a renaming that would capture another name,
    is refused."""
    import copy
    fn = split_tuple_assignments(copy.deepcopy(fn))
    U = ast.unparse
    loops = [n for n in ast.walk(fn) if isinstance(n, ast.For) and isinstance(n.target, ast.Name)
             and U(n.iter) == 'member.path[:-1]']
    need(len(loops) == 1, 'simple_dict_to_object: one loop over member.path[:-1] expected, got %d' % len(loops))
    loop = loops[0]
    P = loop.target.id
    assigns = [n for n in ast.walk(fn) if isinstance(n, ast.Assign) and len(n.targets) == 1 and isinstance(n.targets[0], ast.Name)]
    inloop = [n for n in ast.walk(loop) if isinstance(n, ast.Assign) and len(n.targets) == 1 and isinstance(n.targets[0], ast.Name)]

    def one(cands, what):
        names = sorted(set(cands))
        need(len(names) == 1, 'simple_dict_to_object: %s not identified uniquely: %s' % (what, names))
        return names[0]
    roles = {'pkey': P}
    g = [(n.targets[0].id, n.value.args[0].id) for n in inloop
         if is_call(n.value, 'getattr') and len(n.value.args) == 3 and isinstance(n.value.args[0], ast.Name)
         and getattr(n.value.args[1], 'id', None) == P and isinstance(n.value.args[2], ast.Constant) and n.value.args[2].value is None]
    roles['ninst'] = one([a for a, _ in g], 'the member value (getattr(<object>, pkey, None))')
    roles['cinst'] = one([b for _, b in g], 'the current object')
    roles['indexes'] = one([n.targets[0].id for n in assigns if is_call(n.value, 'deque') and 'findall' in U(n.value)],
                           'the deque of indexes')
    roles['nidx'] = one([n.targets[0].id for n in inloop if U(n.value) == 'int(%s.popleft())' % roles['indexes']], 'the index')
    m = [n for n in inloop if 'id(%s)' % roles['ninst'] in U(n.value)]
    roles['_m'] = one([n.targets[0].id for n in m], 'the index map of the list')
    bases = set()
    for n in m:
        for x in ast.walk(n.value):
            if isinstance(x, ast.Name) and x.id not in (roles['ninst'], 'id'):
                bases.add(x.id)
    roles['idxmap'] = one(list(bases), 'the table of index maps')
    roles['cidx'] = one([n.targets[0].id for n in inloop if U(n.value) in ('%s.get(%s, None)' % (roles['_m'], roles['nidx']),
                                                                            '%s.get(%s)' % (roles['_m'], roles['nidx']))],
                        'the position in the list')
    ins = [n for n in ast.walk(loop) if isinstance(n, ast.Call) and isinstance(n.func, ast.Attribute) and n.func.attr == 'insert'
           and getattr(n.func.value, 'id', None) == roles['ninst'] and len(n.args) == 2 and isinstance(n.args[1], ast.Name)]
    roles['newval'] = one([n.args[1].id for n in ins], 'the inserted element')
    ren = {v: k for k, v in roles.items()}
    need(len(ren) == len(roles), 'simple_dict_to_object: two roles share one local: %s' % roles)
    every = {x.id for x in ast.walk(fn) if isinstance(x, ast.Name)} | {a.arg for a in fn.args.args}
    for old, new in ren.items():
        need(new == old or new not in every or new in ren, 'simple_dict_to_object: renaming %s to %s would capture a name' % (old, new))

    class R(ast.NodeTransformer):
        def visit_Name(self, n):
            return ast.copy_location(ast.Name(id=ren.get(n.id, n.id), ctx=n.ctx), n)
    return ast.fix_missing_locations(R().visit(fn))


def tr_strict(fn):
    """if nidx > len(ninst): raise ValidationError ... ; if nidx == len(ninst): ninst.append(...)"""
    def lenof(n):
        return is_call(n, 'len') and len(n.args) == 1 and isinstance(n.args[0], ast.Name) and n.args[0].id == 'ninst'
    rej, app = [], []
    for n in ast.walk(fn):
        if isinstance(n, ast.If) and isinstance(n.test, ast.Compare) and len(n.test.ops) == 1 \
                and isinstance(n.test.left, ast.Name) and n.test.left.id == 'nidx' and lenof(n.test.comparators[0]):
            op = type(n.test.ops[0])
            need(op in CMP, 'strict_arrays comparison')
            if len(n.body) == 1 and isinstance(n.body[0], ast.Raise):
                rej.append(CMP[op])
            else:
                app.append(CMP[op])
    need(len(rej) == 1 and len(app) == 1, 'strict_arrays: one rejecting and one appending comparison expected (%s, %s)' % (rej, app))
    return rej[0], app[0]


def tr_idxmap(fn):
    """the index map of the non-strict branch belongs to the LIST being built: _m is looked up under id(ninst)
    (and, repaired tree, the list is stored next to its map); one _s2cmi(_m, nidx) call, one
    ninst.insert(cidx, newval), the element is read back as ninst[cidx]"""
    asg = [n for n in ast.walk(fn) if isinstance(n, ast.Assign) and len(n.targets) == 1
           and isinstance(n.targets[0], ast.Name) and n.targets[0].id == '_m']
    need(len(asg) == 1, 'simple_dict_to_object: exactly one assignment to _m expected, got %d' % len(asg))
    v = asg[0].value

    def id_of_ninst(n):
        return is_call(n, 'id') and len(n.args) == 1 and isinstance(n.args[0], ast.Name) and n.args[0].id == 'ninst'
    keeps = None
    if isinstance(v, ast.Subscript) and isinstance(v.value, ast.Name) and v.value.id == 'idxmap':
        need(id_of_ninst(v.slice), 'index map key is not id(ninst): %s' % ast.dump(v.slice))
        keeps = False
    elif isinstance(v, ast.Subscript) and isinstance(v.slice, ast.Constant) and v.slice.value == 1 \
            and isinstance(v.value, ast.Call) and isinstance(v.value.func, ast.Attribute) and v.value.func.attr == 'setdefault' \
            and isinstance(v.value.func.value, ast.Name) and v.value.func.value.id == 'idxmap' and len(v.value.args) == 2:
        k, d = v.value.args
        need(id_of_ninst(k), 'index map key is not id(ninst): %s' % ast.dump(k))
        need(isinstance(d, ast.Tuple) and len(d.elts) == 2 and isinstance(d.elts[0], ast.Name) and d.elts[0].id == 'ninst'
             and isinstance(d.elts[1], ast.Dict) and not d.elts[1].keys, 'index map default is not (ninst, {})')
        keeps = True
    else:
        raise TranslateError('index map lookup not recognised: %s' % ast.dump(v))
    calls = [n for n in ast.walk(fn) if is_call(n, '_s2cmi')]
    need(len(calls) == 1 and [getattr(a, 'id', None) for a in calls[0].args] == ['_m', 'nidx'], '_s2cmi(_m, nidx) once')
    ins = [n for n in ast.walk(fn) if isinstance(n, ast.Call) and isinstance(n.func, ast.Attribute) and n.func.attr == 'insert']
    need(len(ins) == 1 and getattr(ins[0].func.value, 'id', None) == 'ninst'
         and [getattr(a, 'id', None) for a in ins[0].args] == ['cidx', 'newval'], 'ninst.insert(cidx, newval) once')
    reads = [n for n in ast.walk(fn) if isinstance(n, ast.Assign) and isinstance(n.value, ast.Subscript)
             and getattr(n.value.value, 'id', None) == 'ninst' and getattr(n.targets[0], 'id', None) == 'cinst']
    need(sorted(getattr(n.value.slice, 'id', None) for n in reads) == ['cidx', 'nidx'], 'cinst = ninst[cidx] / ninst[nidx]')
    return keeps


def tr_header_date(repo):
    """_header_to_bytes: a DateTime goes to UTC (astimezone if aware, replace(tzinfo=utc) if naive) and is written
    with the IMF-fixdate format from the _weekday/_month tables; anything else is to_unicode"""
    import warnings
    with warnings.catch_warnings():
        warnings.simplefilter('ignore')      # invalid escape sequences in the parsed source
        mod = ast.parse(open(os.path.join(repo, 'spyne/protocol/http.py')).read())
    tabs = {}
    for n in mod.body:
        if isinstance(n, ast.Assign) and len(n.targets) == 1 and isinstance(n.targets[0], ast.Name) \
                and n.targets[0].id in ('_weekday', '_month'):
            need(isinstance(n.value, ast.List) and all(isinstance(e, ast.Constant) and isinstance(e.value, str) for e in n.value.elts),
                 '%s is a list of string literals' % n.targets[0].id)
            tabs[n.targets[0].id] = [e.value for e in n.value.elts]
    need(set(tabs) == {'_weekday', '_month'}, '_weekday and _month tables')
    fn = find_def(mod.body, '_header_to_bytes')
    need([a.arg for a in fn.args.args] == ['prot', 'val', 'cls'], '_header_to_bytes arguments')
    body = strip_doc(fn.body)
    need(len(body) == 1 and isinstance(body[0], ast.If), '_header_to_bytes: one if statement')
    test = ast.unparse(body[0].test)
    if test == 'issubclass(cls, DateTime)':
        date_plain = False          # a Date member (datetime.date values) takes the DateTime path too
    elif test == 'issubclass(cls, DateTime) and (not issubclass(cls, Date))':
        date_plain = True
    else:
        raise TranslateError('_header_to_bytes: test not recognised: %s' % test)
    dt, other = body[0].body, body[0].orelse
    need(len(dt) == 2 and isinstance(dt[0], ast.If) and isinstance(dt[1], ast.Return), '_header_to_bytes: DateTime branch of two statements')
    t = dt[0].test
    need(isinstance(t, ast.Compare) and isinstance(t.ops[0], ast.IsNot) and isinstance(t.left, ast.Attribute)
         and t.left.attr == 'tzinfo' and getattr(t.left.value, 'id', None) == 'val'
         and isinstance(t.comparators[0], ast.Constant) and t.comparators[0].value is None, 'val.tzinfo is not None')

    def utc(n):
        return isinstance(n, ast.Attribute) and n.attr == 'utc' and getattr(n.value, 'id', None) == 'pytz'

    def assign_val_call(st, meth):
        return isinstance(st, ast.Assign) and getattr(st.targets[0], 'id', None) == 'val' and isinstance(st.value, ast.Call) \
            and isinstance(st.value.func, ast.Attribute) and st.value.func.attr == meth \
            and getattr(st.value.func.value, 'id', None) == 'val'
    need(len(dt[0].body) == 1 and assign_val_call(dt[0].body[0], 'astimezone') and len(dt[0].body[0].value.args) == 1
         and utc(dt[0].body[0].value.args[0]), 'aware value: val = val.astimezone(pytz.utc)')
    e = dt[0].orelse
    need(len(e) == 1 and assign_val_call(e[0], 'replace') and not e[0].value.args and len(e[0].value.keywords) == 1
         and e[0].value.keywords[0].arg == 'tzinfo' and utc(e[0].value.keywords[0].value), 'naive value: val = val.replace(tzinfo=pytz.utc)')
    r = dt[1].value
    need(isinstance(r, ast.BinOp) and isinstance(r.op, ast.Mod) and isinstance(r.left, ast.Constant) and isinstance(r.left.value, str)
         and isinstance(r.right, ast.Tuple), 'return "<format>" % (...)')
    args = [ast.unparse(a) for a in r.right.elts]
    need(args == ['_weekday[val.weekday()]', 'val.day', '_month[val.month]', 'val.year', 'val.hour', 'val.minute', 'val.second'],
         'IMF-fixdate arguments: %s' % args)
    need(len(other) == 1 and isinstance(other[0], ast.Return) and ast.unparse(other[0].value) == 'prot.to_unicode(cls, val)',
         'other header members: prot.to_unicode(cls, val)')
    return r.left.value, tabs['_weekday'], tabs['_month'], date_plain


def tr_empty_in(fn):
    out = []
    for n in ast.walk(fn):
        if isinstance(n, ast.Compare) and len(n.ops) == 1 and isinstance(n.ops[0], ast.NotEq) \
                and isinstance(n.left, ast.Name) and n.left.id == 'v' and isinstance(n.comparators[0], ast.List):
            l = n.comparators[0].elts
            need(len(l) == 1 and isinstance(l[0], ast.Constant) and isinstance(l[0].value, str), "v != ['<marker>']")
            out.append(l[0].value)
    need(len(out) == 1, "simple_dict_to_object: exactly one test v != ['<marker>'] expected, got %d" % len(out))
    return out[0]


def tr_flatten_consts(fn):
    marker, fmt = [], []
    for n in ast.walk(fn):
        if isinstance(n, ast.Assign) and isinstance(n.targets[0], ast.Subscript) and isinstance(n.targets[0].value, ast.Name) \
                and n.targets[0].value.id == 'retval' and isinstance(n.value, ast.Constant) and isinstance(n.value.value, str):
            marker.append(n.value.value)
        if isinstance(n, ast.BinOp) and isinstance(n.op, ast.Mod) and isinstance(n.left, ast.Constant) \
                and isinstance(n.left.value, str) and '[' in n.left.value:
            need(isinstance(n.right, ast.Tuple) and [getattr(e, 'id', None) for e in n.right.elts] == ['last_prefix', 'i'],
                 "index format arguments (last_prefix, i)")
            fmt.append(n.left.value)
    need(len(marker) == 1, 'object_to_simple_dict: one string marker expected, got %r' % marker)
    need(len(fmt) == 1, 'object_to_simple_dict: one index format expected, got %r' % fmt)
    # the counter of the enumerate() that feeds the format starts at 0
    starts = []
    for n in ast.walk(fn):
        if isinstance(n, ast.For) and is_call(n.iter, 'enumerate'):
            need(len(n.iter.args) == 1 and not n.iter.keywords, 'enumerate(subinst) without a start value')
            starts.append(0)
    need(len(starts) == 1, 'object_to_simple_dict: one enumerate loop expected')
    return marker[0], fmt[0]


def tr_sti(repo):
    mod = ast.parse(open(os.path.join(repo, 'spyne/model/complex.py')).read())
    cls = find_def(mod.body, 'ComplexModelBase', ast.ClassDef)
    fn = find_def(cls.body, 'get_simple_type_info_with_prot')
    tests = []
    for n in ast.walk(fn):
        if isinstance(n, ast.If) and isinstance(n.test, ast.UnaryOp) and isinstance(n.test.op, ast.Not) \
                and isinstance(n.test.operand, ast.Compare) and len(n.test.operand.ops) == 1 \
                and isinstance(n.test.operand.ops[0], ast.In) and isinstance(n.test.operand.left, ast.Name) \
                and n.test.operand.left.id == 'v':
            tests.append(n.test.operand.comparators[0])
    need(len(tests) == 1 and isinstance(tests[0], ast.Name), 'get_simple_type_info_with_prot: one test "not (v in X)" expected')
    names = {n.id for n in ast.walk(fn) if isinstance(n, ast.Name)}
    x = tests[0].id
    if x == 'tags':
        return False
    if x == 'ancestors':
        need('tags' not in names, 'both tags and ancestors are used')
        # every queue entry must carry its chain: (…, ancestors + (v,)) or (…, (cls,))
        for n in ast.walk(fn):
            if isinstance(n, ast.Call) and isinstance(n.func, ast.Attribute) and n.func.attr == 'append' \
                    and isinstance(n.func.value, ast.Name) and n.func.value.id == 'queue':
                need(len(n.args) == 1 and isinstance(n.args[0], ast.Tuple) and len(n.args[0].elts) == 6, 'queue entries of 6 elements')
                last = n.args[0].elts[-1]
                ok = (isinstance(last, ast.Tuple) and len(last.elts) == 1 and getattr(last.elts[0], 'id', None) == 'cls') or \
                     (isinstance(last, ast.BinOp) and isinstance(last.op, ast.Add) and getattr(last.left, 'id', None) == 'ancestors'
                      and isinstance(last.right, ast.Tuple) and len(last.right.elts) == 1 and getattr(last.right.elts[0], 'id', None) == 'v')
                need(ok, 'queue entry chain not recognised: %s' % ast.dump(last))
        return True
    raise TranslateError('get_simple_type_info_with_prot: visited-set %r not recognised' % x)


def tr_parse_qs(repo):
    """_parse_qs: the separators of the pair generator and, for the loop body, the way one pair is cut into name and
    value, as a Gallina function (local names free):
      NV = X.split(C, 1); if len(NV) != 2: NV.append(None); name = unquote(NV[0].replace(P, S));
      value = None; if NV[1] is not None: value = unquote(NV[1].replace(P, S))                 -> cut_by_split C
      A, E, B = X.partition(C); name = unquote(A.replace(P, S));
      if E: value = unquote(B.replace(P, S)) else: value = None                                -> cut_by_partition C
    an empty pair is skipped (`X is None or len(X) == 0`, `len(X) == 0`, `not X`, `X == ''`), and the value is
    appended to the list of its name (created on first sight).  SourceTie.v proves either cut equal to the model's."""
    mod = ast.parse(open(os.path.join(repo, 'spyne/server/wsgi.py')).read())
    fn = find_def(mod.body, '_parse_qs')
    need(len(fn.args.args) == 1, '_parse_qs: one argument')
    body = strip_doc(fn.body)
    # the generator of the pairs: two nested one-character splits of the argument
    seps = []
    for n in ast.walk(body[0]):
        if isinstance(n, ast.Call) and isinstance(n.func, ast.Attribute) and n.func.attr == 'split':
            need(len(n.args) == 1 and isinstance(n.args[0], ast.Constant) and isinstance(n.args[0].value, str)
                 and len(n.args[0].value) == 1, '_parse_qs: one-character separators')
            seps.append(n.args[0].value)
    need(isinstance(body[0], ast.Assign) and isinstance(body[0].value, ast.GeneratorExp) and len(body[0].value.generators) == 2
         and len(seps) == 2 and len(set(seps)) == 2, '_parse_qs: pairs = (s2 for s1 in qs.split(a) for s2 in s1.split(b))')
    pairs_var = body[0].targets[0].id
    loops = [n for n in body if isinstance(n, ast.For)]
    need(len(loops) == 1 and getattr(loops[0].iter, 'id', None) == pairs_var and isinstance(loops[0].target, ast.Name)
         and not loops[0].orelse, '_parse_qs: one loop over the pairs')
    X = loops[0].target.id
    st = list(loops[0].body)
    U = ast.unparse

    # 1. skip the empty pair
    need(st and isinstance(st[0], ast.If) and not st[0].orelse and len(st[0].body) == 1 and isinstance(st[0].body[0], ast.Continue)
         and U(st[0].test) in ('%s is None or len(%s) == 0' % (X, X), 'len(%s) == 0' % X, 'not %s' % X, "%s == ''" % X),
         '_parse_qs: skip of the empty pair not recognised: %s' % (U(st[0].test) if st else ''))
    st = st[1:]

    def decoded(n):
        """unquote(V.replace(P, S)) -> (V as source text, P, S)"""
        need(is_call(n, 'unquote') and len(n.args) == 1 and isinstance(n.args[0], ast.Call)
             and isinstance(n.args[0].func, ast.Attribute) and n.args[0].func.attr == 'replace' and len(n.args[0].args) == 2
             and all(isinstance(a, ast.Constant) and isinstance(a.value, str) and len(a.value) == 1 for a in n.args[0].args),
             '_parse_qs: unquote(<part>.replace(<char>, <char>)) expected: %s' % U(n))
        return U(n.args[0].func.value), n.args[0].args[0].value, n.args[0].args[1].value

    def assign(n):
        need(isinstance(n, ast.Assign) and len(n.targets) == 1, '_parse_qs: assignment expected: %s' % U(n))
        return n.targets[0], n.value
    t0, v0 = assign(st[0])
    need(isinstance(v0, ast.Call) and isinstance(v0.func, ast.Attribute) and getattr(v0.func.value, 'id', None) == X,
         '_parse_qs: the pair is cut by a method of the pair itself')
    if v0.func.attr == 'split':
        need(isinstance(t0, ast.Name) and len(v0.args) == 2 and isinstance(v0.args[0], ast.Constant) and len(v0.args[0].value) == 1
             and isinstance(v0.args[1], ast.Constant) and v0.args[1].value == 1, "_parse_qs: NV = X.split(<char>, 1)")
        NV, cut = t0.id, v0.args[0].value
        need(isinstance(st[1], ast.If) and not st[1].orelse and U(st[1].test) == 'len(%s) != 2' % NV and len(st[1].body) == 1
             and U(st[1].body[0]) == '%s.append(None)' % NV, '_parse_qs: if len(NV) != 2: NV.append(None)')
        tn, vn = assign(st[2])
        need(isinstance(tn, ast.Name), '_parse_qs: name = ...')
        part, P1, S1 = decoded(vn)
        need(part == '%s[0]' % NV, '_parse_qs: the name is NV[0]')
        tv, vv = assign(st[3])
        need(isinstance(tv, ast.Name) and isinstance(vv, ast.Constant) and vv.value is None, '_parse_qs: value = None')
        need(isinstance(st[4], ast.If) and not st[4].orelse and U(st[4].test) == '%s[1] is not None' % NV and len(st[4].body) == 1,
             '_parse_qs: if NV[1] is not None')
        tv2, vv2 = assign(st[4].body[0])
        part2, P2, S2 = decoded(vv2)
        need(getattr(tv2, 'id', None) == tv.id and part2 == '%s[1]' % NV, '_parse_qs: value = unquote(NV[1]...)')
        name_var, value_var, rest, idiom = tn.id, tv.id, st[5:], 'cut_by_split'
    elif v0.func.attr == 'partition':
        need(isinstance(t0, ast.Tuple) and len(t0.elts) == 3 and all(isinstance(e, ast.Name) for e in t0.elts)
             and len({e.id for e in t0.elts}) == 3
             and len(v0.args) == 1 and isinstance(v0.args[0], ast.Constant) and len(v0.args[0].value) == 1,
             '_parse_qs: A, E, B = X.partition(<char>)')
        A, E, B = [e.id for e in t0.elts]
        cut = v0.args[0].value
        tn, vn = assign(st[1])
        part, P1, S1 = decoded(vn)
        need(isinstance(tn, ast.Name) and part == A and tn.id != E and tn.id != B, '_parse_qs: name = unquote(A.replace(..))')
        i = st[2]
        need(isinstance(i, ast.If) and U(i.test) == E and len(i.body) == 1 and len(i.orelse) == 1, '_parse_qs: if E: ... else: ...')
        tv, vv = assign(i.body[0])
        part2, P2, S2 = decoded(vv)
        te, ve = assign(i.orelse[0])
        need(isinstance(tv, ast.Name) and part2 == B and getattr(te, 'id', None) == tv.id
             and isinstance(ve, ast.Constant) and ve.value is None and tv.id != tn.id, '_parse_qs: value = unquote(B...) / None')
        name_var, value_var, rest, idiom = tn.id, tv.id, st[3:], 'cut_by_partition'
    else:
        raise TranslateError('_parse_qs: the pair is cut by .%s' % v0.func.attr)
    need((P1, S1) == (P2, S2), '_parse_qs: the same replace() on name and value')
    # 3. accumulation: L = retval.get(name, None); if L is None: L = retval[name] = []; L.append(value)
    need(len(rest) == 3, '_parse_qs: three accumulation statements expected, got %d' % len(rest))
    tl, vl = assign(rest[0])
    need(isinstance(tl, ast.Name) and isinstance(vl, ast.Call) and isinstance(vl.func, ast.Attribute) and vl.func.attr == 'get'
         and isinstance(vl.func.value, ast.Name) and U(vl) in ('%s.get(%s, None)' % (vl.func.value.id, name_var),
                                                               '%s.get(%s)' % (vl.func.value.id, name_var)),
         '_parse_qs: L = retval.get(name, None)')
    L, D = tl.id, vl.func.value.id
    need(isinstance(rest[1], ast.If) and not rest[1].orelse and U(rest[1].test) == '%s is None' % L and len(rest[1].body) == 1
         and U(rest[1].body[0]) in ('%s = %s[%s] = []' % (L, D, name_var), '%s[%s] = %s = []' % (D, name_var, L)),
         '_parse_qs: if L is None: L = retval[name] = []')
    need(U(rest[2]) == '%s.append(%s)' % (L, value_var), '_parse_qs: L.append(value)')
    rets = [n for n in body if isinstance(n, ast.Return)]
    need(len(rets) == 1 and getattr(rets[0].value, 'id', None) == D, '_parse_qs: return retval')
    return sorted(ord(x) for x in seps), '%s %d' % (idiom, ord(cut)), (ord(P1), ord(S1))


def generate(repo):
    src = open(os.path.join(repo, 'spyne/protocol/dictdoc/simple.py')).read()
    mod = ast.parse(src)
    # RE_HTTP_ARRAY_INDEX = re.compile(r"...")
    pats = [n for n in mod.body if isinstance(n, ast.Assign) and len(n.targets) == 1
            and isinstance(n.targets[0], ast.Name) and n.targets[0].id == 'RE_HTTP_ARRAY_INDEX']
    need(len(pats) == 1, 'RE_HTTP_ARRAY_INDEX assignment')
    c = pats[0].value
    need(isinstance(c, ast.Call) and isinstance(c.func, ast.Attribute) and c.func.attr == 'compile' and len(c.args) == 1
         and not c.keywords and isinstance(c.args[0], ast.Constant) and isinstance(c.args[0].value, str),
         'RE_HTTP_ARRAY_INDEX = re.compile(<literal>) without flags')
    pattern = c.args[0].value
    cls = find_def(mod.body, 'SimpleDictDocument', ast.ClassDef)
    sdo_src = find_def(cls.body, 'simple_dict_to_object')
    sdo = normalise_walk(sdo_src)
    ots = find_def(cls.body, 'object_to_simple_dict')
    natural = tr_sort(mod, sdo)
    natkey_conv = tr_natural_key(mod) or 'conv_slice (* unused: the loop does not sort with _natural_key *)'
    rej, app = tr_strict(sdo)
    empty_in = tr_empty_in(sdo)
    empty_out, fmt = tr_flatten_consts(ots)
    # the hier_delim default
    init = find_def(cls.body, '__init__')
    names = [a.arg for a in init.args.args]
    need('hier_delim' in names and 'strict_arrays' in names, 'SimpleDictDocument.__init__ arguments')
    defaults = dict(zip(names[len(names) - len(init.args.defaults):], init.args.defaults))
    need(isinstance(defaults['hier_delim'], ast.Constant) and isinstance(defaults['hier_delim'].value, str), 'hier_delim default')
    need(isinstance(defaults['strict_arrays'], ast.Constant) and defaults['strict_arrays'].value in (True, False), 'strict_arrays default')
    seps, eq, plus = tr_parse_qs(repo)
    per_branch = tr_sti(repo)
    keeps_list = tr_idxmap(sdo)
    hfmt, wk, mon, date_plain = tr_header_date(repo)
    b = lambda x: 'true' if x else 'false'
    out = '''(** GENERATED by harness/translate/flatkeys.py from spyne/protocol/dictdoc/simple.py,
    spyne/model/complex.py and spyne/server/wsgi.py -- do not edit. *)
From SpyneV Require Import Base.Prelude C03.Model C03.SourceIdioms.

(** the parse tree of the pattern of RE_HTTP_ARRAY_INDEX (respellings of one regex give one tree) *)
Definition src_re_array_index : text := %s.
Definition src_sort_natural : bool := %s.
Definition src_strict_reject (nidx n : Z) : bool := nidx %s n.
Definition src_strict_append (nidx n : Z) : bool := nidx %s n.
Definition src_empty_read : text := %s.
Definition src_empty_written : text := %s.
Definition src_index_format : text := %s.
Definition src_hier_delim_default : text := %s.
Definition src_strict_arrays_default : bool := %s.
Definition src_sti_per_branch : bool := %s.
Definition src_qs_separators : list Z := %s.
(** how one pair is cut into name and value *)
Definition src_qs_cut : text -> text * option text := %s.
Definition src_qs_plus : Z * Z := (%d, %d).
Definition src_idxmap_keeps_list : bool := %s.
(** _natural_key, from the list RE.split returns to the sort key *)
Definition src_natural_key_conv : list text -> list (text + Z) := %s.
Definition src_date_header_plain : bool := %s.
Definition src_header_date_format : text := %s.
Definition src_weekday : list text := %s.
Definition src_month : list text := %s.

%s''' % (gtext(regex_ast(pattern)), b(natural), rej, app, gtext(empty_in), gtext(empty_out), gtext(fmt),
         gtext(defaults['hier_delim'].value), b(defaults['strict_arrays'].value), b(per_branch),
         '[' + '; '.join(str(s) for s in seps) + ']', eq, plus[0], plus[1], b(keeps_list), natkey_conv, b(date_plain), gtext(hfmt),
         '[' + '; '.join(gtext(x) for x in wk) + ']', '[' + '; '.join(gtext(x) for x in mon) + ']',
         tr_s2cmi(find_def(mod.body, '_s2cmi')))
    return {'FlatKeys.v': out}
