"""Regular expressions of the date/time/duration/uuid codecs  ->  Gen/Regexes.v

Every pattern listed in PATTERNS is read from the *imported* module (so string concatenations and
%-substitutions are evaluated by the interpreter, not by us), parsed with Python's own parser
(``re._parser.parse`` -- the very parse tree the ``re`` compiler works from) and emitted as a term of the
regex AST of coq/C08/Regex.v.  The Coq side proves that the normal form of each generated AST is the
normal form of the reference AST the hand-written scanners were proved equal to (coq/C08/RegexTie.v),
so an edit that changes what a pattern matches breaks a proof obligation, and a respelling that does
not ([0-9] for \\d under re.ASCII, {2,2} for {2}, \\d\\d for \\d{2}, (?:x) for x) leaves it standing.

Fail closed: anything outside the fragment -- lazy or possessive repetition, look-around, back
references, ^ $ \\b, categories other than \\d, inline flags, IGNORECASE/MULTILINE/DOTALL/VERBOSE, the
repetition of a body that can match the empty string -- raises TranslateError.

RESTRICTION: \\d is emitted as CDigit, which coq/C08/Regex.v reads as ASCII [0-9].  On a str pattern
compiled without re.ASCII Python's \\d also matches the other Unicode decimal digits (and int()
accepts them); those code points are outside the modelled universe.
"""
import os, sys, re, importlib
from re import _parser, _constants as C
from .pyexpr import TranslateError

# (coq name, module, expression evaluated in the module: a str pattern or a compiled pattern)
PATTERNS = [
    ('rx_DATE_PATTERN', 'spyne.model.primitive.datetime', 'DATE_PATTERN'),
    ('rx_TIME_PATTERN', 'spyne.model.primitive.datetime', 'TIME_PATTERN'),
    ('rx_OFFSET_PATTERN', 'spyne.model.primitive.datetime', 'OFFSET_PATTERN'),
    ('rx_DATETIME_PATTERN', 'spyne.model.primitive.datetime', 'DATETIME_PATTERN'),
    ('rx_DateTime_local', 'spyne.model.primitive.datetime', 'DateTime._local_re'),
    ('rx_DateTime_utc', 'spyne.model.primitive.datetime', 'DateTime._utc_re'),
    ('rx_DateTime_offset', 'spyne.model.primitive.datetime', 'DateTime._offset_re'),
    ('rx_Date_offset', 'spyne.model.primitive.datetime', 'Date._offset_re'),
    ('rx_inbase_date', 'spyne.protocol._inbase', '_date_re'),
    ('rx_inbase_time', 'spyne.protocol._inbase', '_time_re'),
    ('rx_inbase_duration', 'spyne.protocol._inbase', '_duration_re'),
    ('rx_UUID_PATTERN', 'spyne.model.primitive.string', 'UUID_PATTERN'),
]

ALLOWED_FLAGS = re.UNICODE | re.ASCII
MAX_COUNT = 64        # bounded repetition counts are written as nat literals


def gtext(s):
    return '[' + '; '.join(str(ord(c)) for c in s) + ']'


def _nullable(items):
    """can this parsed sequence match the empty string? (over-approximation, mirrors Regex.nullable)"""
    for op, av in items:
        if op in (C.LITERAL, C.NOT_LITERAL, C.IN, C.ANY):
            return False
        if op is C.AT:
            continue
        if op is C.MAX_REPEAT:
            lo, hi, sub = av
            if lo == 0 or _nullable(sub):
                continue
            return False
        if op is C.SUBPATTERN:
            if _nullable(av[3]):
                continue
            return False
        if op is C.BRANCH:
            if any(_nullable(a) for a in av[1]):
                continue
            return False
        raise TranslateError('regex construct %s is outside the fragment' % (op,))
    return True


def _cset(neg, items):
    return '(RChar (mkcset %s [%s]))' % ('true' if neg else 'false', '; '.join(items))


def _rng(lo, hi):
    return 'CRange %d %d' % (lo, hi)


def _class(av):
    neg = False
    items = []
    for i, (op, a) in enumerate(av):
        if op is C.NEGATE:
            if i != 0:
                raise TranslateError('NEGATE inside a class')
            neg = True
        elif op is C.LITERAL:
            items.append(_rng(a, a))
        elif op is C.RANGE:
            items.append(_rng(a[0], a[1]))
        elif op is C.CATEGORY and a is C.CATEGORY_DIGIT:
            items.append('CDigit')
        else:
            raise TranslateError('class item %s %s is outside the fragment' % (op, a))
    return _cset(neg, items)


def _seq(items, names):
    parts = [_node(op, av, names) for op, av in items]
    if not parts:
        return 'REps'
    out = parts[-1]
    for p in reversed(parts[:-1]):
        out = '(RSeq %s %s)' % (p, out)
    return out


def _node(op, av, names):
    if op is C.LITERAL:
        return _cset(False, [_rng(av, av)])
    if op is C.NOT_LITERAL:
        return _cset(True, [_rng(av, av)])
    if op is C.ANY:                      # '.' without DOTALL: anything but a newline
        return _cset(True, [_rng(10, 10)])
    if op is C.IN:
        return _class(av)
    if op is C.AT:
        if av is C.AT_END_STRING:
            return 'REnd'
        raise TranslateError('anchor %s is outside the fragment (only \\Z)' % (av,))
    if op is C.MAX_REPEAT:
        lo, hi, sub = av
        if _nullable(sub):
            raise TranslateError('repetition of a body that can match the empty string')
        if lo > MAX_COUNT or (hi is not C.MAXREPEAT and hi > MAX_COUNT):
            raise TranslateError('repetition count above %d' % MAX_COUNT)
        his = 'None' if hi is C.MAXREPEAT else '(Some %d%%nat)' % hi
        return '(RRep %d%%nat %s %s)' % (lo, his, _seq(sub, names))
    if op is C.SUBPATTERN:
        group, add_flags, del_flags, sub = av
        if add_flags or del_flags:
            raise TranslateError('inline flags are outside the fragment')
        body = _seq(sub, names)
        if group is None:
            return body
        name = names.get(group, '#%d' % group)
        return '(RGroup %s (* %s *) %s)' % (gtext(name), name.replace('*', '.').replace('"', "''"), body)
    if op is C.BRANCH:
        alts = [_seq(a, names) for a in av[1]]
        out = alts[-1]
        for a in reversed(alts[:-1]):
            out = '(RAlt %s %s)' % (a, out)
        return out
    raise TranslateError('regex construct %s is outside the fragment' % (op,))


def to_coq(pattern, flags=0):
    """Python pattern string (+ compile flags) -> (Coq term of type Regex.re, list of group names)"""
    if not isinstance(pattern, str):
        raise TranslateError('pattern is not a str: %r' % (pattern,))
    try:
        tree = _parser.parse(pattern, flags)
    except re.error as e:
        raise TranslateError('pattern %r does not parse: %s' % (pattern, e))
    eff = tree.state.flags
    if eff & ~ALLOWED_FLAGS:
        raise TranslateError('pattern %r: flags %s are outside the fragment' % (pattern, re.RegexFlag(eff)))
    names = {v: k for k, v in tree.state.groupdict.items()}
    term = _seq(list(tree), names)
    groups = [names.get(i, '#%d' % i) for i in range(1, tree.state.groups)]
    return term, groups


def patterns(repo):
    if sys.path[0] != repo:
        sys.path.insert(0, repo)
    out = []
    for name, mod, expr in PATTERNS:
        m = importlib.import_module(mod)
        if not os.path.abspath(m.__file__).startswith(os.path.abspath(repo) + os.sep):
            raise TranslateError('%s imported from %s, not from %s' % (mod, m.__file__, repo))
        try:
            v = eval(expr, vars(m))
        except Exception as e:
            raise TranslateError('%s: %s does not evaluate: %r' % (mod, expr, e))
        if isinstance(v, re.Pattern):
            pat, flags = v.pattern, v.flags
        else:
            pat, flags = v, 0
        out.append((name, pat, flags))
    return out


HEADER = '''(* GENERATED by harness/translate/regexes.py from the working tree; do not edit.
   Each definition is Python's own parse (re._parser.parse) of the pattern the imported module
   computes, as a term of the regex AST of C08/Regex.v. *)
From SpyneV Require Import C08.Regex.
Open Scope Z_scope.
'''


def generate(repo):
    lines = [HEADER]
    for name, pat, flags in patterns(repo):
        term, groups = to_coq(pat, flags)
        lines.append('(* %s *)' % pat.replace('*)', '* )').replace('(*', '( *').replace('"', "''"))
        lines.append('Definition %s : re :=\n  %s.' % (name, term))
        lines.append('')
    return {'Regexes.v': '\n'.join(lines)}
