"""A fail-closed translator from a small fragment of Python boolean/arith
expressions (as ``ast`` nodes) to Gallina text.

The caller supplies an *environment*: a function ``leaf(node) -> str | None``
that recognises the leaves it knows (names, attribute chains, calls) and
returns Coq text for them, or None.  Everything else must be one of the
shapes handled here; any other node raises TranslateError.

Booleans are Coq ``bool``; numbers are in the caller's numeric domain, for
which it supplies the comparison emitters (cmp: op-name, lhs, rhs -> text).
Python's short-circuit ``and``/``or`` are mapped to ``&&``/``||`` (sound for
total, effect-free operands, which is all the fragment admits) with constant
folding, so a guard like ``value is None or (...)`` can remove an operand that
would not be evaluated.
"""
import ast


class TranslateError(Exception):
    pass


TRUE, FALSE = 'true', 'false'

_CMP = {ast.Lt: 'lt', ast.LtE: 'le', ast.Gt: 'gt', ast.GtE: 'ge',
        ast.Eq: 'eq', ast.NotEq: 'ne'}


class BoolTranslator(object):
    def __init__(self, leaf, cmp, num=None, is_none=None, contains=None):
        self.leaf = leaf          # node -> coq bool text or None
        self.cmp = cmp            # (opname, lnode, rnode) -> coq bool text
        self.num = num            # node -> coq numeric text (for cmp operands)
        self.is_none = is_none    # node -> TRUE/FALSE/coq text or None if unknown
        self.contains = contains  # (elt node, container node) -> coq text

    def tr(self, n):
        r = self.leaf(n)
        if r is not None:
            return r
        if isinstance(n, ast.BoolOp):
            parts = []
            if isinstance(n.op, ast.And):
                for v in n.values:
                    t = self.tr(v)
                    if t == FALSE:
                        parts.append(FALSE)
                        break          # short circuit: later operands not evaluated
                    if t != TRUE:
                        parts.append(t)
                if FALSE in parts:
                    return FALSE
                if not parts:
                    return TRUE
                return '(' + ' && '.join(parts) + ')'
            if isinstance(n.op, ast.Or):
                for v in n.values:
                    t = self.tr(v)
                    if t == TRUE:
                        parts.append(TRUE)
                        break
                    if t != FALSE:
                        parts.append(t)
                if TRUE in parts:
                    return TRUE
                if not parts:
                    return FALSE
                return '(' + ' || '.join(parts) + ')'
        if isinstance(n, ast.UnaryOp) and isinstance(n.op, ast.Not):
            t = self.tr(n.operand)
            if t == TRUE:
                return FALSE
            if t == FALSE:
                return TRUE
            return '(negb %s)' % t
        if isinstance(n, ast.Constant) and n.value is True:
            return TRUE
        if isinstance(n, ast.Constant) and n.value is False:
            return FALSE
        if isinstance(n, ast.Compare):
            # a op b op c  ==  (a op b) and (b op c); operands are pure here
            parts = []
            left = n.left
            for op, right in zip(n.ops, n.comparators):
                parts.append(self._cmp1(op, left, right))
                left = right
            if FALSE in parts:
                return FALSE
            parts = [p for p in parts if p != TRUE]
            if not parts:
                return TRUE
            return '(' + ' && '.join(parts) + ')'
        raise TranslateError('unsupported expression: %s' % ast.dump(n)[:200])

    def _cmp1(self, op, l, r):
        if isinstance(op, (ast.Is, ast.IsNot)):
            if isinstance(r, ast.Constant) and r.value is None and self.is_none:
                t = self.is_none(l)
                if t is None:
                    raise TranslateError('is None on unknown operand: %s' % ast.dump(l))
                if isinstance(op, ast.Is):
                    return t
                return {TRUE: FALSE, FALSE: TRUE}.get(t, '(negb %s)' % t)
            raise TranslateError('unsupported identity test: %s' % ast.dump(l))
        if isinstance(op, (ast.In, ast.NotIn)) and self.contains:
            t = self.contains(l, r)
            return t if isinstance(op, ast.In) else '(negb %s)' % t
        if type(op) in _CMP:
            return self.cmp(_CMP[type(op)], l, r)
        raise TranslateError('unsupported comparison: %s' % ast.dump(op))


def find_function(tree, path):
    """path like ['TBoundedInteger', '_BoundedInteger', 'validate_native']"""
    node = tree
    for name in path:
        found = None
        for ch in ast.walk(node) if False else node.body:
            if isinstance(ch, (ast.FunctionDef, ast.ClassDef)) and ch.name == name:
                found = ch
        if found is None:
            raise TranslateError('cannot find %s in %s' % (name, path))
        node = found
    return node


def single_return(fn):
    """body must be [docstring?] return <expr>"""
    body = [s for s in fn.body
            if not (isinstance(s, ast.Expr) and isinstance(s.value, ast.Constant)
                    and isinstance(s.value.value, str))]
    if len(body) != 1 or not isinstance(body[0], ast.Return) or body[0].value is None:
        raise TranslateError('%s: body is not a single return' % fn.name)
    return body[0].value


def attr_chain(n):
    """a.b.c -> ['a','b','c'] or None"""
    parts = []
    while isinstance(n, ast.Attribute):
        parts.append(n.attr)
        n = n.value
    if isinstance(n, ast.Name):
        parts.append(n.id)
        return list(reversed(parts))
    return None


# ---------------------------------------------------------------- guard clauses -> one boolean expression
def _is_doc(s):
    return isinstance(s, ast.Expr) and isinstance(s.value, ast.Constant) and isinstance(s.value.value, str)


class _Subst(ast.NodeTransformer):
    def __init__(self, env):
        self.env = env

    def visit_Name(self, n):
        if isinstance(n.ctx, ast.Load) and n.id in self.env:
            return self.env[n.id]
        return n


def _pure_alias(e):
    """right-hand sides that may be substituted for the local they are bound to: names, attribute chains,
    and calls whose arguments are such (the translators accept only total, effect-free calls anyway and
    fail closed on anything else)"""
    if isinstance(e, ast.Name) or attr_chain(e) is not None:
        return True
    if isinstance(e, ast.Call) and not e.keywords:
        return (isinstance(e.func, ast.Name) or attr_chain(e.func) is not None) and all(_pure_alias(a) for a in e.args)
    return False


def body_as_expr(fn, stmts=None, frozen=()):
    """The body of a boolean-valued function written with guard clauses, as ONE expression (an ast node) that
    the BoolTranslator reads like the single-return spelling:

        x = <pure expr>          the local is replaced by the expression (bound once, operands never rebound)
        if not X: return X       ->  X and <rest>        (a falsy X is the result, as with `and`)
        if C: return True        ->  C or <rest>
        if C: return False       ->  (not C) and <rest>
        if C: return A           ->  (C and A) or ((not C) and <rest>)     [booleans]
        if C: return A / else: return B   likewise
        return E                 ->  E

    Docstrings are dropped.  Anything else raises TranslateError.  `frozen`: names that must not be assigned
    (parameters whose value the caller has already interpreted)."""
    stmts = list(fn.body if stmts is None else stmts)
    assigned = {}
    for n in ast.walk(ast.Module(body=stmts, type_ignores=[])):
        if isinstance(n, (ast.Assign, ast.AugAssign, ast.AnnAssign, ast.For, ast.While, ast.With, ast.Try, ast.Global,
                          ast.Nonlocal, ast.Delete, ast.NamedExpr)) and not isinstance(n, ast.Assign):
            raise TranslateError('%s: unsupported statement %s' % (fn.name, type(n).__name__))
        if isinstance(n, ast.Assign):
            for t in n.targets:
                if not isinstance(t, ast.Name):
                    raise TranslateError('%s: assignment to something that is not a local name' % fn.name)
                assigned[t.id] = assigned.get(t.id, 0) + 1
    params = {a.arg for a in fn.args.args}
    for name, k in assigned.items():
        if k != 1 or name in params or name in frozen:
            raise TranslateError('%s: local %s is bound more than once or rebinds a parameter' % (fn.name, name))

    def same(a, b):
        return ast.dump(a) == ast.dump(b)

    def conv(ss, env):
        ss = [x for x in ss if not _is_doc(x)]
        if not ss:
            raise TranslateError('%s: control can fall off the end' % fn.name)
        s, rest = ss[0], ss[1:]
        if isinstance(s, ast.Return):
            if s.value is None:
                raise TranslateError('%s: bare return' % fn.name)
            return _Subst(env).visit(_copy(s.value))
        if isinstance(s, ast.Assign):
            val = _Subst(env).visit(_copy(s.value))
            if not _pure_alias(val):
                raise TranslateError('%s: local %s is bound to an expression that cannot be substituted' % (fn.name, s.targets[0].id))
            env2 = dict(env)
            env2[s.targets[0].id] = val
            return conv(rest, env2)
        if isinstance(s, ast.If):
            c = _Subst(env).visit(_copy(s.test))
            a = conv(s.body, env)
            b = conv(s.orelse, env) if s.orelse else conv(rest, env)
            if s.orelse and rest:
                raise TranslateError('%s: statements after an if/else that always returns' % fn.name)
            if isinstance(c, ast.UnaryOp) and isinstance(c.op, ast.Not) and same(c.operand, a):
                return _and(a, b)
            if isinstance(a, ast.Constant) and a.value is True:
                return _or(c, b)
            if isinstance(a, ast.Constant) and a.value is False:
                return _and(ast.UnaryOp(ast.Not(), c), b)
            return _or(_and(c, a), _and(ast.UnaryOp(ast.Not(), _copy(c)), b))
        raise TranslateError('%s: unsupported statement %s' % (fn.name, type(s).__name__))
    return conv(stmts, {})


def _copy(n):
    import copy
    return copy.deepcopy(n)


def _and(a, b):
    return ast.BoolOp(ast.And(), [a, b])


def _or(a, b):
    return ast.BoolOp(ast.Or(), [a, b])
