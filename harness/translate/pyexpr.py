"""A fail-closed translator from a small fragment of Python boolean/arith
expressions (as ``ast`` nodes) to Gallina text.

The caller supplies an *environment*: a function ``leaf(node) -> str | None``
that recognises the leaves it knows (names, attribute chains, calls) and
returns Coq text for them, or None.  Everything else must be one of the
shapes handled here; any other node raises TranslateError.

Booleans are Coq ``bool``; numbers are in the caller's numeric domain, for
which it supplies the comparison emitters (cmp: op-name, lhs, rhs -> text).
Python's short-circuit ``and``/``or`` are mapped to ``&&``/``||`` (sound for
total, effect-free operands, which is all the fragment admits) with constant
folding, so a guard like ``value is None or (...)`` can remove an operand that
would not be evaluated.
"""
import ast


class TranslateError(Exception):
    pass


TRUE, FALSE = 'true', 'false'

_CMP = {ast.Lt: 'lt', ast.LtE: 'le', ast.Gt: 'gt', ast.GtE: 'ge',
        ast.Eq: 'eq', ast.NotEq: 'ne'}


class BoolTranslator(object):
    def __init__(self, leaf, cmp, num=None, is_none=None, contains=None):
        self.leaf = leaf          # node -> coq bool text or None
        self.cmp = cmp            # (opname, lnode, rnode) -> coq bool text
        self.num = num            # node -> coq numeric text (for cmp operands)
        self.is_none = is_none    # node -> TRUE/FALSE/coq text or None if unknown
        self.contains = contains  # (elt node, container node) -> coq text

    def tr(self, n):
        r = self.leaf(n)
        if r is not None:
            return r
        if isinstance(n, ast.BoolOp):
            parts = []
            if isinstance(n.op, ast.And):
                for v in n.values:
                    t = self.tr(v)
                    if t == FALSE:
                        parts.append(FALSE)
                        break          # short circuit: later operands not evaluated
                    if t != TRUE:
                        parts.append(t)
                if FALSE in parts:
                    return FALSE
                if not parts:
                    return TRUE
                return '(' + ' && '.join(parts) + ')'
            if isinstance(n.op, ast.Or):
                for v in n.values:
                    t = self.tr(v)
                    if t == TRUE:
                        parts.append(TRUE)
                        break
                    if t != FALSE:
                        parts.append(t)
                if TRUE in parts:
                    return TRUE
                if not parts:
                    return FALSE
                return '(' + ' || '.join(parts) + ')'
        if isinstance(n, ast.UnaryOp) and isinstance(n.op, ast.Not):
            t = self.tr(n.operand)
            if t == TRUE:
                return FALSE
            if t == FALSE:
                return TRUE
            return '(negb %s)' % t
        if isinstance(n, ast.Constant) and n.value is True:
            return TRUE
        if isinstance(n, ast.Constant) and n.value is False:
            return FALSE
        if isinstance(n, ast.Compare):
            # a op b op c  ==  (a op b) and (b op c); operands are pure here
            parts = []
            left = n.left
            for op, right in zip(n.ops, n.comparators):
                parts.append(self._cmp1(op, left, right))
                left = right
            if FALSE in parts:
                return FALSE
            parts = [p for p in parts if p != TRUE]
            if not parts:
                return TRUE
            return '(' + ' && '.join(parts) + ')'
        raise TranslateError('unsupported expression: %s' % ast.dump(n)[:200])

    def _cmp1(self, op, l, r):
        if isinstance(op, (ast.Is, ast.IsNot)):
            if isinstance(r, ast.Constant) and r.value is None and self.is_none:
                t = self.is_none(l)
                if t is None:
                    raise TranslateError('is None on unknown operand: %s' % ast.dump(l))
                if isinstance(op, ast.Is):
                    return t
                return {TRUE: FALSE, FALSE: TRUE}.get(t, '(negb %s)' % t)
            raise TranslateError('unsupported identity test: %s' % ast.dump(l))
        if isinstance(op, (ast.In, ast.NotIn)) and self.contains:
            t = self.contains(l, r)
            return t if isinstance(op, ast.In) else '(negb %s)' % t
        if type(op) in _CMP:
            return self.cmp(_CMP[type(op)], l, r)
        raise TranslateError('unsupported comparison: %s' % ast.dump(op))


def find_function(tree, path):
    """path like ['TBoundedInteger', '_BoundedInteger', 'validate_native']"""
    node = tree
    for name in path:
        found = None
        for ch in ast.walk(node) if False else node.body:
            if isinstance(ch, (ast.FunctionDef, ast.ClassDef)) and ch.name == name:
                found = ch
        if found is None:
            raise TranslateError('cannot find %s in %s' % (name, path))
        node = found
    return node


def single_return(fn):
    """body must be [docstring?] return <expr>"""
    body = [s for s in fn.body
            if not (isinstance(s, ast.Expr) and isinstance(s.value, ast.Constant)
                    and isinstance(s.value.value, str))]
    if len(body) != 1 or not isinstance(body[0], ast.Return) or body[0].value is None:
        raise TranslateError('%s: body is not a single return' % fn.name)
    return body[0].value


def attr_chain(n):
    """a.b.c -> ['a','b','c'] or None"""
    parts = []
    while isinstance(n, ast.Attribute):
        parts.append(n.attr)
        n = n.value
    if isinstance(n, ast.Name):
        parts.append(n.id)
        return list(reversed(parts))
    return None
