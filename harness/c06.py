"""C06 — the published XML Schema is truthful about the wire.

Parts (DESIGN.md section 6, C06):
  * proof obligations: coq/Props/C06.v over coq/C06/{Xsd,Model}.v and the tables generated from
    the emitter's source (coq/Gen/XsdEmit.v, coq/Gen/NumTypes.v); coq/Props/C06_src.v over the
    tables generated from the SOAP protocols and the member-editing primitives (coq/Gen/XsdState.v);
  * correspondences, per generated type universe (real Spyne classes AND a Gallina term):
      schema    Model.schema_of  vs  the schema documents XmlSchema really builds (parsed fail-closed),
      xsd       Xsd.valid_doc on the real schema  vs  lxml.etree.XMLSchema.validate,
      emit      Model.emit  vs  the request document Spyne writes for a conformant value,
      soft      Model.soft  vs  the verdict of the real pipeline with validator='soft',
      leaf      decimal writer/reader, xs:decimal / xs:integer lexical mappings vs decimal / lxml;
  * direct oracle on the real implementation: the schema compiles (and imports every namespace it
    refers to, one universe per kind of cross-namespace reference); every request and response
    document Spyne emits for conformant values validates (lxml) against it; for documents in
    declared order the lxml and soft verdicts coincide wherever only constraints that both
    implement are at stake (XmlDocument, Soap11, Soap12)."""
import os, sys, json, re, copy, hashlib, datetime, decimal, traceback
import lib
import c06gen as G
from lib import gz, gtext, glist, gbool, gopt

THEOREMS = ['C06_emitted_valid_partial', 'C06_decimal_literal', 'C06_decimal_literal_valid', 'C06_decimal_wire_refuted',
            'C06_nil_required_refuted', 'C06_verdicts_agree', 'C06_verdicts_agree_structure', 'C06_int_verdicts_agree', 'C06_str_verdicts_agree', 'C06_bool_verdicts_agree',
            'C06_closure_check_sound', 'C06_ex_emitted_valid', 'C06_ex_int_agree', 'C06_ex_str_agree', 'C06_ex_verdicts']
SRC_THEOREMS = ['C06_soap_writers_iso_safe', 'C06_member_edits_reach_subclasses', 'C06_none_written_as_source_decides',
                'C06_list_written_as_source_decides']
FUEL = 12
XSD_NS = 'http://www.w3.org/2001/XMLSchema'
XSI_NS = 'http://www.w3.org/2001/XMLSchema-instance'
D = decimal.Decimal

IMPORTS = 'From SpyneV Require Import Base.Prelude Base.Ext C06.Check C06.Closure C06.Docs C06.Main.\n'


# ------------------------------------------------------------------ driving the implementation
def make_client(app, name):
    from spyne.client import RemoteProcedureBase

    class RP(RemoteProcedureBase):
        def request(self, *args):
            ctx = self.contexts[0]
            self.get_out_object(ctx, args, {})
            self.get_out_string(ctx)
            return b''.join(ctx.out_string)
    return RP(None, app, name)


def serve(app, body, ret=None, want_out=True):
    """one request through ServerBase; returns (ctx, calls, out_bytes)"""
    from spyne.server import ServerBase
    from spyne import MethodContext
    srv = ServerBase(app)
    ctx = MethodContext(srv, MethodContext.SERVER)
    ctx.in_string = [body]
    ctx = srv.generate_contexts(ctx)[0]
    del G.CALLS[:]
    del G.RET[:]
    if ret is not None:
        G.RET.append(ret)
    if ctx.in_error is None:
        srv.get_in_object(ctx)
    if ctx.in_error is None:
        srv.get_out_object(ctx)
    if not want_out:
        return ctx, list(G.CALLS), b''
    srv.get_out_string(ctx)
    return ctx, list(G.CALLS), b''.join(ctx.out_string)


EXN = {'ValueError': 'ValueError', 'TypeError': 'TypeError', 'AttributeError': 'AttributeError', 'KeyError': 'KeyError',
       'IndexError': 'IndexError', 'OverflowError': 'OverflowError', 'InvalidOperation': 'InvalidOperation',
       'AssertionError': 'AssertionError'}


def verdict(app, body):
    """('accept',) | ('vfault',) | ('reject', code) | ('crash', CoqExn, name)"""
    try:
        ctx, calls, _ = serve(app, body, want_out=False)   # the verdict is reached before anything is written
    except Exception as e:
        n = type(e).__name__
        return ('crash', EXN.get(n, 'OtherExn'), n)
    if calls:
        return ('accept',)
    err = ctx.in_error or ctx.out_error
    code = getattr(err, 'faultcode', None)
    if code == 'Client.ValidationError':
        return ('vfault',)
    return ('reject', str(code))


def accepted(v):
    return v[0] == 'accept'


def g_verdict(v):
    if v[0] == 'accept':
        return '(Ok tt)'
    if v[0] == 'vfault':
        return 'VFault'
    if v[0] == 'crash':
        return '(Crash %s)' % v[1]
    return '(Crash OtherExn)'


def wrap(proto, tns, mname, x):
    from lxml import etree
    m = etree.Element('{%s}%s' % (tns, mname))
    m.append(x)
    if proto == 'xml':
        return m, etree.tostring(m)
    env = {'soap11': 'http://schemas.xmlsoap.org/soap/envelope/', 'soap12': 'http://www.w3.org/2003/05/soap-envelope'}[proto]
    E = etree.Element('{%s}Envelope' % env)
    B = etree.SubElement(E, '{%s}Body' % env)
    B.append(m)
    return m, etree.tostring(E)


def payload(proto, doc):
    from lxml import etree
    root = etree.fromstring(doc)
    if proto == 'xml':
        return root
    body = [c for c in root if etree.QName(c).localname == 'Body'][0]
    return body[0]


# ------------------------------------------------------------------ the real schema -> Xsd.schema (fail closed)
class SchemaShape(Exception):
    pass


def _q(el, s):
    if ':' in s:
        p, l = s.split(':', 1)
        ns = el.nsmap.get(p)
        if ns is None:
            raise SchemaShape('unbound prefix in %r' % s)
        return ns, l
    return el.nsmap.get(None) or '', s


def g_qn(q):
    return '(%s, %s)' % (gtext(q[0]), gtext(q[1]))


def _only(el, allowed):
    extra = set(el.attrib) - set(allowed)
    if extra:
        raise SchemaShape('unexpected attributes %r on %s' % (sorted(extra), el.tag))


def _xs(name):
    return '{%s}%s' % (XSD_NS, name)


FTAGS = {'minExclusive': 'T_minExclusive', 'minInclusive': 'T_minInclusive', 'maxExclusive': 'T_maxExclusive',
         'maxInclusive': 'T_maxInclusive', 'enumeration': 'T_enumeration', 'length': 'T_length', 'minLength': 'T_minLength',
         'maxLength': 'T_maxLength', 'pattern': 'T_pattern', 'totalDigits': 'T_totalDigits', 'fractionDigits': 'T_fractionDigits'}


def _bool(s):
    if s in ('true', '1'):
        return True
    if s in ('false', '0'):
        return False
    raise SchemaShape('not an xs:boolean: %r' % s)


def _edecl(el):
    _only(el, ['name', 'type', 'minOccurs', 'maxOccurs', 'nillable', 'default'])
    if len(el):
        raise SchemaShape('element declaration with children')
    mx = el.get('maxOccurs')
    return '(mkedecl %s %s %s %s %s %s)' % (
        gtext(el.get('name')), g_qn(_q(el, el.get('type'))), gopt(el.get('minOccurs'), lambda s: gz(int(s))),
        gopt(mx, lambda s: 'PosInf' if s == 'unbounded' else '(Fin %s)' % gz(int(s))),
        gopt(el.get('nillable'), lambda s: gbool(_bool(s))), gopt(el.get('default'), gtext))


def _sequence(el, facets_out):
    _only(el, [])
    ps = []
    for ch in el:
        if ch.tag == _xs('element'):
            ps.append('(PElem %s)' % _edecl(ch))
        elif ch.tag == _xs('choice'):
            _only(ch, [])
            alts = []
            for a in ch:
                if a.tag != _xs('element'):
                    raise SchemaShape('choice member %s' % a.tag)
                alts.append(_edecl(a))
            ps.append('(PChoice %s)' % glist(alts))
        else:
            raise SchemaShape('sequence member %s' % ch.tag)
    return ps


def _adecl(el):
    _only(el, ['name', 'type', 'use', 'default'])
    use = el.get('use')
    if use not in (None, 'required', 'optional'):
        raise SchemaShape('use=%r' % use)
    return '(mkadecl %s %s %s %s)' % (gtext(el.get('name')), g_qn(_q(el, el.get('type'))),
                                      gopt(use, lambda u: gbool(u == 'required')), gopt(el.get('default'), gtext))


def parse_schema(schema_dict, notes):
    """{prefix: <xs:schema> element} -> Gallina term of type Xsd.schema; every facet text is noted"""
    docs = []
    for pref, root in schema_dict.items():
        if root.tag != _xs('schema'):
            raise SchemaShape('root %s' % root.tag)
        _only(root, ['targetNamespace', 'elementFormDefault'])
        efd = root.get('elementFormDefault', 'unqualified')
        if efd not in ('qualified', 'unqualified'):
            raise SchemaShape('elementFormDefault=%r' % efd)
        imports, types, elems = [], [], []
        for ch in root:
            if ch.tag == _xs('import'):
                _only(ch, ['namespace', 'schemaLocation'])
                imports.append(gtext(ch.get('namespace')))
            elif ch.tag == _xs('simpleType'):
                _only(ch, ['name'])
                if len(ch) != 1 or ch[0].tag != _xs('restriction'):
                    raise SchemaShape('simpleType %s is not a single restriction' % ch.get('name'))
                r = ch[0]
                _only(r, ['base'])
                fs = []
                for f in r:
                    tag = f.tag.split('}')[1]
                    if tag not in FTAGS or f.tag != _xs(tag):
                        raise SchemaShape('facet %s' % f.tag)
                    _only(f, ['value'])
                    fs.append('(%s, %s)' % (FTAGS[tag], gtext(f.get('value'))))
                    notes.append(f.get('value'))
                types.append('(TSimple (mksdef %s %s %s))' % (gtext(ch.get('name')), g_qn(_q(r, r.get('base'))), glist(fs)))
            elif ch.tag == _xs('complexType'):
                _only(ch, ['name'])
                base = None
                body = list(ch)
                if len(body) == 1 and body[0].tag == _xs('complexContent'):
                    cc = body[0]
                    _only(cc, [])
                    if len(cc) != 1 or cc[0].tag != _xs('extension'):
                        raise SchemaShape('complexContent of %s' % ch.get('name'))
                    ext = cc[0]
                    _only(ext, ['base'])
                    base = _q(ext, ext.get('base'))
                    body = list(ext)
                seq, atts = [], []
                for i, b in enumerate(body):
                    if b.tag == _xs('sequence') and i == 0:
                        seq = _sequence(b, notes)
                    elif b.tag == _xs('attribute'):
                        atts.append(_adecl(b))
                    else:
                        raise SchemaShape('complexType %s member %s' % (ch.get('name'), b.tag))
                types.append('(TComplex (mkcdef %s %s %s %s))' % (gtext(ch.get('name')), gopt(base, g_qn), glist(seq), glist(atts)))
            elif ch.tag == _xs('element'):
                _only(ch, ['name', 'type'])
                elems.append('(%s, %s)' % (gtext(ch.get('name')), g_qn(_q(ch, ch.get('type')))))
            else:
                raise SchemaShape('schema member %s' % ch.tag)
        docs.append('(mksdoc %s %s %s %s %s)' % (gtext(root.get('targetNamespace')), gbool(efd == 'qualified'), glist(imports),
                                                  glist(types), glist(elems)))
    return glist(docs)


# ------------------------------------------------------------------ reference lexical mappings of the delegated kinds
_RE_DBL = re.compile(r'^([+-]?([0-9]+(\.[0-9]*)?|\.[0-9]+)([Ee][+-]?[0-9]+)?|[+-]?INF|NaN)$')
_TZ = r'(Z|[+-][0-9]{2}:[0-9]{2})?'
_RE_DATE = re.compile(r'^(-?[0-9]{4,})-([0-9]{2})-([0-9]{2})' + _TZ + '$')
_RE_TIME = re.compile(r'^([0-9]{2}):([0-9]{2}):([0-9]{2})(\.[0-9]+)?' + _TZ + '$')
_RE_DT = re.compile(r'^(-?[0-9]{4,})-([0-9]{2})-([0-9]{2})T([0-9]{2}):([0-9]{2}):([0-9]{2})(\.[0-9]+)?' + _TZ + '$')
_RE_DUR = re.compile(r'^-?P(?=.)([0-9]+Y)?([0-9]+M)?([0-9]+D)?(T(?=.)([0-9]+H)?([0-9]+M)?([0-9]+(\.[0-9]+)?S)?)?$')
_RE_B64 = re.compile(r'^((([A-Za-z0-9+/] ?){4})*(([A-Za-z0-9+/] ?){3}[A-Za-z0-9+/]|([A-Za-z0-9+/] ?){2}[AEIMQUYcgkosw048] ?=|'
                     r'[A-Za-z0-9+/] ?[AQgw] ?= ?=))?$')


def _tz_minutes(z):
    if not z or z == 'Z':
        return 0
    sg = -1 if z[0] == '-' else 1
    return sg * (int(z[1:3]) * 60 + int(z[4:6]))


def _frac_us(fr):
    if not fr:
        return 0
    digits = (fr[1:] + '000000')[:6]
    return int(digits)


def xs_key(kind, s):
    """XML Schema part 2 lexical mapping of the delegated built-ins -> order key, None = not a literal"""
    try:
        if kind in ('double', 'float'):
            if not _RE_DBL.match(s) or s == 'NaN':
                return None
            f = float(s.replace('INF', 'inf'))
            if kind == 'float':
                import struct
                try:
                    f = struct.unpack('>f', struct.pack('>f', f))[0]
                except OverflowError:
                    f = float('inf') if f > 0 else float('-inf')
            return G.float_key(f)
        if kind == 'date':
            m = _RE_DATE.match(s)
            if not m:
                return None
            return datetime.date(int(m.group(1)), int(m.group(2)), int(m.group(3))).toordinal()
        if kind == 'time':
            m = _RE_TIME.match(s)
            if not m:
                return None
            h, mi, se = int(m.group(1)), int(m.group(2)), int(m.group(3))
            if not (h < 24 and mi < 60 and se < 60) and not (h == 24 and mi == 0 and se == 0):
                return None
            return ((h * 60 + mi) * 60 + se) * 10 ** 6 + _frac_us(m.group(4))
        if kind == 'dateTime':
            m = _RE_DT.match(s)
            if not m:
                return None
            d = datetime.datetime(int(m.group(1)), int(m.group(2)), int(m.group(3)), int(m.group(4)), int(m.group(5)), int(m.group(6)),
                                  tzinfo=datetime.timezone.utc)
            dl = d - G._EPOCH
            return (dl.days * 86400 + dl.seconds) * 10 ** 6 + _frac_us(m.group(7)) - _tz_minutes(m.group(8)) * 60 * 10 ** 6
        if kind == 'duration':
            m = _RE_DUR.match(s)
            if not m or m.group(1) or m.group(2):          # years / months have no fixed length: outside the reference
                return None
            def num(g, unit):
                return decimal.Decimal(g[:-1]) * unit if g else 0
            us = (num(m.group(3), 86400) + num(m.group(5), 3600) + num(m.group(6), 60) + num(m.group(7), 1)) * 10 ** 6
            if us != int(us):
                return None
            return -int(us) if s.startswith('-') else int(us)
        if kind == 'base64Binary':
            return 0 if _RE_B64.match(s) else None
    except (ValueError, OverflowError):
        return None
    return None


def spyne_key(prot, kind, scls, s):
    """Spyne's own reader on the text -> ('ok', key) | ('vfault',) | ('crash', exn)"""
    from spyne.model.fault import Fault
    try:
        o = prot.from_unicode(scls, s)
    except Fault as e:
        return ('vfault',) if e.faultcode == 'Client.ValidationError' else ('crash', 'OtherExn')
    except Exception as e:
        return ('crash', EXN.get(type(e).__name__, 'OtherExn'))
    if o is None:
        return ('crash', 'OtherExn')
    try:
        return ('ok', G.native_key(kind, o))
    except Exception:
        return ('crash', 'OtherExn')


SPYNE_KIND_CLASS = None


def kind_class(kind):
    global SPYNE_KIND_CLASS
    if SPYNE_KIND_CLASS is None:
        SPYNE_KIND_CLASS = {k: G.spyne_leaf({'base': k}) for k in G.OKIND}
    return SPYNE_KIND_CLASS[kind]


def xml_trim(s):
    return s.strip(' \t\n\r')


def tables(R, texts, prot):
    """the Gallina definitions PT (patterns), OT (XSD lexical keys), RT (Spyne reader keys) for
    the given leaf texts, every delegated kind"""
    uuid_pat = kind_class('uuid').Attributes.pattern
    pats = dict(R.patterns)
    if uuid_pat not in pats:
        pats[uuid_pat] = G.parse_re(uuid_pat)
    pt = glist(['(%s, %s)' % (gtext(p), r) for p, r in sorted(pats.items())])
    ot, rt = [], []
    seen = set()
    for s in texts:
        for t in (s, xml_trim(s)):
            if t in seen:
                continue
            seen.add(t)
            for kind, K in G.OKIND.items():
                if kind == 'uuid':
                    k = None
                else:
                    k = xs_key(kind, t)
                ot.append('(%s, %s, %s)' % (K, gtext(t), gopt(k, gz)))
                r = spyne_key(prot, kind, kind_class(kind), t)
                rt.append('(%s, %s, %s)' % (K, gtext(t), '(Ok %s)' % gz(r[1]) if r[0] == 'ok' else
                                            ('VFault' if r[0] == 'vfault' else '(Crash %s)' % r[1])))
    return ('Definition PT : list (text * re) := %s.\nDefinition OT : list (okind * text * option Z) := %s.\n'
            'Definition RT : list (okind * text * out Z) := %s.\n' % (pt, glist(ot), glist(rt)))


def doc_texts(e):
    out = []
    for x in e.iter():
        if isinstance(x.tag, str):
            if x.text is not None:
                out.append(x.text)
            out.extend(x.attrib.values())
    return out


# ------------------------------------------------------------------ one universe: build everything
def import_gaps(schema_docs):
    """[(target namespace, referenced namespace)]: QName references (type / base / ref) of a schema
    document to a namespace it neither targets nor imports (XSD part 1, 4.2.3: such a reference
    does not resolve, whatever a lenient processor makes of it)"""
    out = []
    for root in schema_docs.values():
        tn = root.get('targetNamespace')
        imported = set(ch.get('namespace') for ch in root if ch.tag == _xs('import'))
        for el in root.iter():
            if not isinstance(el.tag, str):
                continue
            for a in ('type', 'base', 'ref', 'itemType'):
                q = el.get(a)
                if q is None or ':' not in q:
                    continue
                ns = el.nsmap.get(q.split(':', 1)[0])
                if ns not in (tn, XSD_NS) and ns not in imported and (tn, ns) not in out:
                    out.append((tn, ns))
    return out


class World(object):
    """a generated universe rendered as real Spyne applications and as Gallina terms"""

    def __init__(self, rng, desc, proto='xml', classes=None, svc=None, base_desc=None, steps=None):
        """classes / svc: the (already used, then changed) classes of an evolving universe, desc being what they
        declare now; base_desc / steps: what they declared when they were built and what was done to them since"""
        from spyne.interface.xml_schema import XmlSchema
        self.desc, self.proto = desc, proto
        self.base_desc, self.steps = base_desc, steps
        self.classes = classes if classes is not None else G.build_spyne(desc)
        self.svc = svc or G.build_service(desc, self.classes)
        self.compile_error = None
        self.app_s = G.build_app(desc, self.classes, proto, 'soft', self.svc)
        self.app_n = G.build_app(desc, self.classes, proto, None, self.svc)
        try:
            self.app_l = G.build_app(desc, self.classes, proto, 'lxml', self.svc)
            self.schema = self.app_l.in_protocol.validation_schema
        except Exception as e:
            self.app_l, self.schema = None, None
            self.compile_error = '%s: %s' % (type(e).__name__, str(e)[:300])
        xs = XmlSchema(self.app_s.interface)
        xs.build_interface_document()
        self.schema_docs = xs.get_interface_document()
        gaps = import_gaps(self.schema_docs)
        if gaps and not self.compile_error:
            self.compile_error = 'missing xs:import: the schema of %r refers to %r without importing it' % gaps[0]

    def urp(self):
        """the universe part of a replay record"""
        if self.steps is not None:
            return {'universe': self.base_desc, 'evolve': self.steps}
        return {'universe': self.desc}

    def request(self, cid, v):
        o = G.to_native(self.desc, self.classes, v)
        return make_client(self.app_s, 'm%d' % cid).request(o)

    def lxml_ok(self, elt):
        ok = self.schema.validate(elt)
        err = None if ok else self.schema.error_log.last_error
        return bool(ok), (err.message if err is not None else None)


PROVED_BASES = G.INT_BASES + ['string', 'string', 'string', 'anyURI', 'boolean', 'boolean']


def gen_desc(rng, tier, ui, proved_only=False, wide=False):
    """wide: with named simple types (type_name / __namespace__), members that customise them a
    second time, and the hex / urlsafe encodings of ByteArray -- the direct oracle only (the Gallina
    universe has no named simple types)"""
    return G.gen_universe(rng, n_classes=rng.randint(1, 5), namespaces=('urn:t', 'urn:u') if ui % 2 else ('urn:t',),
                          bases=PROVED_BASES if proved_only else None, named=wide and ui % 3 != 0, extra=wide)


def attr_clash(desc, cid, elt):
    """does a child element carry an attribute named like a member of the class of its parent
    (complex_from_element reads such attributes into the parent: outside the document class)?"""
    flds = {f['name']: f for _, f in G.flat_fields(desc, cid)}
    for ch in elt:
        if not isinstance(ch.tag, str):
            continue
        name = ch.tag.split('}')[-1]
        if any(k in flds for k in ch.attrib if not k.startswith('{')):
            return True
        f = flds.get(name)
        if f is None:
            continue
        t = f['ty']
        kids = [ch]
        while t[0] == 'arr':
            kids = [g for k in kids for g in k]
            t = t[1]
        if t[0] == 'ref':
            if any(attr_clash(desc, t[1], k) for k in kids):
                return True
    return False


def in_proved_class(desc, notes):
    """is a generated document in the class of C06_verdicts_agree with la_canon?  The leaf classes
    are integers / strings / booleans without total_digits, and the document departs from
    validity only by constraints both validators implement."""
    if any(n.startswith('schema-only:') or n.startswith('finding:') or n.startswith('soft-only:') for n in notes):
        return False
    for c in desc['classes']:
        for f in c['fields']:
            t = f['ty']
            while t[0] == 'arr':
                t = t[1]
            if t[0] == 'leaf':
                if t[1]['base'] not in G.INT_BASES + ['string', 'anyURI', 'boolean'] or 'total_digits' in t[1]['facets']:
                    return False
    return True


def corr_universe(check, ui, tier):
    """all four structural correspondences on one generated universe (XmlDocument)"""
    from lxml import etree
    import universe as U0
    rng = check.rng
    G.VARIANTS[0] = False
    desc = gen_desc(rng, tier, ui, proved_only=(ui % 2 == 1))
    W = World(rng, desc, 'xml')
    if W.compile_error:
        check.fail('C06|compile|' + compile_shape(W.compile_error), 'the generated schema does not compile: ' + W.compile_error,
                   {'kind': 'compile', 'universe': desc})
        return
    R = G.Renderer(desc, W.classes, W.app_s.out_protocol)
    uterm = R.universe(W.svc)
    n = len(W.classes)
    notes = []
    try:
        sterm = parse_schema(W.schema_docs, notes)
    except SchemaShape as e:
        check.mismatch('schema', 'the real schema has a shape outside the modelled syntax: %s' % e)
        return
    texts = list(notes)
    emit_cases, xsd_cases, soft_cases, conf_cases, class_docs, class_cases = [], [], [], [], [], []
    per_class = 3 if tier == 'quick' else 8
    docs = []
    for cid in range(n):
        for _ in range(per_class):
            try:
                v = G.gen_conformant(rng, desc, ['ref', cid], depth=rng.randint(1, 3), nullable=False)
            except G.GenSkip:
                continue
            try:
                req = W.request(cid, v)
            except Exception as e:
                check.mismatch('emit', 'the implementation raised %s while writing a conformant value of class %d: %r' % (
                    type(e).__name__, cid, v))
                continue
            tree = etree.fromstring(req)
            vt = R.value(['ref', cid], v, W.classes[cid])
            emit_cases.append(('(%d%%nat, %s, %s, %s)' % (n + 2 * cid, gtext('m%d' % cid), vt, U0.g_xml(tree)),
                               'universe %d class %d value %s' % (ui, cid, json.dumps(v)[:400])))
            conf_cases.append(('(%d%%nat, %s, %s)' % (n + 2 * cid, vt, gbool(not nil_required(desc, ['ref', cid], v) and not dec_exponent(v))),
                               'universe %d class %d conformance of %s' % (ui, cid, json.dumps(v)[:400])))
            check.count(('emit', json.dumps(desc, sort_keys=True), cid, json.dumps(v)))
            docs.append((cid, tree, 'emitted'))
        for _ in range(per_class * 2):
            x, dn = G.gen_doc(rng, desc, W.classes, cid, desc['tns'], 'x', depth=rng.randint(1, 3))
            m, body = wrap('xml', desc['tns'], 'm%d' % cid, x)
            docs.append((cid, etree.fromstring(body), 'generated ' + ','.join(sorted(set(dn)))))
            if in_proved_class(desc, dn) and not attr_clash(desc, cid, x):
                class_docs.append((cid, etree.fromstring(body), ','.join(sorted(set(dn)))))
    for cid, tree, what in docs:
        texts.extend(doc_texts(tree))
        body = etree.tostring(tree)
        lv, _ = W.lxml_ok(tree)
        sv = verdict(W.app_s, body)
        xt = U0.g_xml(tree)
        xsd_cases.append(('(%s, %s)' % (xt, gbool(lv)), 'universe %d %s: %s -> lxml %s' % (ui, what, body.decode()[:500], lv)))
        soft_cases.append(('(%d%%nat, %s, %s)' % (n + 2 * cid, xt, g_verdict(sv)),
                           'universe %d %s: %s -> soft %r' % (ui, what, body.decode()[:500], sv)))
        check.count(('doc', body))
    for cid, tree, what in class_docs:
        class_cases.append(('(%d%%nat, %s)' % (n + 2 * cid, U0.g_xml(tree)),
                            'universe %d document meant to lie in the class of C06_verdicts_agree (%s): %s' % (
                                ui, what, etree.tostring(tree).decode()[:400])))
    imports = (IMPORTS + 'Definition UU : univ := %s.\nDefinition SS : schema := %s.\n' % (uterm, sterm)
               + tables(R, texts, W.app_s.in_protocol))
    tns = gtext(desc['tns'])
    lib.correspond(check, 'schema', imports, 'unit', '(fun _ => schema_covered (schema_of UU %s) SS)' % tns,
                   [('tt', 'universe %d: %s' % (ui, json.dumps(desc)[:1500]))],
                   show='(fun _ : unit => schema_diff (schema_of UU %s) SS)' % tns)
    # the hypotheses of C06_emitted_valid hold for what is generated: well-formed universe, closed schema,
    # conformant values (except where None stands for a class with a required attribute: the known finding)
    lib.correspond(check, 'hyp_universe', imports, 'unit',
                   '(fun _ => wf_univ UU && resolves_b (schema_of UU %s) UU && resolves_b SS UU)' % tns,
                   [('tt', 'universe %d: wf_univ / resolves_b on %s' % (ui, json.dumps(desc)[:1200]))],
                   show='(fun _ : unit => (wf_univ UU, resolves_b (schema_of UU %s) UU, resolves_b SS UU))' % tns)
    lib.correspond(check, 'hyp_value', imports, 'nat * value * bool',
                   '(fun c => let \'(mc, v, b) := c in Bool.eqb (vconf UU (wire_ok (olex_of OT) (ord_of RT)) %d (DRef mc) (NObj mc [v])) b)' % FUEL,
                   conf_cases)
    # the generated documents the agreement theorem speaks about do lie in its document class
    lib.correspond(check, 'hyp_document', imports, 'nat * xnode',
                   '(fun c => let \'(mc, t) := c in ddoc UU (la_canon (olex_of OT)) %d (DRef mc) false None t)' % FUEL, class_cases)
    lib.correspond(check, 'xsd', imports, 'xnode * bool',
                   '(fun c => Bool.eqb (valid_doc (pat_of PT) (olex_of OT) %d SS (fst c)) (snd c))' % FUEL, xsd_cases)
    lib.correspond(check, 'emit', imports, 'nat * text * value * xnode',
                   '(fun c => let \'(mc, mn, v, t) := c in match emit UU %d (DRef mc) None %s mn (NObj mc [v]) with '
                   'Ok e => xnode_eqb (wire e) t | _ => false end)' % (FUEL, tns), emit_cases,
                   show='(fun c : nat * text * value * xnode => let \'(mc, mn, v, t) := c in emit UU %d (DRef mc) None %s mn (NObj mc [v]))'
                        % (FUEL, tns))
    lib.correspond(check, 'soft', imports, 'nat * xnode * out unit',
                   '(fun c => let \'(mc, t, o) := c in out_unit_eqb (soft UU (ord_of RT) %d (DRef mc) true t) o)' % FUEL, soft_cases,
                   show='(fun c : nat * xnode * out unit => let \'(mc, t, o) := c in soft UU (ord_of RT) %d (DRef mc) true t)' % FUEL)
    if ui == 0:
        check.sample({'universe': desc})


def nil_required(desc, ty, v, as_nil=False):
    """does the value hold None where Spyne writes an xsi:nil element of a class with a required
    XmlAttribute (the region of the known finding C06|nil|required-attribute)?"""
    if v[0] == 'none':
        return as_nil and ty[0] == 'ref' and G.has_required_attr(desc, ty[1])
    if v[0] == 'list':
        if ty[0] == 'arr':
            return any(nil_required(desc, ty[1], x, True) for x in v[1])
        return False
    if v[0] == 'obj':
        for (_, f), x in zip(G.flat_fields(desc, v[1]), v[2]):
            if f['kind'] != 'elem':
                continue
            if G.is_multi(f) and x[0] == 'list':
                if any(nil_required(desc, f['ty'], y, f.get('default') is None) for y in x[1]):
                    return True
            elif nil_required(desc, f['ty'], x, f['min'] > 0 and f.get('default') is None):
                return True
        return False
    return False


def dec_exponent(v):
    """does the value hold a Decimal that str() writes with an exponent (region of the known
    finding C06|decimal|exponent-notation)?"""
    if v[0] == 'dec':
        return 'E' in str(D(v[1]))
    if v[0] == 'as':
        return v[1] not in ('int', 'float') and dec_exponent(v[2])
    if v[0] == 'list':
        return any(dec_exponent(x) for x in v[1])
    if v[0] == 'obj':
        return any(dec_exponent(x) for x in v[2])
    return False


MALFORMED = {
    'int': ['5', '-5', '+5', '05', '-0', ' 5 ', '\n7\t', '5 ', '', ' ', 'abc', '5.0', '5.', '1e3', '--5', '1 2', '1_0', '0x10', '128', '-129',
            '127', '-128', '65535', '65536', '99999999999999999999', '-99999999999999999999', '301', '300', '12a', '+', '-'],
    'dec': ['5', '-5', '+5', '05', '5.', '.5', '5.0', '-0.00', ' 5.5 ', '1e3', '1E+3', '1E-7', '', '.', 'abc', '5,0', '1.2.3', '--5',
            '0.5', '0.49', '1000', '1000.0', '1000.01', '99.999', '123.4', '12.34', '1234', '+.5', '-.', '00012.500'],
    'bool': ['true', 'false', '1', '0', ' true ', 'TRUE', 'True', 'yes', '', 'maybe', '2', 'false ', '\n0'],
    'str': ['', 'a', 'ab', 'abc', 'abcd', ' ab', 'ab ', 'A', 'zz', '12', 'a b', '\tab\n', 'ünï', '中文'],
    'uri': ['a', 'abc', 'abcdef', 'http://a/b', ' abc', 'abc ', 'urn:x:y', 'a/b?c=d'],
}


def corr_leaf_stream(check, tier):
    """the malformed stream: literals around and outside the lexical spaces, as element content
    and as attribute values, through the same two correspondences (lxml / the real soft
    validator against the models)"""
    from lxml import etree
    import universe as U0

    def leaf(base, **fa):
        return ['leaf', {'base': base, 'facets': fa}]

    def fld(name, ty, kind='elem', mx=None, nillable=True):
        return {'name': name, 'ty': ty, 'min': 0, 'max': (1 if kind == 'attr' else mx), 'nillable': nillable, 'kind': kind,
                'choice': None, 'default': None}
    members = [('i', leaf('integer'), 'int'), ('b', leaf('byte'), 'int'), ('u', leaf('unsignedShort', le=['int', 300]), 'int'),
               ('d', leaf('decimal'), 'dec'), ('e', leaf('decimal', ge=['dec', '0.5'], le=['dec', '1E+3']), 'dec'),
               ('g', leaf('decimal', total_digits=4, fraction_digits=2), 'dec'),
               ('t', leaf('boolean'), 'bool'), ('s', leaf('string', min_len=1, max_len=3), 'str'), ('p', leaf('string', pattern='[a-z]+'), 'str'),
               ('a', leaf('anyURI', max_len=5), 'uri')]
    desc = {'tns': 'urn:tns', 'classes': [{'ns': 'urn:t', 'name': 'K0', 'parent': None,
                                           'fields': [fld(n, t) for n, t, _ in members] + [fld('x' + n, t, 'attr') for n, t, _ in members]}]}
    W = World(check.rng, desc, 'xml')
    if W.compile_error:
        check.mismatch('leaf_stream', 'the fixed universe of the literal stream does not compile: ' + W.compile_error)
        return
    R = G.Renderer(desc, W.classes, W.app_s.out_protocol)
    uterm = R.universe(W.svc)
    notes = []
    sterm = parse_schema(W.schema_docs, notes)
    texts = list(notes)
    xsd_cases, soft_cases = [], []
    for name, ty, pool in members:
        for lit in MALFORMED[pool]:
            for as_attr in (False, True):
                x = etree.Element('{urn:tns}x')
                if as_attr:
                    x.set('x' + name, lit)
                else:
                    etree.SubElement(x, '{urn:t}' + name).text = lit
                m, body = wrap('xml', 'urn:tns', 'm0', x)
                tree = etree.fromstring(body)
                texts.extend(doc_texts(tree))
                lv, _ = W.lxml_ok(tree)
                sv = verdict(W.app_s, body)
                xt = U0.g_xml(tree)
                what = '%s %s=%r' % ('attribute' if as_attr else 'element', name, lit)
                xsd_cases.append(('(%s, %s)' % (xt, gbool(lv)), 'literal stream %s -> lxml %s' % (what, lv)))
                soft_cases.append(('(1%%nat, %s, %s)' % (xt, g_verdict(sv)), 'literal stream %s -> soft %r' % (what, sv)))
                check.count(('leaf', name, lit, as_attr))
    imports = (IMPORTS + 'Definition UU : univ := %s.\nDefinition SS : schema := %s.\n' % (uterm, sterm) + tables(R, texts, W.app_s.in_protocol))
    lib.correspond(check, 'xsd_literals', imports, 'xnode * bool',
                   '(fun c => Bool.eqb (valid_doc (pat_of PT) (olex_of OT) %d SS (fst c)) (snd c))' % FUEL, xsd_cases)
    lib.correspond(check, 'soft_literals', imports, 'nat * xnode * out unit',
                   '(fun c => let \'(mc, t, o) := c in out_unit_eqb (soft UU (ord_of RT) %d (DRef mc) true t) o)' % FUEL, soft_cases,
                   show='(fun c : nat * xnode * out unit => let \'(mc, t, o) := c in soft UU (ord_of RT) %d (DRef mc) true t)' % FUEL)


def corr_decimal_text(check, tier):
    """Dec.v against decimal.Decimal: str(), format(d, 'f'), and what xs:decimal / Decimal() read back"""
    rng = check.rng
    cases = []
    pool = list(G.DEC_POOL) + ['0E-7', '0E+3', '-0', '1E+100', '123456789E-20', '5E-6', '5E-7', '100E-2', '-12E1']
    for _ in range(60 if tier == 'quick' else 600):
        sign = rng.choice(['', '-'])
        coeff = rng.choice([0, 1, 5, 10, 12, 100, 123, 1200, 99999, rng.randrange(10 ** rng.randint(1, 12))])
        pool.append('%s%dE%+d' % (sign, coeff, rng.randint(-12, 8)))
    for lit in pool:
        d = D(lit)
        plain = format(d, 'f')
        back = D(plain)
        cases.append(('(%s, %s, %s, %s)' % (G.g_dec(d), gtext(str(d)), gtext(plain), G.g_dec(back)),
                      'Decimal(%r): str %r, format f %r' % (lit, str(d), plain)))
        check.count(('dec', lit))
    lib.correspond(check, 'decimal_text', IMPORTS + 'From SpyneV Require Import C06.Dec.\n', 'decimal * text * text * decimal',
                   '(fun c => let \'(d, s, p, b) := c in text_eqb (dec_str d) s && text_eqb (dec_plain d) p '
                   '&& match py_decimal p with Some b\' => dec_eqb b\' b && (d_exp b\' =? d_exp b) | None => false end '
                   '&& match xs_decimal p with Some b\' => dec_eqb b\' d | None => false end)', cases)


def compile_shape(msg):
    if re.search(r"\[facet '(min|max)Exclusive'\] The value '([^']*)' must be (greater|less) than '\2'", msg):
        return 'inherited-exclusive-bound'
    m = re.search(r"Element '\{[^}]*\}(\w+)'.*?atomic type '([\w:]+)'", msg)
    if m:
        return 'facet-value|%s|%s' % (m.group(1), m.group(2))
    return re.sub(r"'[^']*'", "'_'", msg)[:80]


# ------------------------------------------------------------------ direct oracle on the implementation
def norm_msg(msg):
    """lxml error message -> shape (element / attribute names and values blanked, type names kept)"""
    if msg is None:
        return 'no-message'
    m = re.sub(r"Element '[^']*'", 'Element _', msg)
    m = re.sub(r"attribute '[^']*'", 'attribute _', m)
    m = re.sub(r"type '([^']*)'", r'type <\1>', m)
    m = re.sub(r"facet '([^']*)'", r'facet <\1>', m)
    m = re.sub(r"'[^']*'", '_', m)
    m = re.sub(r"\([^)]*\)", '(_)', m)
    return m[:110]


def exponent_rejected(msg):
    """lxml rejected a literal in exponent notation as a value of an atomic type"""
    return msg is not None and re.search(r"'[+-]?[0-9.]+E[+-]?[0-9]+' is not a valid value of the atomic type", msg) is not None


def nil_missing_attr(msg):
    return msg is not None and 'is required but missing' in msg


def byte_leaves(desc, ty, v, out):
    """[(base, bytes)] of the ByteArray leaves of a neutral value of declared type ty"""
    if v[0] == 'none':
        return
    if ty[0] == 'leaf':
        if v[0] in ('bytes', 'chunks'):
            out.append((ty[1]['base'], G.denoted_bytes(v)))
    elif v[0] == 'list':
        for x in v[1]:
            byte_leaves(desc, ty[1] if ty[0] == 'arr' else ty, x, out)
    elif v[0] == 'obj':
        for (_, f), x in zip(G.flat_fields(desc, v[1]), v[2]):
            if x[0] == 'list' and f['ty'][0] != 'arr':
                for y in x[1]:
                    byte_leaves(desc, f['ty'], y, out)
            else:
                byte_leaves(desc, f['ty'], x, out)


_RE_B64_STRICT = re.compile(r'^(?:[A-Za-z0-9+/]{4})*(?:[A-Za-z0-9+/][AQgw]==|[A-Za-z0-9+/]{2}[AEIMQUYcgkosw048]=)?$')
_RE_HEX = re.compile(r'^(?:[0-9a-fA-F]{2})*$')


def strict_decode(base, t):
    """the bytes a text denotes under the declared encoding, read strictly (RFC 4648: padding only
    at the end, no stray characters); None when the text is not such an encoding"""
    import base64
    if base == 'hexBinary':
        return bytes.fromhex(t) if _RE_HEX.match(t) else None
    if base == 'urlsafeBinary':
        if '+' in t or '/' in t:
            return None
        t = t.replace('-', '+').replace('_', '/')
    if not _RE_B64_STRICT.match(t):
        return None
    return base64.b64decode(t, validate=True)


def denotation_gap(desc, cid, v, elt):
    """the first ByteArray leaf of the value that no text of the written document denotes"""
    want = []
    byte_leaves(desc, ['ref', cid], v, want)
    if not want:
        return None
    texts = [t for t in doc_texts(elt) if t is not None]
    for base, b in want:
        for i, t in enumerate(texts):
            if strict_decode(base, t.strip()) == b:
                del texts[i]
                break
        else:
            return base, b
    return None


def check_denotation(check, W, cid, v, elt, which, raw, rp):
    gap = denotation_gap(W.desc, cid, v, elt)
    if gap is not None:
        check.fail('C06|emitted-denotation|%s|%s' % (which, gap[0]),
                   'no text of the %s Spyne wrote is the %s encoding of the ByteArray value %r (%s): %s'
                   % (which, gap[0], gap[1], W.proto, raw.decode('utf8', 'replace')[:300]), dict(rp, which=which))


def oracle_emitted(check, W, ui, cid, v, tag=''):
    """(b): the request and the response Spyne writes for a conformant value validate against the
    schema it publishes; (c) on the same documents: soft validation accepts what lxml accepts"""
    from lxml import etree
    desc, proto = W.desc, W.proto
    rp = dict(W.urp(), kind='emitted', proto=proto, cid=cid, value=v)
    region = nil_required(desc, ['ref', cid], v)
    dexp = dec_exponent(v)
    try:
        req = W.request(cid, v)
    except Exception as e:
        check.fail('C06|emit-crash|%s|%s' % (type(e).__name__, tag or leaf_shape(desc, cid, v)),
                   'Spyne raised %s while writing a request for a conformant value' % type(e).__name__, rp)
        return
    check.count(('oracle-emitted', proto, req))
    p = payload(proto, req)
    ok, msg = W.lxml_ok(p)
    if not ok:
        if region and nil_missing_attr(msg):
            key = 'C06|nil|required-attribute|emitted'
        elif dexp and exponent_rejected(msg):
            key = 'C06|decimal|exponent-notation|emitted'
        else:
            key = 'C06|emitted-invalid|request|' + (tag or norm_msg(msg))
        check.fail(key, 'the request Spyne writes for a conformant value is rejected by the schema it publishes (%s): %s -> %s'
                   % (proto, req.decode('utf8', 'replace')[:300], msg), dict(rp, which='request'))
    check_denotation(check, W, cid, v, p, 'request', req, rp)
    lv = verdict(W.app_l, req)
    sv = verdict(W.app_s, req)
    if accepted(lv) != accepted(sv) and not region:
        check.fail('C06|decimal|exponent-notation|verdict' if dexp and not accepted(lv) else
                   'C06|verdict|emitted|lxml=%s,soft=%s|%s' % (lv[0], sv[0], tag or leaf_shape(desc, cid, v)),
                   'schema validation and soft validation disagree on a document Spyne wrote itself (%s): %s -> lxml %r, soft %r'
                   % (proto, req.decode('utf8', 'replace')[:300], lv, sv), dict(rp, which='verdict'))
    # the response for the same value
    try:
        ctx, calls, out = serve(W.app_n, req, ret=G.to_native(desc, W.classes, v))
        pr = payload(proto, out)
    except Exception as e:
        check.fail('C06|emit-crash|response|%s' % type(e).__name__, 'Spyne raised %s while answering with a conformant value'
                   % type(e).__name__, rp)
        return
    if not calls:
        return
    ok, msg = W.lxml_ok(pr)
    if not ok:
        if region and nil_missing_attr(msg):
            key = 'C06|nil|required-attribute|emitted'
        elif dexp and exponent_rejected(msg):
            key = 'C06|decimal|exponent-notation|emitted'
        else:
            key = 'C06|emitted-invalid|response|' + (tag or norm_msg(msg))
        check.fail(key, 'the response Spyne writes for a conformant value is rejected by the schema it publishes (%s): %s -> %s'
                   % (proto, out.decode('utf8', 'replace')[:300], msg), dict(rp, which='response'))
    check_denotation(check, W, cid, v, pr, 'response', out, rp)


def leaf_shape(desc, cid, v):
    """bases of the leaf members of the class (site of the failure)"""
    bs = sorted(set(f['ty'][1]['base'] for _, f in G.flat_fields(desc, cid) if f['ty'][0] == 'leaf'))
    return ','.join(bs)[:60]


def oracle_verdicts(check, W, ui, cid, body, notes, what='generated'):
    """(c): lxml and soft reach the same verdict on a document in declared order, unless a
    constraint only one of them implements is at stake (notes 'schema-only:*')"""
    notes = sorted(set(notes))
    rp = dict(W.urp(), kind='verdict', proto=W.proto, cid=cid, doc=body.decode('utf8'), notes=notes)
    lv = verdict(W.app_l, body)
    sv = verdict(W.app_s, body)
    check.count(('oracle-verdict', W.proto, body))
    one_sided = [n for n in notes if n.startswith('schema-only:') or n.startswith('soft-only:')]
    finding = [n for n in notes if n.startswith('finding:')]
    both = [n for n in notes if n not in one_sided and n not in finding]
    if sv[0] == 'crash' or lv[0] == 'crash':
        check.fail('C06|verdict|crash|lxml=%s,soft=%s|%s' % (lv[0], sv[0] + ':' + str(sv[-1]), ','.join(notes)[:60]),
                   'a validator crashed on a document in declared order: %s -> lxml %r, soft %r' % (body.decode('utf8')[:300], lv, sv), rp)
        return
    if one_sided:
        return
    if accepted(lv) != accepted(sv):
        if finding and not both:
            key = 'C06|nil|required-attribute|verdict'
        else:
            key = 'C06|verdict|lxml=%s,soft=%s|%s' % (lv[0], sv[0], ','.join(notes)[:60] or 'no-departure')
        check.fail(key, 'schema validation and soft validation disagree on a document that uses only declared members in '
                        'declared order (%s): %s -> lxml %r, soft %r' % (W.proto, body.decode('utf8')[:400], lv, sv), rp)
        return
    # both agree: they must also agree with the reference reading of the declared constraints
    if not finding:
        want = not both
        if accepted(lv) != want:
            check.mismatch('oracle-reference', 'both validators %s a document the generator meant to be %s (%s): %s'
                           % ('accept' if accepted(lv) else 'reject', 'valid' if want else 'invalid', ','.join(notes), body.decode('utf8')[:400]))


def oracle_universe(check, ui, tier, desc=None, proto=None, tag='', per_class=None, where='', W=None):
    from lxml import etree
    rng = check.rng
    G.VARIANTS[0] = True
    if W is None:
        proto = proto or ('xml', 'soap11', 'soap12')[ui % 3]
        desc = desc or gen_desc(rng, tier, ui, wide=True)
        W = World(rng, desc, proto)
    desc, proto = W.desc, W.proto
    if W.compile_error:
        shape = compile_shape(W.compile_error)
        check.fail('C06|compile|' + (tag or (shape if shape == 'inherited-exclusive-bound' or not where else where + '|' + shape)),
                   'the schema Spyne generates does not compile%s: %s' % (' (%s)' % where if where else '', W.compile_error),
                   dict(W.urp(), kind='compile', proto=proto))
        return
    per_class = per_class or (4 if tier == 'quick' else 10)
    for cid in desc.get('methods', range(len(W.classes))):
        for _ in range(per_class):
            try:
                v = G.gen_conformant(rng, desc, ['ref', cid], depth=rng.randint(1, 3), nullable=False)
            except G.GenSkip:
                continue
            oracle_emitted(check, W, ui, cid, v, tag)
        for _ in range(per_class * 3):
            x, dn = G.gen_doc(rng, desc, W.classes, cid, desc['tns'], 'x', depth=rng.randint(1, 3))
            m, body = wrap(proto, desc['tns'], 'm%d' % cid, x)
            oracle_verdicts(check, W, ui, cid, body, dn)


# targeted universes: the witnesses of the repaired defects and of the known findings
def corpus():
    def leaf(base, **fa):
        return ['leaf', {'base': base, 'facets': fa}]

    def fld(name, ty, mn=0, mx=1, nillable=True, kind='elem', choice=None, default=None):
        return {'name': name, 'ty': ty, 'min': mn, 'max': mx, 'nillable': nillable, 'kind': kind, 'choice': choice, 'default': default}
    out = []
    # Decimal written in scientific notation: as a value and as a facet
    d1 = {'tns': 'urn:tns', 'classes': [{'ns': 'urn:t', 'name': 'K0', 'parent': None, 'fields': [fld('d', leaf('decimal'))]}]}
    out.append(('decimal-exponent-value', d1, [(0, ['obj', 0, [['dec', '2.8E+10']]]), (0, ['obj', 0, [['dec', '1E-7']]])]))
    d2 = {'tns': 'urn:tns', 'classes': [{'ns': 'urn:t', 'name': 'K0', 'parent': None,
                                        'fields': [fld('d', leaf('decimal', le=['dec', '1E+3']))]}]}
    out.append(('decimal-exponent-facet', d2, [(0, ['obj', 0, [['dec', '999.5']]])]))
    # a choice group declared before another member
    d3 = {'tns': 'urn:tns', 'classes': [{'ns': 'urn:t', 'name': 'K0', 'parent': None,
                                        'fields': [fld('one', leaf('integer'), choice='g'), fld('two', leaf('integer'), choice='g'),
                                                   fld('punk', leaf('string'))]}]}
    out.append(('choice-before-member', d3, [(0, ['obj', 0, [['int', 1], ['none'], ['text', 'x']]])]))
    # the empty string in a non-nillable string member
    d4 = {'tns': 'urn:tns', 'classes': [{'ns': 'urn:t', 'name': 'K0', 'parent': None,
                                        'fields': [fld('s', leaf('string'), nillable=False), fld('m', leaf('string', min_len=1))]}]}
    out.append(('empty-string', d4, [(0, ['obj', 0, [['text', ''], ['none']]])]))
    # known findings: None for a class with a required attribute; a choice group in two runs
    d5 = {'tns': 'urn:tns', 'classes': [
        {'ns': 'urn:t', 'name': 'K0', 'parent': None, 'fields': [fld('a', leaf('string'), mn=1, kind='attr')]},
        {'ns': 'urn:t', 'name': 'K1', 'parent': None, 'fields': [fld('x', ['ref', 0], mn=1)]}]}
    out.append(('nil-required-attribute', d5, [(1, ['obj', 1, [['none']]])]))
    d6 = {'tns': 'urn:tns', 'classes': [{'ns': 'urn:t', 'name': 'K0', 'parent': None,
                                        'fields': [fld('a', leaf('integer'), choice='g'), fld('b', leaf('string')),
                                                   fld('c', leaf('integer'), choice='g')]}]}
    out.append(('choice-group-in-two-runs', d6, [(0, ['obj', 0, [['none'], ['text', 'x'], ['int', 3]]])]))
    # known finding: a named simple type with an exclusive bound, customised a second time
    d7 = {'tns': 'urn:tns', 'simples': [{'ns': 'urn:s', 'name': 'S0', 'leaf': {'base': 'integer', 'facets': {'lt': ['int', 129]}}}],
          'classes': [{'ns': 'urn:t', 'name': 'K0', 'parent': None, 'fields': [
              fld('n', ['leaf', {'base': 'integer', 'facets': {'lt': ['int', 129], 'ge': ['int', 100]}, 'named': 0,
                                 'own': {'ge': ['int', 100]}, 'plain': False}])]}]}
    out.append(('inherited-exclusive-bound', d7, [(0, ['obj', 0, [['int', 128]]])]))
    # known finding: a bool (an int in Python) held by an Integer / Decimal / Double member
    d8 = {'tns': 'urn:tns', 'classes': [{'ns': 'urn:t', 'name': 'K0', 'parent': None,
                                        'fields': [fld('i', leaf('integer')), fld('c', leaf('decimal')), fld('f', leaf('double'))]}]}
    out.append(('bool-as-number', d8, [(0, ['obj', 0, [['as', 'bool', ['int', 1]], ['none'], ['none']]]),
                                       (0, ['obj', 0, [['none'], ['as', 'bool', ['dec', '0']], ['none']]]),
                                       (0, ['obj', 0, [['none'], ['none'], ['as', 'bool', ['dbl', '1.0']]]])]))
    return out


def oracle_corpus(check, tier):
    for tag, desc, vals in corpus():
        for proto in ('xml', 'soap11'):
            W = World(check.rng, desc, proto)
            if W.compile_error:
                check.fail('C06|compile|' + tag, 'the schema Spyne generates does not compile: ' + W.compile_error,
                           {'kind': 'compile', 'proto': proto, 'universe': desc})
                continue
            for cid, v in vals:
                if tag == 'choice-group-in-two-runs':
                    oracle_emitted_tagged(check, W, cid, v, 'C06|choice|group-in-two-runs|emitted')
                elif tag == 'bool-as-number':
                    oracle_emitted_tagged(check, W, cid, v, 'C06|native|bool-as-number|emitted')
                else:
                    oracle_emitted(check, W, 0, cid, v, tag if tag not in ('nil-required-attribute', 'decimal-exponent-value') else '')
            if tag == 'empty-string':
                from lxml import etree
                x = etree.Element('{urn:tns}x')
                etree.SubElement(x, '{urn:t}m')
                m, body = wrap(proto, desc['tns'], 'm0', x)
                oracle_verdicts(check, W, 0, 0, body, ['elem:string:facet'], 'corpus')


def facet_corpus():
    """one class with one member per (leaf class, single facet): the boundary of every facet is
    probed on every run, whatever the seed"""
    out = []
    I, T, Dc = (lambda z: ['int', z]), (lambda t: ['text', t]), (lambda d: ['dec', d])
    singles = [
        ('integer', {'ge': I(3)}), ('integer', {'gt': I(3)}), ('integer', {'le': I(9)}), ('integer', {'lt': I(9)}),
        ('integer', {'values': [I(2), I(5)]}), ('byte', {}), ('unsignedShort', {'le': I(300)}), ('long', {'ge': I(-5)}),
        ('nonNegativeInteger', {'lt': I(4)}),
        ('string', {'min_len': 2}), ('string', {'max_len': 3}), ('string', {'min_len': 2, 'max_len': 2}),
        ('string', {'pattern': '[a-z]+'}), ('string', {'values': [T('a'), T('bc')]}), ('anyURI', {'max_len': 5}),
        ('decimal', {'ge': Dc('0.5')}), ('decimal', {'lt': Dc('1E+2')}), ('decimal', {'values': [Dc('1.50'), Dc('2E+1')]}),
        ('double', {'gt': ['dbl', '0.5']}), ('float', {'le': ['dbl', '2.5']}),
        ('date', {'ge': ['date', '2020-02-28']}), ('time', {'lt': ['time', '12:00:00']}),
        ('dateTime', {'le': ['dt', '2020-02-28T12:00:00+00:00']}),
    ]
    singles.append(('uuid', {}))
    # float bounds / enumerations that do not survive six decimals
    singles += [('double', {'ge': ['dbl', '2.5e-06']}), ('double', {'lt': ['dbl', '0.1234567']}),
                ('double', {'gt': ['dbl', '1.25e-07'], 'le': ['dbl', '3.0000004']}),
                ('double', {'values': [['dbl', '0.1234567'], ['dbl', '1.25e-07'], ['dbl', '123456.7890123']]})]
    for i, (base, fa) in enumerate(singles):
        leaf = {'base': base, 'facets': fa}
        f = {'name': 'v', 'ty': ['leaf', leaf], 'min': 0, 'max': 3, 'nillable': False, 'kind': 'elem', 'choice': None, 'default': None}
        out.append((leaf, {'tns': 'urn:tns', 'classes': [{'ns': 'urn:t', 'name': 'K0', 'parent': None, 'fields': [f]}]}))
    # two-step customisations: a named simple type of another namespace (first step: facets), and a
    # member that customises it again (second step: more facets, or only min_occurs / nillable / default)
    chains = [
        ('string', {'min_len': 2, 'max_len': 4, 'pattern': '[A-Z][a-z]*'}, {}, None),
        ('string', {'min_len': 2, 'max_len': 4, 'pattern': '[A-Z][a-z]*'}, {}, T('Abc')),
        ('string', {'max_len': 10}, {'max_len': 4}, None),
        ('string', {'pattern': '[a-z]+'}, {'min_len': 2}, None),
        ('string', {'values': [T('a'), T('bc')]}, {}, None),
        ('anyURI', {'max_len': 5}, {}, None),
        ('integer', {'ge': I(3), 'le': I(9)}, {}, I(5)),
        ('integer', {'ge': I(3)}, {'le': I(9)}, None),
        ('unsignedByte', {'le': I(200)}, {'ge': I(100)}, None),
        ('long', {'gt': I(-5)}, {}, None),
        ('decimal', {'gt': Dc('0.5')}, {}, None),
        ('decimal', {'ge': Dc('0.5')}, {'le': Dc('1E+2')}, None),
        ('decimal', {'total_digits': 4, 'fraction_digits': 2}, {}, None),
        ('double', {'ge': ['dbl', '0.5']}, {}, None),
        ('date', {'ge': ['date', '2020-02-28']}, {}, None),
    ]
    for base, fa, own, dflt in chains:
        leaf = {'base': base, 'facets': dict(fa, **own), 'named': 0, 'own': own, 'plain': False}
        f = {'name': 'v', 'ty': ['leaf', leaf], 'min': 0, 'max': 1 if dflt is not None else 3, 'nillable': dflt is not None,
             'kind': 'elem', 'choice': None, 'default': dflt}
        out.append((leaf, {'tns': 'urn:tns', 'simples': [{'ns': 'urn:s', 'name': 'S0', 'leaf': {'base': base, 'facets': fa}}],
                           'classes': [{'ns': 'urn:t', 'name': 'K0', 'parent': None, 'fields': [f]}]}))
    return out


def oracle_facets(check, tier):
    from lxml import etree
    rng = check.rng
    for leaf, desc in facet_corpus():
        W = World(rng, desc, 'xml')
        tag = 'facet|%s|%s' % (leaf['base'], ','.join(sorted(leaf['facets'])) or 'none')
        if 'named' in leaf:
            tag = 'chain|%s|%s+%s' % (leaf['base'], ','.join(sorted(desc['simples'][0]['leaf']['facets'])),
                                      ','.join(sorted(leaf['own'])) or 'none')
        if W.compile_error:
            check.fail('C06|compile|' + tag, 'the schema Spyne generates does not compile: ' + W.compile_error,
                       {'kind': 'compile', 'proto': 'xml', 'universe': desc})
            continue
        multi = G.is_multi(desc['classes'][0]['fields'][0])
        for want in (True, False):
            seen = set()
            for _ in range(12):
                v = G.gen_leaf_value(rng, leaf, want)
                if v is None or json.dumps(v) in seen:
                    continue
                seen.add(json.dumps(v))
                if want and not dec_exponent(v):
                    oracle_emitted(check, W, 0, 0, ['obj', 0, [['list', [v]] if multi else v]], tag)
                x = etree.Element('{urn:tns}x')
                etree.SubElement(x, '{urn:t}v').text = G.canon_text(leaf['base'], v)
                m, body = wrap('xml', desc['tns'], 'm0', x)
                notes = [] if want else ['elem:%s:facet' % leaf['base']]
                if not want and 'total_digits' in leaf['facets'] and G.leaf_conforms(
                        {'base': leaf['base'], 'facets': {k: z for k, z in leaf['facets'].items() if k not in ('total_digits', 'fraction_digits')}}, v):
                    notes = ['schema-only:digits']
                if not G.canon_text(leaf['base'], v) and desc['classes'][0]['fields'][0].get('default') is not None:
                    notes = ['schema-only:default']             # XSD reads an empty element as the default value
                oracle_verdicts(check, W, 0, 0, body, notes, tag)


def oracle_xns(check, tier):
    """(a) across namespaces: one universe per kind of reference from one namespace to another
    (simple base type, member type, complex base, array item, attribute type ...), the reference
    being the only one between the two namespaces; then the usual (b) and (c) on it"""
    rng = check.rng
    for rnd in range(1 if tier == 'quick' else 6):
        for i, kind in enumerate(G.XNS_KINDS):
            desc = G.gen_xns_universe(rng, kind)
            oracle_universe(check, i + rnd, tier, desc=desc, per_class=2 if tier == 'quick' else 5, where='sole-reference|' + kind)


def bytes_universe():
    def fld(name, base, mn=0, mx=1, nillable=True, kind='elem', arr=False):
        ty = ['leaf', {'base': base, 'facets': {}}]
        return {'name': name, 'ty': ['arr', ty] if arr else ty, 'min': mn, 'max': mx, 'nillable': nillable, 'kind': kind,
                'choice': None, 'default': None}
    fields = []
    for b, n in (('base64Binary', 'b'), ('hexBinary', 'h'), ('urlsafeBinary', 'u')):
        fields += [fld(n, b, 1, 1, False), fld(n + 'm', b, 0, 3), fld(n + 'a', b, arr=True), fld(n + 'x', b, kind='attr')]
    return {'tns': 'urn:tns', 'classes': [{'ns': 'urn:t', 'name': 'K0', 'parent': None, 'fields': fields}]}


def oracle_bytes(check, tier):
    """(b) for ByteArray values given as a sequence of chunks (non-final chunks whose length is not
    a multiple of 3, empty chunks), under the base64, hex and urlsafe encodings, as element, repeated
    element, array item and attribute, in requests and responses of the three protocols: the document
    is schema-valid and its texts denote the concatenation of the chunks"""
    rng = check.rng
    desc = bytes_universe()

    def chunks():
        for _ in range(50):
            v = G.gen_chunks(rng)
            if G.denoted_bytes(v):
                return v
        return ['chunks', ['6162', '63'], 'tuple']
    for proto in ('xml', 'soap11', 'soap12'):
        W = World(rng, desc, proto)
        if W.compile_error:
            check.fail('C06|compile|bytes-universe', 'the schema Spyne generates does not compile: ' + W.compile_error,
                       {'kind': 'compile', 'proto': proto, 'universe': desc})
            continue
        for _ in range(4 if tier == 'quick' else 25):
            vals = []
            for f in desc['classes'][0]['fields']:
                if f['ty'][0] == 'arr' or G.is_multi(f):
                    vals.append(['list', [chunks() for _ in range(rng.randint(1, 2))]])
                else:
                    vals.append(chunks())
            oracle_emitted(check, W, 0, 0, ['obj', 0, vals], 'chunked-bytes')


def warm_up(W):
    """use every class once, on every path: a request for each operation through the three
    applications, a request and a response written for an empty instance"""
    from lxml import etree
    for cid in W.desc.get('methods', range(len(W.classes))):
        m, body = wrap(W.proto, W.desc['tns'], 'm%d' % cid, etree.Element('{%s}x' % W.desc['tns']))
        for app in (W.app_s, W.app_n, W.app_l):
            if app is not None:
                try:
                    serve(app, body, ret=W.classes[cid]())
                except Exception:
                    pass
        try:
            make_client(W.app_s, 'm%d' % cid).request(W.classes[cid]())
        except Exception:
            pass
        W.classes[cid].get_flat_type_info(W.classes[cid])


def evolved_world(rng, desc0, steps, proto):
    """classes built for desc0 and used; then members appended / inserted / replaced; then fresh
    applications over the same classes.  Deterministic in (desc0, steps, proto)."""
    W0 = World(rng, desc0, proto)
    prepared = G.prepare_evolution(desc0, W0.classes, steps)
    warm_up(W0)
    G.commit_evolution(prepared)
    return World(rng, G.evolve_desc(desc0, steps), proto, classes=W0.classes, svc=W0.svc, base_desc=desc0, steps=steps)


def evolve_corpus():
    """a base class, a class derived from it and a class that holds both (as member, repeated
    member and Array item); one universe per member-editing primitive, applied to the base class"""
    def leaf(base, **fa):
        return ['leaf', {'base': base, 'facets': fa}]

    def fld(name, ty, mn=0, mx=1, nillable=True, kind='elem'):
        return {'name': name, 'ty': ty, 'min': mn, 'max': mx, 'nillable': nillable, 'kind': kind, 'choice': None, 'default': None}
    desc0 = {'tns': 'urn:tns', 'classes': [
        {'ns': 'urn:t', 'name': 'K0', 'parent': None, 'fields': [fld('a', leaf('string')), fld('n', leaf('integer', ge=['int', 0]), 1, 1, False)]},
        {'ns': 'urn:u', 'name': 'K1', 'parent': 0, 'fields': [fld('b', leaf('string', max_len=5))]},
        {'ns': 'urn:t', 'name': 'K2', 'parent': 1, 'fields': [fld('c', leaf('boolean'))]},
        {'ns': 'urn:t', 'name': 'K3', 'parent': None, 'fields': [fld('k', ['ref', 1], 1, 1, False), fld('ks', ['ref', 2], 0, 3),
                                                                 fld('ka', ['arr', ['ref', 1]])]}]}
    new = fld('e', leaf('string', min_len=1, max_len=3), 1, 1, False)
    att = fld('x', leaf('unsignedByte', le=['int', 9]), 1, 1, True, 'attr')
    rep = fld('a', leaf('string', min_len=2, pattern='[a-z]+'), 1, 1, False)
    return [('append', desc0, [{'op': 'append', 'cid': 0, 'index': 2, 'field': new}]),
            ('insert', desc0, [{'op': 'insert', 'cid': 0, 'index': 0, 'field': new}]),
            ('replace', desc0, [{'op': 'replace', 'cid': 0, 'index': 0, 'field': rep}]),
            ('append-attribute', desc0, [{'op': 'append', 'cid': 0, 'index': 2, 'field': att}]),
            ('append-middle', desc0, [{'op': 'append', 'cid': 1, 'index': 1, 'field': new}])]


def oracle_evolving(check, tier):
    """(a) (b) (c) on universes that change after they have been used: the schema, the writer and
    both validators of the fresh applications must all see the members the classes declare now"""
    rng = check.rng
    for i, (tag, desc0, steps) in enumerate(evolve_corpus()):
        W = evolved_world(rng, desc0, steps, ('xml', 'soap11', 'soap12')[i % 3])
        oracle_universe(check, i, tier, W=W, per_class=2 if tier == 'quick' else 6, where='evolved|' + tag)
    for ui in range(6 if tier == 'quick' else 45):
        for _ in range(20):
            desc0 = G.gen_universe(rng, n_classes=rng.randint(2, 4), namespaces=('urn:t', 'urn:u') if ui % 2 else ('urn:t',))
            if any(c['parent'] is not None for c in desc0['classes']):
                break
        steps = G.gen_evolution(rng, desc0, rng.randint(1, 2))
        try:
            W = evolved_world(rng, desc0, steps, ('xml', 'soap11', 'soap12')[ui % 3])
        except Exception as e:
            check.fail('C06|evolve-crash|%s' % type(e).__name__, 'Spyne raised %s while members were added to used classes: %s'
                       % (type(e).__name__, str(e)[:200]), {'kind': 'compile', 'proto': 'xml', 'universe': desc0, 'evolve': steps})
            continue
        oracle_universe(check, ui, tier, W=W, per_class=3 if tier == 'quick' else 6, where='evolved')


def natives_universe():
    """Date / Time / DateTime / Decimal / Double / Boolean / string members as element, repeated
    element, Array item and attribute"""
    def fld(name, base, mn=0, mx=1, nillable=True, kind='elem', arr=False):
        ty = ['leaf', {'base': base, 'facets': {}}]
        return {'name': name, 'ty': ['arr', ty] if arr else ty, 'min': mn, 'max': mx, 'nillable': nillable, 'kind': kind,
                'choice': None, 'default': None}
    fields = []
    for b, n in (('date', 'd'), ('time', 't'), ('dateTime', 'dt'), ('decimal', 'c'), ('double', 'f'), ('boolean', 'b'), ('string', 's')):
        fields += [fld(n, b, 1, 1, False), fld(n + 'm', b, 0, 3), fld(n + 'a', b, arr=True), fld(n + 'x', b, kind='attr')]
    return {'tns': 'urn:tns', 'classes': [{'ns': 'urn:t', 'name': 'K0', 'parent': None, 'fields': fields}]}


def oracle_natives(check, tier):
    """(b) per protocol (the SOAP protocols replace some serializers) for conformant values handed
    over as every compatible Python type: datetime.datetime for a Date (naive and aware), int and
    float for a Decimal, int for a Double and a Boolean, a str subclass for a string; Time and
    DateTime values with and without microseconds / tzinfo"""
    rng = check.rng
    desc = natives_universe()
    kinds = {'date': ['datetime', 'datetime-utc', None], 'decimal': ['int', 'float', None], 'double': ['int', None],
             'boolean': ['int', None], 'string': ['strsub', None]}

    def value(leaf, i):
        for _ in range(80):
            v = G.gen_leaf_value(rng, leaf, True)
            ks = kinds.get(leaf['base'], [None])
            k = ks[i % len(ks)]
            if v is None or k is None:
                return v
            G.VARIANTS[0] = True
            w = G.variant_of(rng, leaf, v, 1.1)
            if w[0] == 'as' and w[1] == k:
                return w
        return v
    for proto in ('xml', 'soap11', 'soap12'):
        W = World(rng, desc, proto)
        if W.compile_error:
            check.fail('C06|compile|natives-universe', 'the schema Spyne generates does not compile: ' + W.compile_error,
                       {'kind': 'compile', 'proto': proto, 'universe': desc})
            continue
        for i in range(4 if tier == 'quick' else 24):
            vals = []
            for j, f in enumerate(desc['classes'][0]['fields']):
                t = f['ty']
                if t[0] == 'arr' or G.is_multi(f):
                    leaf = t[1][1] if t[0] == 'arr' else t[1]
                    vals.append(['list', [x for x in (value(leaf, i + j + n) for n in range(rng.randint(1, 2))) if x is not None]])
                else:
                    x = value(t[1], i + j)
                    vals.append(x if x is not None else ['none'])
            if not dec_exponent(['obj', 0, vals]):
                oracle_emitted(check, W, 0, 0, ['obj', 0, vals], 'native-types')


def none_universe():
    """every placement in which None is a conformant value: single, repeated (bounded and
    unbounded) and Array members of leaf and class type, optional or mandatory-and-nillable"""
    def fld(name, ty, mn, mx, nillable):
        return {'name': name, 'ty': ty, 'min': mn, 'max': mx, 'nillable': nillable, 'kind': 'elem', 'choice': None, 'default': None}
    leaf = ['leaf', {'base': 'integer', 'facets': {'ge': ['int', 0]}}]
    text = ['leaf', {'base': 'string', 'facets': {}}]
    fields, i = [], 0
    for ty in (leaf, text, ['ref', 0], ['arr', leaf], ['arr', ['ref', 0]]):
        for mx in (1, 3, None):
            if ty[0] == 'arr' and mx != 1:
                continue
            for mn, nillable in ((0, True), (0, False), (1, True)):
                fields.append(fld('n%d' % i, ty, mn, mx, nillable))
                i += 1
    return {'tns': 'urn:tns', 'classes': [
        {'ns': 'urn:t', 'name': 'K0', 'parent': None, 'fields': [fld('a', text, 0, 1, True)]},
        {'ns': 'urn:t', 'name': 'K1', 'parent': None, 'fields': fields}]}


def oracle_none(check, tier):
    """(b) for None wherever it is a conformant value (and for the shortest lists), written by the
    three protocols: a mandatory nillable member holding None is one xsi:nil element, whether it
    may repeat or not"""
    rng = check.rng
    desc = none_universe()
    fields = desc['classes'][1]['fields']
    for proto in ('xml', 'soap11', 'soap12'):
        W = World(rng, desc, proto)
        if W.compile_error:
            check.fail('C06|compile|none-universe', 'the schema Spyne generates does not compile: ' + W.compile_error,
                       {'kind': 'compile', 'proto': proto, 'universe': desc})
            continue
        oracle_emitted(check, W, 0, 1, ['obj', 1, [['none'] for _ in fields]], 'none-placements')
        for _ in range(2 if tier == 'quick' else 10):
            vals = []
            for f in fields:
                r = rng.random()
                if r < 0.5:
                    vals.append(['none'])
                elif G.is_multi(f) or f['ty'][0] == 'arr':
                    item = f['ty'][1] if f['ty'][0] == 'arr' else f['ty']
                    one = ['obj', 0, [['text', 'x']]] if item[0] == 'ref' else (['int', 3] if item[1]['base'] == 'integer' else ['text', 'y'])
                    n = rng.randint(max(f['min'], 0) if f['ty'][0] != 'arr' else 0, 2)
                    vals.append(['list', [one] * n])
                else:
                    vals.append(['obj', 0, [['none']]] if f['ty'][0] == 'ref' else (['int', 3] if f['ty'][1]['base'] == 'integer' else ['text', 'y']))
            oracle_emitted(check, W, 0, 1, ['obj', 1, vals], 'none-placements')


def oracle_emitted_tagged(check, W, cid, v, key):
    rp = dict(W.urp(), kind='emitted', proto=W.proto, cid=cid, value=v, which='request')
    req = W.request(cid, v)
    ok, msg = W.lxml_ok(payload(W.proto, req))
    if not ok:
        check.fail(key, 'the request Spyne writes is rejected by the schema it publishes (%s): %s -> %s'
                   % (W.proto, req.decode('utf8', 'replace')[:300], msg), rp)


def run(check):
    tier = check.tier
    check.rule = ('generated type universes (1-5 classes over 1-2 namespaces plus the message classes of one method per class; '
                  'inheritance, XmlAttribute members, Array classes, max_occurs > 1, choice groups, defaults; leaf classes drawn from '
                  '22 primitive classes with gt/ge/lt/le, values, min_len/max_len, pattern, total/fraction_digits customisations) '
                  'rendered as real Spyne classes and as a Gallina universe; per universe: conformant values written by the real '
                  'client and server paths, and documents in declared order whose member counts, nil flags and leaf values are drawn '
                  'on and around every declared boundary; a fixed corpus (witnesses of repaired defects and known findings, one universe '
                  'per (class, facet), a stream of malformed literals as element content and attribute values). Direct oracle only (no '
                  'Gallina rendering): named simple types (type_name / __namespace__) and members that customise them a second time '
                  '(with narrower facets, or with nothing but min_occurs / nillable / default), one universe per (class, first-step facets, '
                  'second-step facets) on every run; one universe per kind of reference from one namespace to another (simple base type, '
                  'named simple type with and without a second step, member class, repeated member class, complex base, Array of a class, '
                  'Array of a named simple type with and without a second step, attribute type x3), the reference being the only one '
                  'between the two namespaces and the referenced namespace reachable through the referring one only in 60% of them; '
                  'every schema document must import each namespace it refers to (checked on the documents, besides lxml compiling them); '
                  'ByteArray values given as tuples / lists of chunks (non-final chunk lengths not divisible by 3, empty chunks) under '
                  'the base64, hex and urlsafe encodings, as element, repeated element, Array item and attribute, whose written text '
                  'must strictly decode to the concatenation of the chunks; near misses of the Uuid pattern; Double bounds / '
                  'enumerations / defaults that need more than six decimals or lie below 1e-6, with values between a bound and its '
                  'six-decimal rounding; conformant leaf values handed over as other Python types that are instances of (or commonly '
                  'passed for) the native type (datetime.datetime, naive and aware, for a Date; int and float for a Decimal; int for a '
                  'Double and a Boolean; a str subclass for a string), in random universes and in one fixed universe of Date / Time / '
                  'DateTime / Decimal / Double / Boolean / string members (element, repeated element, Array item, attribute) written '
                  'by XmlDocument, Soap11 and Soap12 on every run; EVOLVING universes: the classes are built and used once on every '
                  'path (which memoizes their flattened member tables), then members are appended to / inserted into / replaced in '
                  'classes (mostly classes others derive from; mandatory, restricted members; nothing but the append_field / '
                  'insert_field / _replace_field calls in between), then fresh applications over the same classes go through (a), (b) '
                  'and (c) against what the classes declare now -- five fixed universes and six random ones per quick run; None in every '
                  'placement where it is a conformant value (single, repeated and Array members of leaf and class type, optional or '
                  'mandatory and nillable) in a fixed universe under the three protocols, and None instead of a list for mandatory '
                  'nillable repeated members in the random universes. A case is distinct by '
                  '(operation, protocol, document or value)')
    check.trusted = list(lib.COMMON_TRUSTED) + [
        'coq/C06/Xsd.v: the XSD validity relation for the published subset, written from XML Schema 1.0 parts 1 and 2 '
        '(validated on every run against libxml2 through lxml on ~700 (schema, document) pairs, not verified)',
        'harness/c06.py parse_schema: the fail-closed reader of the real schema documents into the Gallina syntax tree',
        'the (namespace, name) of published simple types, Array classes and their item elements, and max_str_len, are read '
        'from the real classes (ComplexModelMeta naming is observed, not modelled); the schema correspondence compares them '
        'with what XmlSchema writes',
        'harness/c06gen.py parse_re: the regular-expression fragment on which Python re and XSD patterns denote the same language',
        'harness/c06.py xs_key / spyne_key: the reference lexical mappings and the observed Spyne readers of the delegated leaf '
        'classes (Double, Float, Date, Time, DateTime, Duration, ByteArray, Uuid), tabulated per run for the section variables olex / ord',
        'lxml.etree.XMLSchema (libxml2) as the judge of "compiles" and of validity in the direct oracle',
        'harness/c06.py strict_decode / import_gaps: the strict RFC 4648 / hex readers the written ByteArray texts are compared '
        'with, and the reading of XSD part 1 section 4.2.3 (a QName reference needs an xs:import of its namespace in the same document)',
    ]
    check.assumptions = [
        'C06_emitted_valid_partial / C06_verdicts_agree assume resolves_b (schema_of U tns) U = true: that the published schema '
        'defines every name it refers to is a decidable check evaluated for every generated universe (correspondence hyp_universe), '
        'proved sound (C06_closure_check_sound), not proved for all universes',
        'patterns_known: the pattern table maps each pattern text of the universe to the regular expression the harness parsed from it',
        'constants_ok / opq_ok (delegated leaf classes only): the text Spyne writes for a Double, Float, Date, Time, DateTime, '
        'Duration, ByteArray or Uuid value is an XSD literal of the same value, is read back by Spyne as that value, and has no '
        'blanks at its ends (C08 is about these codecs); integers, strings, booleans and decimal.Decimal need no hypothesis',
        'wire_ok: a Decimal on the wire is one str() writes without exponent (exponent <= 0, adjusted exponent >= -6); outside this '
        'region the statement is refuted (C06_decimal_wire_refuted) and listed as known finding C06|decimal|exponent-notation',
        'vconf / ddoc exclude None standing for a class with a required XmlAttribute (C06_nil_required_refuted, known finding '
        'C06|nil|required-attribute) and universes whose choice groups are declared in more than one run (wf_univ; known finding '
        'C06|choice|group-in-two-runs)',
        'verdict agreement is proved for leaf contents in la_canon (the decimal text of any integer without total_digits within '
        'max_str_len, any text of a string member, the xs:boolean literals); for Decimal and the delegated classes only the '
        'structural half is proved (C06_verdicts_agree_structure) and the leaf verdicts are compared by the oracle',
        'constraints only one validator implements are outside the agreement: total_digits / fraction_digits / number patterns / '
        'default on an empty element / choice exclusivity / emptiness of a nilled element (schema only), max_str_len (soft only); '
        'lexical leniency of the Python readers (C05 findings) is not C06\'s subject: generated documents carry canonical literals',
        'polymorphic output and xsi:type, sub_name / sub_ns, XmlData, AnyXml / AnyDict / File, headers and faults are outside the '
        'modelled universe; "the schema compiles" is observed with lxml, not proved',
        'C06_soap_writers_iso_safe / C06_member_edits_reach_subclasses (Props/C06_src.v) tie two assumptions of the model to source '
        'text outside the schema emitter: one writer for XmlDocument / Soap11 / Soap12 (the serializers the SOAP protocols replace by '
        'isoformat() are those of Time and DateTime only), and a member table read as the classes declare it when a document is '
        'handled (editing a class forgets the memoized flattened tables of every class); the behaviour itself is observed by the '
        'direct oracle (native-type variants per protocol, evolving universes), not modelled',
        'Python values that are not instances of the documented native type are not generated (a datetime for a Time, a Decimal for '
        'a Double, a date for a DateTime); a bool held by a numeric member is the known finding C06|native|bool-as-number',
        'named simple types, second customisation steps on them, and the hex / urlsafe encodings of ByteArray are covered by the '
        'direct oracle only: the Gallina universe publishes every restricted leaf as a one-step restriction of its primitive. A second '
        'step never widens the first, never changes its pattern, and carries no facets when the first has gt / lt (known finding '
        'C06|compile|inherited-exclusive-bound)',
    ]
    check.regen(['numtypes', 'xsdemit', 'xsdstate', 'xmlwire'])
    check.check_sources()
    if THEOREMS:
        check.prove('Props.C06', THEOREMS)
        check.prove('Props.C06_src', SRC_THEOREMS)
    else:
        ok, log = lib.build(['C06/Check.vo'])
        if not ok:
            check.mismatch('build', log[-1500:])
    oracle_corpus(check, tier)
    oracle_facets(check, tier)
    oracle_xns(check, tier)
    oracle_bytes(check, tier)
    oracle_natives(check, tier)
    oracle_none(check, tier)
    oracle_evolving(check, tier)
    corr_leaf_stream(check, tier)
    corr_decimal_text(check, tier)
    for ui in range(8 if tier == 'quick' else 60):
        corr_universe(check, ui, tier)
    for ui in range(12 if tier == 'quick' else 90):
        oracle_universe(check, ui, tier)
    lib.flush_correspondences(check)
    return check.finish()


def replay(check, path):
    """re-run one recorded case against the implementation; exit 1 iff the violation reproduces"""
    from lxml import etree
    r = json.load(open(path))
    rp = r.get('replay', r)
    print('key :', r.get('key'))
    print('what:', (r.get('what') or '')[:600])
    if 'broken' in rp:
        print(json.dumps(rp, indent=1)[:4000])
        return 1
    desc = rp['universe']
    if isinstance(desc, str) and desc.startswith('corpus:'):
        desc = [d for t, d, _ in corpus() if t == desc.split(':', 1)[1]][0]
    if rp.get('evolve') is not None:
        print('evolution:', json.dumps(rp['evolve'])[:800])
        W = evolved_world(check.rng, desc, rp['evolve'], rp.get('proto', 'xml'))
        desc = W.desc
    else:
        W = World(check.rng, desc, rp.get('proto', 'xml'))
    if rp['kind'] == 'compile' or W.compile_error:
        print('schema compiles:', W.compile_error is None, W.compile_error or '')
        return 1 if W.compile_error else 0
    bad = 0
    if rp['kind'] == 'emitted':
        v, cid = rp['value'], rp['cid']
        req = W.request(cid, v)
        ok, msg = W.lxml_ok(payload(W.proto, req))
        print('request :', req.decode('utf8', 'replace'))
        print('  lxml valid:', ok, msg or '')
        lv, sv = verdict(W.app_l, req), verdict(W.app_s, req)
        print('  verdicts: lxml', lv, 'soft', sv)
        bad += (not ok) + (accepted(lv) != accepted(sv))
        gap = denotation_gap(desc, cid, v, payload(W.proto, req))
        if gap:
            print('  no text of the request is the %s encoding of %r' % gap)
            bad += 1
        ctx, calls, out = serve(W.app_n, req, ret=G.to_native(desc, W.classes, v))
        if calls:
            ok, msg = W.lxml_ok(payload(W.proto, out))
            print('response:', out.decode('utf8', 'replace'))
            print('  lxml valid:', ok, msg or '')
            bad += (not ok)
            gap = denotation_gap(desc, cid, v, payload(W.proto, out))
            if gap:
                print('  no text of the response is the %s encoding of %r' % gap)
                bad += 1
    elif rp['kind'] == 'verdict':
        body = rp['doc'].encode('utf8')
        lv, sv = verdict(W.app_l, body), verdict(W.app_s, body)
        print('document:', rp['doc'])
        print('  verdicts: lxml', lv, 'soft', sv, 'notes', rp.get('notes'))
        bad += (accepted(lv) != accepted(sv)) or lv[0] == 'crash' or sv[0] == 'crash'
    print('reproduces' if bad else 'does not reproduce')
    return 1 if bad else 0
