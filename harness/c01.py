"""C01 — XML/SOAP wire fidelity: sent values reach the function, results reach the client.

Parts (DESIGN.md section 6, C01):
  * proof obligations: coq/Props/C01.v (shared model Wire/Xml.v), coq/Props/C01_x.v (C01/XmlX.v: leaf
    types, XmlData) and coq/Props/C01_call.v (C01/Call.v: the call level);
  * correspondences (model vs implementation, evaluated by vm_compute):
      xml_enc / xml_dec     Wire/Xml.v      get_object_as_xml / XmlDocument.from_element        (c01_wire.py)
      xmlx_enc / xmlx_dec   C01/XmlX.v      the same on the richer universes, plus mutated documents
      call_server           C01/Call.v      full requests through ServerBase for {XmlDocument, Soap11, Soap12}
                                            x validator {None, soft, lxml}: call log + response tree or fault
      call_client           C01/Call.v      the request the Spyne client writes / the value it reads back
  * direct oracle (implementation only): generated services through WsgiApplication; requests written by an
    independent schema-directed encoder, by zeep (from the generated WSDL, in-process transport) and by the
    Spyne client; the arguments captured inside the user function must equal the sent ones, the response
    must decode (independent decoder, zeep, Spyne client) to the returned value; equality per type."""
import os, sys, json, copy
import lib
import c01x as X
import c01_wire
from lib import gz, gtext, glist, gbool, gopt

THEOREMS = ['C01_xml_rt', 'C01_xml_rt_spyne']
FUEL = 40
XSI = X.XSI

EXN = {'ValueError': 'ValueError', 'TypeError': 'TypeError', 'AttributeError': 'AttributeError', 'KeyError': 'KeyError',
       'IndexError': 'IndexError', 'AssertionError': 'AssertionError', 'OverflowError': 'OverflowError'}


def observe(fn, *args):
    """('ok', value) | ('vfault',) | ('crash', CoqExn, PythonName)"""
    from spyne.model.fault import Fault
    try:
        return ('ok', fn(*args))
    except Fault as e:
        if e.faultcode == 'Client.ValidationError':
            return ('vfault',)
        return ('crash', 'OtherExn', 'Fault:' + str(e.faultcode))
    except Exception as e:
        n = type(e).__name__
        return ('crash', EXN.get(n, 'OtherExn'), n)


def gout(o, f):
    if o[0] == 'ok':
        return '(Ok %s)' % f(o[1])
    if o[0] == 'vfault':
        return 'VFault'
    return '(Crash %s)' % o[1]


def reparse(elt):
    from lxml import etree
    return etree.fromstring(etree.tostring(elt))


# ------------------------------------------------------------------ document mutations (malformed stream)
TEXTS = [None, '', 'abc', ' 7 ', '+5', 'true', '1', '0', 'TRUE', '1.5', '-0', '007', '2020-02-30', '2020-01-01', '12:00:00', '24:00:00',
         '2020-01-01T00:00:00Z', '2020-01-01T10:00:00.5+05:30', 'P1D', 'PT0.5S', 'P', '-P1DT', 'YQ==', 'YQ', '*', '1e3', '99999999999999999999999999',
         '-129', '256', '65536']


def mutate(rng, root, leaf_only=False):
    """one structural or lexical mutation of a parsed document; returns a description or None"""
    from lxml import etree
    elts = [e for e in root.iter() if isinstance(e.tag, str)]
    e = rng.choice(elts)
    kids = [k for k in e if isinstance(k.tag, str)]
    r = rng.random()
    if r < 0.12 and kids:
        e.remove(rng.choice(kids))
        return 'drop child'
    if r < 0.24 and kids:
        k = rng.choice(kids)
        e.insert(rng.randrange(len(e) + 1), copy.deepcopy(k))
        return 'duplicate child'
    if r < 0.32 and len(kids) >= 2:
        a, b = rng.sample(kids, 2)
        a.tag = b.tag
        return 'rename child to sibling'
    if r < 0.40:
        q = etree.QName(e)
        etree.SubElement(e, '{%s}%s' % (q.namespace, 'zz_unknown') if q.namespace else 'zz_unknown').text = 'x'
        return 'unknown child'
    if r < 0.52 and e is not root:
        e.set('{%s}nil' % XSI, rng.choice(['true', '1', 'false', '0', 'TRUE', '']))
        return 'xsi:nil'
    if r < 0.58 and kids:
        rng.shuffle(kids)
        for k in kids:
            e.remove(k)
        for k in kids:
            e.append(k)
        return 'shuffle children'
    if r < 0.64 and e.attrib:
        del e.attrib[rng.choice(sorted(e.attrib))]
        return 'drop attribute'
    if r < 0.72 and e.attrib:
        k = rng.choice(sorted(e.attrib))
        if not k.startswith('{'):
            e.set(k, rng.choice([t for t in TEXTS if t is not None]))
            return 'change attribute'
    if r < 0.78:
        e.set(rng.choice(['zz', 'id', 'name', 'value', 'f0_0', 'f1_0']), rng.choice(['1', 'x', 'true', '']))
        return 'add attribute'
    if r < 0.94 and not kids:
        e.text = rng.choice(TEXTS)
        return 'change text'
    if len(root):   # only under the root, a complex element: array_from_element reads a comment as an item
        root.insert(rng.randrange(len(root) + 1), etree.Comment('c'))
        return 'comment'
    return None


# ------------------------------------------------------------------ correspondence: XmlX on bare objects
IMPORTS_X = 'From SpyneV Require Import C01.Univ C01.XmlX C01.LeafX C01.Call.\n'


def corr_objects_x(check, tier):
    """get_object_as_xml / XmlDocument.from_element against XmlX.enc / dec (no Application: arrays of
    primitives have no namespace)"""
    from lxml import etree
    from spyne.util.xml import get_object_as_xml
    from spyne.protocol.xml import XmlDocument
    rng = check.rng
    n_univ = 12 if tier == 'quick' else 100
    per_class = 4 if tier == 'quick' else 10
    prots = {False: XmlDocument(), True: XmlDocument(validator='soft')}
    for ui in range(n_univ):
        desc = X.gen_universe(rng, n_classes=rng.randint(2, 6), namespaces=('urn:t', 'urn:u') if ui % 2 else ('urn:t',))
        classes = X.build_classes(desc)
        imports = IMPORTS_X + 'Definition UU : universe := %s.\n' % X.g_universe(desc, classes)
        enc_cases, dec_cases = [], []
        for cid, cls in enumerate(classes):
            for _ in range(per_class):
                v = X.gen_value(rng, desc, ('ref', cid), depth=rng.randint(1, 4), nullable=False)
                o = X.to_native(desc, classes, v)
                r = observe(get_object_as_xml, o, cls)
                if r[0] != 'ok':
                    obj_fail(check, desc, cid, v, 'encode', 'get_object_as_xml raised %r' % (r,))
                    continue
                tree = reparse(r[1])
                enc_cases.append(('(%d%%nat, %s, %s)' % (cid, X.g_val(v), X.g_xml(tree)),
                                  'universe %d class %d value %r' % (ui, cid, v)))
                check.count(('xenc', json.dumps(desc, sort_keys=True, default=repr), cid, repr(v)))
                docs = [(tree, 'as written')]
                for _ in range(3 if tier == 'quick' else 5):
                    t2 = copy.deepcopy(tree)
                    what = mutate(rng, t2)
                    if what:
                        docs.append((reparse(t2), what))
                for doc, what in docs:
                    for soft in (False, True):
                        d = observe(prots[soft].from_element, None, cls, doc)
                        if d[0] == 'ok':
                            nv = X.from_native(desc, classes, ('ref', cid), d[1])
                            if not X.in_universe(nv):
                                check.mismatch('xmlx_dec', 'decoded value outside the universe: %r from %s' % (
                                    nv, etree.tostring(doc).decode()[:300]))
                                continue
                            d = ('ok', nv)
                        dec_cases.append(('(%s, %d%%nat, %s, %s)' % (gbool(soft), cid, X.g_xml(doc), gout(d, X.g_val)),
                                          'universe %d class %d soft=%s %s: %s -> %r' % (
                                              ui, cid, soft, what, etree.tostring(doc).decode()[:300], d)))
                        check.count(('xdec', soft, etree.tostring(doc)))
                        if what == 'as written':          # direct oracle: the property itself on this document
                            want = X.norm_value(desc, ('ref', cid), v)
                            if not (d[0] == 'ok' and X.eq_value(d[1], want)):
                                obj_fail(check, desc, cid, v, 'soft' if soft else 'none',
                                         'XmlDocument(validator=%s) read %s back as %r, sent %r' % (
                                             'soft' if soft else None, etree.tostring(doc).decode()[:200], d, want))
        lib.correspond(check, 'xmlx_enc', imports, 'nat * val * xnode',
                       '(fun c => let \'(cid, v, t) := c in match enc spyne_leaf (cfg false None) UU %d (TRef cid) (cls_ns UU cid) '
                       '(cls_name UU cid) v with Ok e => xnode_eqb (wire e) t | _ => false end)' % FUEL, enc_cases,
                       show='(fun c : nat * val * xnode => let \'(cid, v, t) := c in enc spyne_leaf (cfg false None) UU %d (TRef cid) '
                            '(cls_ns UU cid) (cls_name UU cid) v)' % FUEL)
        lib.correspond(check, 'xmlx_dec', imports, 'bool * nat * xnode * out val',
                       '(fun c => let \'(soft, cid, t, o) := c in out_eqb val_eqb (from_element spyne_leaf (cfg soft None) UU %d '
                       '(TRef cid) t) o)' % FUEL, dec_cases,
                       show='(fun c : bool * nat * xnode * out val => let \'(soft, cid, t, o) := c in from_element spyne_leaf '
                            '(cfg soft None) UU %d (TRef cid) t)' % FUEL)
        if ui == 0 and enc_cases:
            check.sample({'universe': X.jsonable(desc), 'case': enc_cases[0][1][:400]})


def shape_of(desc, ty, v):
    """which kinds of member / value a failing input exercises (for specific finding keys)"""
    shape = set()

    def walk(ty, x):
        if x[0] == 'obj':
            for f, y in zip(X.flat_fields(desc, x[1]), x[2]):
                tag = f['kind'] + ('*' if X.is_multi(f) else '') + ('!' if f['min'] > 0 else '')
                if y[0] == 'none':
                    shape.add(tag + ':none')
                elif y[0] == 'list' and not y[1]:
                    shape.add(tag + ':empty')
                elif y[0] in ('text', 'bytes') and len(y[1]) == 0:
                    shape.add(tag + ':empty' + y[0])
                if f['kind'] == 'elem' and X.is_multi(f) and y[0] == 'list':
                    for z in y[1]:
                        walk(f['ty'], z)
                else:
                    walk(f['ty'], y)
        elif x[0] == 'list' and ty[0] == 'arr':
            for z in x[1]:
                walk(ty[1], z)
        elif x[0] not in ('none', 'list'):
            shape.add('leaf:' + x[0])
    walk(ty, v)
    return ','.join(sorted(shape))[:140]


def obj_fail(check, desc, cid, v, stage, what):
    check.fail('C01|object|%s|%s' % (stage, shape_of(desc, ('ref', cid), v)), what,
               {'kind': 'object', 'universe': X.jsonable(desc), 'cid': cid, 'value': X.jsonable(v), 'stage': stage})


def run(check):
    tier = check.tier
    check.rule = ('generated type universes (2-6 classes, inheritance, XmlAttribute / XmlData members, wrapped arrays, '
                  'max_occurs>1 members, customised primitives, shared member names) with schema-conformant values; '
                  'a case is distinct by (operation, universe, class or method, value or document, configuration)')
    check.trusted = list(lib.COMMON_TRUSTED)
    check.assumptions = []
    check.regen(['numtypes'])
    check.check_sources()
    check.prove('Props.C01', THEOREMS)
    c01_wire.corr_objects(check, tier)
    corr_objects_x(check, tier)
    lib.flush_correspondences(check)
    return check.finish()


def replay(check, path):
    r = json.load(open(path))
    print(json.dumps(r, indent=1)[:3000])
    return 0
