"""C01 — XML/SOAP wire fidelity: sent values reach the function, results reach the client.

Parts (DESIGN.md section 6, C01):
  * proof obligations: coq/Props/C01.v (shared model Wire/Xml.v), coq/Props/C01_x.v (C01/XmlX.v: leaf
    types, XmlData) and coq/Props/C01_call.v (C01/Call.v: the call level);
  * correspondences (model vs implementation, evaluated by vm_compute):
      xml_enc / xml_dec     Wire/Xml.v      get_object_as_xml / XmlDocument.from_element        (c01_wire.py)
      xmlx_enc / xmlx_dec   C01/XmlX.v      the same on the richer universes, plus mutated documents
      call_server           C01/Call.v      full requests through ServerBase for {XmlDocument, Soap11, Soap12}
                                            x validator {None, soft, lxml}: call log + response tree or fault
      call_client           C01/Call.v      the request the Spyne client writes / the value it reads back
  * direct oracle (implementation only): generated services through WsgiApplication; requests written by an
    independent schema-directed encoder, by zeep (from the generated WSDL, in-process transport) and by the
    Spyne client; the arguments captured inside the user function must equal the sent ones, the response
    must decode (independent decoder, zeep, Spyne client) to the returned value; equality per type."""
import os, sys, json, copy
import lib
import c01x as X
import c01_wire
import c01z as Z
from lib import gz, gtext, glist, gbool, gopt

THEOREMS = ['C01_xml_rt', 'C01_xml_rt_spyne']                                   # Props/C01.v (shared model Wire/Xml.v)
THEOREMS_X = ['C01_xmlx_rt', 'C01_leaf_sound', 'C01_xmlx_rt_spyne']             # Props/C01_x.v (C01/XmlX.v)
THEOREMS_CALL = ['C01_call_fidelity', 'C01_call_fidelity_spyne', 'C01_call_documents', 'C01_call_named_args']                # Props/C01_call.v (C01/Call.v)
FUEL = 40
XSI = X.XSI

EXN = {'ValueError': 'ValueError', 'TypeError': 'TypeError', 'AttributeError': 'AttributeError', 'KeyError': 'KeyError',
       'IndexError': 'IndexError', 'AssertionError': 'AssertionError', 'OverflowError': 'OverflowError'}


def observe(fn, *args):
    """('ok', value) | ('vfault',) | ('crash', CoqExn, PythonName)"""
    from spyne.model.fault import Fault
    try:
        return ('ok', fn(*args))
    except Fault as e:
        if e.faultcode == 'Client.ValidationError':
            return ('vfault',)
        return ('crash', 'OtherExn', 'Fault:' + str(e.faultcode))
    except Exception as e:
        n = type(e).__name__
        return ('crash', EXN.get(n, 'OtherExn'), n)


def gout(o, f):
    if o[0] == 'ok':
        return '(Ok %s)' % f(o[1])
    if o[0] == 'vfault':
        return 'VFault'
    return '(Crash %s)' % o[1]


def reparse(elt):
    from lxml import etree
    return etree.fromstring(etree.tostring(elt))


# ------------------------------------------------------------------ document mutations (malformed stream)
TEXTS = [None, '', 'abc', ' 7 ', '+5', 'true', '1', '0', 'TRUE', '1.5', '-0', '007', '2020-02-30', '2020-01-01', '12:00:00', '24:00:00',
         '2020-01-01T00:00:00Z', '2020-01-01T10:00:00.5+05:30', 'P1D', 'PT0.5S', 'P', '-P1DT', 'YQ==', 'YQ', '*', '1e3', '99999999999999999999999999',
         '-129', '256', '65536']


def mutate(rng, root, leaf_only=False):
    """one structural or lexical mutation of a parsed document; returns a description or None"""
    from lxml import etree
    elts = [e for e in root.iter() if isinstance(e.tag, str)]
    e = rng.choice(elts)
    kids = [k for k in e if isinstance(k.tag, str)]
    r = rng.random()
    if r < 0.12 and kids:
        e.remove(rng.choice(kids))
        return 'drop child'
    if r < 0.24 and kids:
        k = rng.choice(kids)
        e.insert(rng.randrange(len(e) + 1), copy.deepcopy(k))
        return 'duplicate child'
    if r < 0.32 and len(kids) >= 2:
        a, b = rng.sample(kids, 2)
        a.tag = b.tag
        return 'rename child to sibling'
    if r < 0.40:
        q = etree.QName(e)
        etree.SubElement(e, '{%s}%s' % (q.namespace, 'zz_unknown') if q.namespace else 'zz_unknown').text = 'x'
        return 'unknown child'
    if r < 0.52 and e is not root:
        e.set('{%s}nil' % XSI, rng.choice(['true', '1', 'false', '0', 'TRUE', '']))
        return 'xsi:nil'
    if r < 0.58 and kids:
        rng.shuffle(kids)
        for k in kids:
            e.remove(k)
        for k in kids:
            e.append(k)
        return 'shuffle children'
    if r < 0.64 and e.attrib:
        del e.attrib[rng.choice(sorted(e.attrib))]
        return 'drop attribute'
    if r < 0.72 and e.attrib:
        k = rng.choice(sorted(e.attrib))
        if not k.startswith('{'):
            e.set(k, rng.choice([t for t in TEXTS if t is not None]))
            return 'change attribute'
    if r < 0.78:
        e.set(rng.choice(['zz', 'id', 'name', 'value', 'f0_0', 'f1_0']), rng.choice(['1', 'x', 'true', '']))
        return 'add attribute'
    if r < 0.94 and not kids:
        e.text = rng.choice(TEXTS)
        return 'change text'
    if len(root):   # only under the root, a complex element: array_from_element reads a comment as an item
        root.insert(rng.randrange(len(root) + 1), etree.Comment('c'))
        return 'comment'
    return None


# ------------------------------------------------------------------ correspondence: XmlX on bare objects
IMPORTS_X = 'From SpyneV Require Import C01.Univ C01.XmlX C01.LeafX C01.Call.\n'


def corr_objects_x(check, tier):
    """get_object_as_xml / XmlDocument.from_element against XmlX.enc / dec (no Application: arrays of
    primitives have no namespace)"""
    from lxml import etree
    from spyne.util.xml import get_object_as_xml
    from spyne.protocol.xml import XmlDocument
    rng = check.rng
    n_univ = 8 if tier == 'quick' else 60
    per_class = 4 if tier == 'quick' else 10
    prots = {False: XmlDocument(), True: XmlDocument(validator='soft')}
    for ui in range(n_univ):
        desc = X.gen_universe(rng, n_classes=rng.randint(2, 6), namespaces=('urn:t', 'urn:u', 'urn:v') if ui % 3 else ('urn:t',),
                              allow_sub_ns=True)
        has_sub_ns = any(f.get('sub_ns') for c in desc['classes'] for f in c['fields'])
        classes = X.build_classes(desc)
        imports = IMPORTS_X + 'Definition UU : universe := %s.\n' % X.g_universe(desc, classes)
        enc_cases, dec_cases = [], []
        for cid, cls in enumerate(classes):
            for _ in range(per_class):
                v = X.gen_value(rng, desc, ('ref', cid), depth=rng.randint(1, 4), nullable=False)
                o = X.to_native(desc, classes, v)
                r = observe(get_object_as_xml, o, cls)
                if r[0] != 'ok':
                    obj_fail(check, desc, cid, v, 'encode', 'get_object_as_xml raised %r' % (r,))
                    continue
                tree = reparse(r[1])
                enc_cases.append(('(%d%%nat, %s, %s)' % (cid, X.g_val(v), X.g_xml(tree)),
                                  'universe %d class %d value %r' % (ui, cid, v)))
                check.count(('xenc', json.dumps(desc, sort_keys=True, default=repr), cid, repr(v)))
                docs = [(tree, 'as written')]
                for _ in range(3 if tier == 'quick' else 5):
                    t2 = copy.deepcopy(tree)
                    what = mutate(rng, t2)
                    if what:
                        docs.append((reparse(t2), what))
                for doc, what in docs:
                    for soft in (False, True):
                        d = observe(prots[soft].from_element, None, cls, doc)
                        if d[0] == 'ok':
                            nv = X.from_native(desc, classes, ('ref', cid), d[1])
                            if not X.in_universe(nv):
                                check.mismatch('xmlx_dec', 'decoded value outside the universe: %r from %s' % (
                                    nv, etree.tostring(doc).decode()[:300]))
                                continue
                            d = ('ok', nv)
                        dec_cases.append(('(%s, %d%%nat, %s, %s)' % (gbool(soft), cid, X.g_xml(doc), gout(d, X.g_val)),
                                          'universe %d class %d soft=%s %s: %s -> %r' % (
                                              ui, cid, soft, what, etree.tostring(doc).decode()[:300], d)))
                        check.count(('xdec', soft, etree.tostring(doc)))
                        if what == 'as written' and not soft and not has_sub_ns:
                            # direct oracle, independent reader: the document follows the (would-be) schema, every member
                            # qualified by the namespace of the class that declares it, and denotes the value
                            want = X.norm_value(desc, ('ref', cid), v)
                            try:
                                got = X.norm_value(desc, ('ref', cid), X.ref_decode(desc, classes, ('ref', cid), cls, doc, None))
                                if not X.eq_value(got, want):
                                    obj_fail(check, desc, cid, v, 'ref-decoder', 'get_object_as_xml wrote %s for %r; a schema-directed reader gets %r' % (
                                        etree.tostring(doc).decode()[:300], want, got))
                            except X.DecodeError as e:
                                obj_fail(check, desc, cid, v, 'ref-decoder', 'get_object_as_xml wrote %s for %r, which does not follow the schema: %s' % (
                                    etree.tostring(doc).decode()[:300], want, e))
                        if what == 'as written':          # direct oracle: the property itself on this document
                            want = X.norm_value(desc, ('ref', cid), v)
                            if not (d[0] == 'ok' and X.eq_value(d[1], want)):
                                obj_fail(check, desc, cid, v, 'soft' if soft else 'none',
                                         'XmlDocument(validator=%s) read %s back as %r, sent %r' % (
                                             'soft' if soft else None, etree.tostring(doc).decode()[:200], d, want))
        lib.correspond(check, 'xmlx_enc', imports, 'nat * val * xnode',
                       '(fun c => let \'(cid, v, t) := c in match enc spyne_leaf UU %d (TRef cid) (cls_ns UU cid) '
                       '(cls_name UU cid) v with Ok e => xnode_eqb (wire e) t | _ => false end)' % FUEL, enc_cases,
                       show='(fun c : nat * val * xnode => let \'(cid, v, t) := c in enc spyne_leaf UU %d (TRef cid) '
                            '(cls_ns UU cid) (cls_name UU cid) v)' % FUEL)
        lib.correspond(check, 'xmlx_dec', imports, 'bool * nat * xnode * out val',
                       '(fun c => let \'(soft, cid, t, o) := c in out_eqb val_eqb (from_element spyne_leaf (cfg soft) UU %d '
                       '(TRef cid) t) o)' % FUEL, dec_cases,
                       show='(fun c : bool * nat * xnode * out val => let \'(soft, cid, t, o) := c in from_element spyne_leaf '
                            '(cfg soft) UU %d (TRef cid) t)' % FUEL)
        if ui == 0 and enc_cases:
            check.sample({'universe': X.jsonable(desc), 'case': enc_cases[0][1][:400]})


# ------------------------------------------------------------------ the call level: shared machinery
PROTS = ['xml', 'soap11', 'soap12']
VALIDATORS = [None, 'soft', 'lxml']
G_PROTO = {'xml': 'PXml', 'soap11': 'PSoap11', 'soap12': 'PSoap12'}
G_VMODE = {None: 'ValNone', 'soft': 'ValSoft', 'lxml': 'ValLxml'}
FCODES = {'Client.ValidationError': 'FValidation', 'Client.SchemaValidationError': 'FSchema', 'Client.SoapError': 'FSoapError',
          'Client.ResourceNotFound': 'FNotFound', 'Server': 'FServer'}


def prot_class(p):
    from spyne.protocol.xml import XmlDocument
    from spyne.protocol.soap import Soap11, Soap12
    return {'xml': XmlDocument, 'soap11': Soap11, 'soap12': Soap12}[p]


def gen_call(rng, desc, m, with_headers=True, header_none=True):
    """conformant arguments, header values, the planned return value and out header of one call"""
    if m['style'] == 'bare' and len(m['params']) == 1:
        p = m['params'][0]
        # the body element of a bare method is not declared nillable in the published schema
        args = [X.gen_value(rng, desc, p['ty'], rng.randint(1, 3), nullable=False)]
        if X.nonelike(args[0]):
            args = [X.gen_value(rng, desc, p['ty'], 2, nullable=False)]
            if args[0] == ('bytes', b''):
                args = [('bytes', b'q')]
    else:
        args = [X.gen_field_value(rng, desc, p, rng.randint(1, 3)) for p in m['params']]
    rets = []
    for r in m['returns']:
        if m['style'] == 'wrapped':
            rets.append(X.gen_field_value(rng, desc, r, rng.randint(1, 3)))
        else:
            v = X.gen_value(rng, desc, r['ty'], rng.randint(1, 3), nullable=r['nillable'])
            if X.nonelike(v) and not r['nillable']:
                v = X.gen_value(rng, desc, r['ty'], 2, nullable=False)
                if v == ('bytes', b''):
                    v = ('bytes', b'q')
            rets.append(v)
    ret = ('none',) if not rets else (rets[0] if len(rets) == 1 else ('list', rets))
    ih = oh = None
    if with_headers and m['in_header'] and rng.random() < 0.85:
        ih = [X.gen_value(rng, desc, ('ref', c), 2, nullable=header_none) for c in m['in_header']]
    if with_headers and m['out_header'] and rng.random() < 0.85:
        oh = [X.gen_value(rng, desc, ('ref', c), 2, nullable=False) for c in m['out_header']]   # header entries are not nillable in the schema
    return {'args': args, 'ret': ret, 'in_header': ih, 'out_header': oh}


def expected_call(desc, m, call):
    """what the user function must be handed: (in_header, args) after the property's identifications"""
    if m['style'] == 'bare' and len(m['params']) == 1:
        args = [X.norm_value(desc, m['params'][0]['ty'], call['args'][0])]
    else:
        args = [X.norm_field_value(desc, p, a) for p, a in zip(m['params'], call['args'])]
    ih = None if call['in_header'] is None else [X.norm_value(desc, ('ref', c), v) for c, v in zip(m['in_header'], call['in_header'])]
    if ih == [('none',)]:
        ih = None            # a single header class: ctx.in_header is the header object itself, here None
    return ih, args


def expected_return(desc, m, call):
    rets = m['returns']
    if not rets:
        return ('none',)
    if m['style'] == 'wrapped':
        if len(rets) == 1:
            return X.norm_field_value(desc, rets[0], call['ret'])
        return ('list', [X.norm_field_value(desc, r, v) for r, v in zip(rets, call['ret'][1])])
    return X.norm_value(desc, rets[0]['ty'], call['ret'])


def plan_call(plan, desc, classes, m, call):
    plan.log[:] = []
    rets = m['returns']
    if not rets:
        plan.returns[m['name']] = None
    elif len(rets) == 1:
        plan.returns[m['name']] = X.to_native(desc, classes, call['ret'])
    else:
        plan.returns[m['name']] = tuple(X.to_native(desc, classes, v) for v in call['ret'][1])
    plan.out_header[m['name']] = None if call['out_header'] is None else [X.to_native(desc, classes, v) for v in call['out_header']]


def request_doc(rng, desc, classes, app, prot, m, call):
    """the request as an independent schema-directed client writes it (lxml element)"""
    from lxml import etree
    tns = desc['tns']
    d = X.method_descriptor(app, m['name'])
    if m['style'] == 'bare' and len(m['params']) == 1:
        body = X.ref_encode(desc, classes, m['params'][0]['ty'], d.in_message, tns, m['name'], call['args'][0], rng, tns)
    else:
        body = etree.Element('{%s}%s' % (tns, m['name']))
        X.ref_encode_members(desc, classes, None, body, call['args'], rng, tns, fields=[(None, p) for p in m['params']],
                             ns_of=lambda _c: tns, type_of=lambda _c, f: d.in_message._type_info[f['name']])
    hdrs = None
    if call['in_header'] is not None and prot != 'xml':
        hdrs = [X.ref_encode(desc, classes, ('ref', c), classes[c], desc['classes'][c]['ns'], desc['classes'][c]['name'], v, rng, tns)
                for c, v in zip(m['in_header'], call['in_header'])]
    if prot != 'xml' and m['in_header'] and rng.random() < 0.35:
        # a foreign header block (think wsse:Security) whose LOCAL name is that of a declared header class: the
        # declared classes are matched by {namespace}name, so it must be ignored -- also when it stands alone
        hdrs = foreign_blocks(rng, desc, m['in_header'], hdrs)
    doc = X.soap_envelope(prot, hdrs, body)
    if rng.random() < 0.3:
        X.decorate(rng, doc)      # comments / processing instructions: the document denotes the same request
    return doc, body


def foreign_blocks(rng, desc, hclasses, hdrs):
    from lxml import etree
    out = list(hdrs or [])
    c = rng.choice(hclasses)
    fb = etree.Element('{urn:foreign:security}%s' % desc['classes'][c]['name'])
    for f in X.flat_fields(desc, c)[:2]:
        etree.SubElement(fb, '{urn:foreign:security}%s' % X.wname(f)).text = rng.choice(['x', '7', 'true'])
    out.insert(rng.randrange(len(out) + 1), fb)
    return out


def captured_log(desc, classes, svc, plan):
    """plan.log -> [(method name, in_header neutral list or None, [neutral args])]"""
    out = []
    for name, ih, args in plan.log:
        m = [x for x in svc['methods'] if x['name'] == name][0]
        if ih is None:
            h = None
        elif len(m['in_header']) == 1:
            h = [X.from_native(desc, classes, ('ref', m['in_header'][0]), ih)]
        else:
            h = [X.from_native(desc, classes, ('ref', c), x) for c, x in zip(m['in_header'], ih)]
        if m['style'] == 'bare' and len(m['params']) == 1:
            a = [X.from_native(desc, classes, m['params'][0]['ty'], args[0])] if len(args) == 1 else [('other', 'arity', repr(args)[:80])]
        elif len(args) != len(m['params']):
            a = [('other', 'arity', repr(args)[:80])]
        else:
            a = [X.field_from_native(desc, classes, p, x) for p, x in zip(m['params'], args)]
        out.append((name, h, a))
    return out


def server_parse(raw):
    """the tree the parser of the protocol builds: XMLParser(**XmlDocument().parser_kwargs), whatever those are"""
    from lxml import etree
    from spyne.protocol.xml import XmlDocument
    return etree.fromstring(raw, parser=etree.XMLParser(**XmlDocument().parser_kwargs))


def corr_parser(check, docs):
    """Call.parse_doc against lxml: for the four settings of remove_comments / remove_pis, the tree lxml builds from
    the bytes of a document that carries comments and PIs is the one the model builds from its node sequence"""
    from lxml import etree
    keep = etree.XMLParser(remove_comments=False, remove_pis=False, resolve_entities=False)
    cases = []
    for raw in docs:
        try:
            d = X.g_doc(etree.fromstring(raw, parser=keep))
        except ValueError as e:
            check.mismatch('xml_parser', '%s in %s' % (e, raw.decode()[:200]))
            continue
        for rc in (True, False):
            for rp in (True, False):
                t = etree.fromstring(raw, parser=etree.XMLParser(remove_comments=rc, remove_pis=rp, resolve_entities=False))
                cases.append(('(%s, %s, %s, %s)' % (gbool(rc), gbool(rp), d, X.g_xml(t)),
                              'XMLParser(remove_comments=%s, remove_pis=%s) on %s' % (rc, rp, raw.decode()[:300])))
                check.count(('parser', rc, rp, raw))
    lib.correspond(check, 'xml_parser', IMPORTS_X, 'bool * bool * dnode * xnode',
                   "(fun c => let '(rc, rp, d, t) := c in xnode_eqb (parse_doc rc rp d) t)", cases,
                   show="(fun c : bool * bool * dnode * xnode => let '(rc, rp, d, t) := c in parse_doc rc rp d)")


def drive_server(app, body_bytes):
    """('return', response bytes) | ('fault', faultcode) | ('crash', CoqExn, PythonName); the call log is in the plan"""
    from spyne.server import ServerBase
    from spyne import MethodContext
    try:
        srv = ServerBase(app)
        ctx = MethodContext(srv, MethodContext.SERVER)
        ctx.in_string = [body_bytes]
        ctx = srv.generate_contexts(ctx)[0]
        if ctx.in_error is not None:
            return ('fault', ctx.in_error.faultcode, str(ctx.in_error.faultstring)[:300])
        srv.get_in_object(ctx)
        if ctx.in_error is not None:
            return ('fault', ctx.in_error.faultcode, str(ctx.in_error.faultstring)[:300])
        srv.get_out_object(ctx)
        if ctx.out_error is not None:
            return ('fault', ctx.out_error.faultcode, str(ctx.out_error.faultstring)[:300])
        srv.get_out_string(ctx)
        return ('return', b''.join(ctx.out_string))
    except Exception as e:
        n = type(e).__name__
        return ('crash', EXN.get(n, 'OtherExn'), n)


def g_log(log):
    return glist(['(%s, %s, %s)' % (gtext(n), gopt(h, lambda hh: glist([X.g_val(v) for v in hh])), glist([X.g_val(v) for v in a]))
                  for n, h, a in log])


def log_in_universe(log):
    return all((h is None or all(X.in_universe(v) for v in h)) and all(X.in_universe(v) for v in a) for _, h, a in log)


def g_ufun(call):
    return '(fun _ _ _ => (%s, %s))' % (X.g_val(call['ret']), gopt(call['out_header'], lambda hh: glist([X.g_val(v) for v in hh])))


class World(object):
    """one generated universe + service, and one Application per (protocol, validator)"""

    def __init__(self, rng, model_only=True, header_ns_tns=False, n_classes=None, n_methods=None, desc=None, svc=None, twins=False):
        if desc is None:
            desc = X.gen_universe(rng, n_classes=n_classes or rng.randint(2, 5), model_only=model_only, twins=twins)
            svc = X.gen_service(rng, desc, n_methods=n_methods or rng.randint(3, 5), model_only=model_only,
                                header_ns_tns=header_ns_tns)
        self.desc, self.svc = desc, svc
        self.classes = X.build_classes(self.desc)
        self.apps = {}

    def app(self, prot, val):
        if (prot, val) not in self.apps:
            plan = X.Plan()
            app, _ = X.build_app(self.desc, self.svc, prot_class(prot), val, plan, classes=self.classes)
            self.apps[(prot, val)] = (app, plan)
        return self.apps[(prot, val)]

    def coq_defs(self, app):
        return ('Definition UU : universe := %s.\nDefinition SV : service := %s.\n'
                % (X.g_universe(self.desc, self.classes), X.g_service(self.desc, self.svc, app)))


# ------------------------------------------------------------------ correspondence: full requests through ServerBase
def corr_calls(check, tier):
    from lxml import etree
    from spyne.server.wsgi import WsgiApplication
    rng = check.rng
    n_worlds = 6 if tier == 'quick' else 40
    per_method = 2 if tier == 'quick' else 5
    pdocs = []                      # documents that carry comments / PIs, for the parser correspondence
    for wi in range(n_worlds):
        w = World(rng, twins=True)
        groups = {}                 # Coq definitions of the world -> [server cases, client request cases, client response cases]
        for prot in PROTS:
            for val in VALIDATORS:
                app, plan = w.app(prot, val)
                # one model file per world: the class table and the service are the same for its nine applications
                # (were they ever to differ, the cases are kept apart by their definitions)
                cases, req_cases, resp_cases = groups.setdefault(w.coq_defs(app), ([], [], []))
                pv = '%s, %s, ' % (G_PROTO[prot], G_VMODE[val])
                sc = Z.make_spyne_client(app, WsgiApplication(app), prot)
                for mi, m in enumerate(w.svc['methods']):
                    for _ in range(per_method):
                        call = gen_call(rng, w.desc, m)
                        if m['style'] == 'wrapped':
                            client_corr_case(check, w, app, sc, plan, prot, val, mi, m, call, req_cases, resp_cases)
                        doc, body = request_doc(rng, w.desc, w.classes, app, prot, m, call)
                        docs = [(doc, 'as written')]
                        if len(pdocs) < (10 if tier == 'quick' else 120) and rng.random() < 0.2:
                            d2 = copy.deepcopy(doc)
                            X.decorate(rng, d2, n=rng.randint(2, 6))
                            pdocs.append(etree.tostring(d2))
                        for _ in range(2):
                            d2 = copy.deepcopy(doc)
                            b2 = d2 if prot == 'xml' else elems(d2.find('{*}Body'))[0]
                            what = mutate(rng, b2)
                            if what:
                                docs.append((d2, what))
                        if prot != 'xml' and rng.random() < 0.3:
                            d2 = copy.deepcopy(doc)
                            what = mutate_envelope(rng, d2)
                            if what:
                                docs.append((d2, what))
                        for dd, what in docs:
                            raw = etree.tostring(dd)
                            plan_call(plan, w.desc, w.classes, m, call)
                            obs = drive_server(app, raw)
                            log = captured_log(w.desc, w.classes, w.svc, plan)
                            if not log_in_universe(log):
                                check.mismatch('call_server', 'captured arguments outside the universe: %r for %s' % (log, raw.decode()[:300]))
                                continue
                            sv = True
                            if obs[0] == 'return':
                                g_obs = '(RReturn %s %s)' % (g_log(log), X.g_xml(etree.fromstring(obs[1])))
                            elif obs[0] == 'fault':
                                if obs[1] not in FCODES:
                                    check.mismatch('call_server', 'unexpected fault %r for %s' % (obs[1], raw.decode()[:300]))
                                    continue
                                sv = obs[1] != 'Client.SchemaValidationError'
                                g_obs = '(RFault %s %s)' % (g_log(log), FCODES[obs[1]])
                            else:
                                g_obs = '(RCrash %s %s)' % (g_log(log), obs[1])
                            cases.append(('(%s%s, %s, %s, %s)' % (pv, gbool(sv), X.g_xml(server_parse(raw)), g_ufun(call), g_obs),
                                          'world %d %s/%s %s [%s] %s: %s -> %r log %r' % (
                                              wi, prot, val, m['name'], m['style'], what, raw.decode()[:400], obs[:2] if obs[0] != 'return' else obs[1][:300], log)))
                            check.count(('call', prot, val, raw))
                            if what == 'as written':
                                if oracle_server_case(check, w, prot, val, m, call, raw, obs, log, 'ref-encoder'):
                                    oracle_response_case(check, w, app, prot, val, m, call, raw, obs[1], 'ref-decoder')
        for defs, (cases, req_cases, resp_cases) in groups.items():
            imports = IMPORTS_X + defs
            lib.correspond(check, 'call_server', imports, 'proto * vmode * bool * xnode * ufun * rsp',
                           '(fun c => let \'(p, v, sv, doc, f, o) := c in rsp_eqb (rsp_wire (server spyne_leaf p v (fun _ => sv) UU SV %d f doc)) o)'
                           % FUEL, cases,
                           show='(fun c : proto * vmode * bool * xnode * ufun * rsp => let \'(p, v, sv, doc, f, o) := c in server spyne_leaf p v '
                                '(fun _ => sv) UU SV %d f doc)' % FUEL)
            lib.correspond(check, 'call_client_request', imports, 'proto * vmode * nat * option (list val) * list val * list (text * val) * xnode',
                           '(fun c => let \'(p, v, i, hv, pos, kw, t) := c in match nth_error (s_methods SV) i with Some m => '
                           'match client_request_named spyne_leaf p UU SV %d i m hv pos kw with Ok e => xnode_eqb (wire e) t | _ => false end '
                           '| None => false end)' % FUEL, req_cases,
                           show='(fun c : proto * vmode * nat * option (list val) * list val * list (text * val) * xnode => '
                                'let \'(p, v, i, hv, pos, kw, t) := c in '
                                'match nth_error (s_methods SV) i with Some m => client_request_named spyne_leaf p UU SV %d i m hv pos kw '
                                '| None => Crash OtherExn end)' % FUEL)
            lib.correspond(check, 'call_client_response', imports, 'proto * vmode * nat * xnode * out (val * option (list val))',
                           '(fun c => let \'(p, v, i, t, o) := c in match nth_error (s_methods SV) i with Some m => '
                           'out_eqb (fun a b => val_eqb (fst a) (fst b) && olist_eqb (snd a) (snd b)) '
                           '(client_response spyne_leaf p v UU SV %d i m t) o | None => false end)' % FUEL, resp_cases,
                           show='(fun c : proto * vmode * nat * xnode * out (val * option (list val)) => let \'(p, v, i, t, o) := c in '
                                'match nth_error (s_methods SV) i with Some m => client_response spyne_leaf p v UU SV %d i m t '
                                '| None => Crash OtherExn end)' % FUEL)
        if wi == 0:
            check.sample({'service': X.jsonable(w.svc)})
    corr_parser(check, pdocs)


def call_shape(rng, desc, m, call):
    """how the client passes the arguments of a call: a sequential prefix, the rest name-based (None ones possibly left
    out), and now and then a name-based argument on top of a sequential one (which it replaces, whatever its value:
    0, False, '' and [] are values).  -> (neutral sequential list, [(name, neutral value)])"""
    if call.get('shape'):
        return list(call['shape'][0]), [(k, a) for k, a in call['shape'][1]]
    args = list(call['args'])
    n = len(args)
    k = rng.choice([n, n, rng.randint(0, n)])
    pos = args[:k]
    kw = [(m['params'][j]['name'], args[j]) for j in range(k, n) if args[j] != ('none',) or rng.random() < 0.5]
    if k and rng.random() < 0.3:
        j = rng.randrange(k)
        pos[j] = X.gen_field_value(rng, desc, m['params'][j], rng.randint(1, 2))
        kw.append((m['params'][j]['name'], args[j]))
    rng.shuffle(kw)
    return pos, kw


def client_corr_case(check, w, app, sc, plan, prot, val, mi, m, call, req_cases, resp_cases):
    """the Spyne client (RemoteProcedureBase.get_out_object / get_out_string / get_in_object) against
    Call.client_request / client_response: the request it writes and what it reads from the response"""
    from lxml import etree
    desc, classes = w.desc, w.classes
    d = X.method_descriptor(app, m['name'])
    plan_call(plan, desc, classes, m, call)
    hdr = None
    if call['in_header'] is not None and m['in_header']:
        hdr = [X.to_native(desc, classes, v) for v in call['in_header']]
    sc.set_options(out_header=hdr)
    proc = getattr(sc.service, m['name'])
    from spyne.model.fault import Fault
    pos, kw = call_shape(check.rng, desc, m, call)
    try:
        r = ('ok', proc(*[X.to_native(desc, classes, a) for a in pos], **dict((k, X.to_native(desc, classes, a)) for k, a in kw)))
    except Fault as e:
        r = ('vfault',) if e.faultcode == 'Client.ValidationError' else ('crash', 'OtherExn', 'Fault:' + str(e.faultcode))
    except Exception as e:
        r = ('crash', EXN.get(type(e).__name__, 'OtherExn'), type(e).__name__)
    sent = getattr(proc, 'sent', None)
    if sent is None:
        check.mismatch('call_client_request', 'the Spyne client wrote no request for %s %r: %r' % (m['name'], call['args'], r))
        return
    g_hv = gopt(call['in_header'] if hdr is not None else None, lambda hh: glist([X.g_val(v) for v in hh]))
    pv = '%s, %s, ' % (G_PROTO[prot], G_VMODE[val])
    req_cases.append(('(%s%d%%nat, %s, %s, %s, %s)' % (pv, mi, g_hv, glist([X.g_val(a) for a in pos]),
                                                       glist(['(%s, %s)' % (X.gtext(k), X.g_val(a)) for k, a in kw]), X.g_xml(etree.fromstring(sent))),
                      '%s/%s %s(*%r, **%r) hdr %r -> %s' % (prot, val, m['name'], pos, kw, call['in_header'], sent.decode()[:400])))
    check.count(('client_req', prot, val, sent))
    received = getattr(proc, 'received', None)
    if received is None or not received.strip():
        return
    try:
        rtree = etree.fromstring(received)
    except etree.XMLSyntaxError:
        return
    if r[0] == 'ok':
        rets = m['returns']
        keys = list(d.out_message._type_info.keys())
        if not rets:
            got = ('none',)
        elif len(rets) == 1:
            got = X.field_from_native(desc, classes, rets[0], r[1])
        else:
            got = ('list', [X.field_from_native(desc, classes, rr, getattr(r[1], k, None)) for rr, k in zip(rets, keys)])
        ih = proc.ctx.in_header
        if ih is None:
            got_h = None
        elif len(m['out_header']) == 1:
            got_h = [X.from_native(desc, classes, ('ref', m['out_header'][0]), ih)]
        else:
            got_h = [X.from_native(desc, classes, ('ref', c), x) for c, x in zip(m['out_header'], ih)]
        if not X.in_universe(got) or (got_h is not None and not all(X.in_universe(v) for v in got_h)):
            check.mismatch('call_client_response', 'the Spyne client returned a value outside the universe: %r / %r' % (got, got_h))
            return
        g_o = '(Ok (%s, %s))' % (X.g_val(got), gopt(got_h, lambda hh: glist([X.g_val(v) for v in hh])))
    elif r[0] == 'vfault':
        g_o = 'VFault'
    else:
        if r[2].startswith('Fault:'):
            return                     # the server answered with a fault: not a response document of this method
        g_o = '(Crash %s)' % r[1]
    resp_cases.append(('(%s%d%%nat, %s, %s)' % (pv, mi, X.g_xml(rtree), g_o),
                       '%s/%s %s response %s -> %r' % (prot, val, m['name'], received.decode()[:400], r[:2])))
    check.count(('client_resp', prot, val, received))
    foreign = r[0] == 'ok' and prot != 'xml' and bool(m['out_header']) and check.rng.random() < 0.7
    comments = r[0] == 'ok' and check.rng.random() < 0.3
    if foreign or comments:
        # the same response (a) with a foreign header block whose local name is that of a declared header class,
        # (b) with comments / processing instructions in it: the client must read the same value and the same declared headers
        t2 = copy.deepcopy(rtree)
        what = []
        if foreign:
            ns = X.NS_SOAP11 if prot == 'soap11' else X.NS_SOAP12
            h = t2.find('{%s}Header' % ns)
            if h is None:
                h = etree.Element('{%s}Header' % ns)
                t2.insert(0, h)
            fb = foreign_blocks(check.rng, desc, m['out_header'], [])[0]
            h.insert(check.rng.randrange(len(h) + 1), fb)
            what.append('a foreign header block {urn:foreign:security}%s' % fb.tag.split('}')[1])
        if comments:
            what.extend(X.decorate(check.rng, t2))
        site = 'client-foreign-header' if foreign else 'client-comments'
        what = ', '.join(what)
        raw2 = etree.tostring(t2)
        try:
            o2, h2 = Z.client_read(sc, m['name'], raw2)
        except Exception as e:
            check.fail('C01|call|%s|%s|%s' % (site, prot, type(e).__name__),
                       'the Spyne client fails on a response that carries %s: %r for %s' % (what, e, raw2.decode()[:500]),
                       call_replay(w, prot, val, m, call, {'client': 'spyne', 'response': raw2.decode('utf-8', 'replace')}))
            return
        if not rets:
            got2 = ('none',)
        elif len(rets) == 1:
            got2 = X.field_from_native(desc, classes, rets[0], o2)
        else:
            got2 = ('list', [X.field_from_native(desc, classes, rr, getattr(o2, k, None)) for rr, k in zip(rets, keys)])
        if h2 is None:
            got_h2 = None
        elif len(m['out_header']) == 1:
            got_h2 = [X.from_native(desc, classes, ('ref', m['out_header'][0]), h2)]
        else:
            got_h2 = [X.from_native(desc, classes, ('ref', c), x) for c, x in zip(m['out_header'], h2)]
        if X.in_universe(got2) and (got_h2 is None or all(X.in_universe(v) for v in got_h2)):
            resp_cases.append(('(%s%d%%nat, %s, (Ok (%s, %s)))' % (pv, mi, X.g_xml(server_parse(raw2)), X.g_val(got2),
                                                                    gopt(got_h2, lambda hh: glist([X.g_val(v) for v in hh]))),
                               '%s/%s %s response with %s: %s' % (prot, val, m['name'], what, raw2.decode()[:400])))
        none_like = lambda hh: hh is None or all(v == ('none',) for v in hh)
        same_h = (none_like(got_h) and none_like(got_h2)) or (got_h is not None and got_h2 is not None and len(got_h) == len(got_h2)
                                                              and all(X.eq_value(a, b) for a, b in zip(got_h, got_h2)))
        if not (X.eq_value(got, got2) and same_h):
            check.fail('C01|call|%s|%s|changed-reading' % (site, prot),
                       '%s changes what the Spyne client reads: %r / %r instead of %r / %r from %s' % (
                           what, got2, got_h2, got, got_h, raw2.decode()[:500]),
                       call_replay(w, prot, val, m, call, {'client': 'spyne', 'response': raw2.decode('utf-8', 'replace')}))


def elems(e):
    return [k for k in e if isinstance(k.tag, str)]


def mutate_envelope(rng, env):
    from lxml import etree
    r = rng.random()
    kids = list(env)
    if r < 0.3:
        h = env.find('{*}Header')
        if h is not None:
            env.remove(h)
            return 'drop Header'
    if r < 0.5:
        h = env.find('{*}Header')
        if h is not None and elems(h):
            h.append(copy.deepcopy(elems(h)[0]))
            return 'duplicate header entry'
    if r < 0.7:
        h = env.find('{*}Header')
        if h is not None and len(elems(h)) >= 2:
            a = elems(h)[0]
            h.remove(a)
            h.append(a)
            return 'reorder header entries'
    if r < 0.85:
        b = env.find('{*}Body')
        if b is not None and elems(b):
            b0 = elems(b)[0]
            b0.tag = etree.QName(b0).namespace and '{%s}%s' % (etree.QName(b0).namespace, 'noSuchMethod') or 'noSuchMethod'
            return 'unknown method'
    env.tag = '{urn:not-soap}Envelope'
    return 'foreign envelope'


def call_key(site, prot, val, m, call, desc):
    shapes = []
    for p, a in zip(m['params'], call['args']):
        shapes.append(shape_of(desc, p['ty'], a) or a[0])
    return 'C01|call|%s|%s|%s|%s|%s' % (site, prot, val, m['style'], ';'.join(shapes)[:120])


def call_replay(w, prot, val, m, call, extra=None):
    r = {'kind': 'call', 'universe': X.jsonable(w.desc), 'service': X.jsonable(w.svc), 'protocol': prot, 'validator': val,
         'method': m['name'], 'call': X.jsonable(call)}
    if extra:
        r.update(extra)
    return r


def oracle_server_case(check, w, prot, val, m, call, raw, obs, log, client):
    """the property, server half, on one conformant request: exactly one invocation with equal values"""
    ih, args = expected_call(w.desc, m, call)
    if prot == 'xml':
        ih = None
    want = [(m['name'], ih, args)]
    got_ih = log[0][1] if len(log) == 1 else None
    if got_ih is not None and all(v == ('none',) for v in got_ih):
        got_ih = None        # a Header element without any of the declared blocks: every declared header is absent
        log = [(log[0][0], None, log[0][2])]
    if ih is not None and all(v == ('none',) for v in ih):
        ih = None
    ok = obs[0] == 'return' and len(log) == 1 and log[0][0] == m['name'] \
        and ((log[0][1] is None) == (ih is None)) \
        and (ih is None or (len(ih) == len(log[0][1]) and all(X.eq_value(a, b) for a, b in zip(log[0][1], ih)))) \
        and len(log[0][2]) == len(args) and all(X.eq_value(a, b) for a, b in zip(log[0][2], args))
    if not ok:
        check.fail(call_key('server-' + client, prot, val, m, call, w.desc),
                   '%s validator=%s %s [%s]: request %s gave %r with call log %r; expected exactly one call %r' % (
                       prot, val, m['name'], m['style'], raw.decode()[:400], obs if obs[0] != 'return' else 'a response', log, want),
                   call_replay(w, prot, val, m, call, {'request': raw.decode('utf-8', 'replace'), 'client': client}))
        return False
    return True


def shape_of(desc, ty, v):
    """which kinds of member / value a failing input exercises (for specific finding keys)"""
    shape = set()

    def walk(ty, x):
        if x[0] == 'obj':
            for f, y in zip(X.flat_fields(desc, x[1]), x[2]):
                tag = f['kind'] + ('*' if X.is_multi(f) else '') + ('!' if f['min'] > 0 else '')
                if y[0] == 'none':
                    shape.add(tag + ':none')
                elif y[0] == 'list' and not y[1]:
                    shape.add(tag + ':empty')
                elif y[0] in ('text', 'bytes') and len(y[1]) == 0:
                    shape.add(tag + ':empty' + y[0])
                if f['kind'] == 'elem' and X.is_multi(f) and y[0] == 'list':
                    for z in y[1]:
                        walk(f['ty'], z)
                else:
                    walk(f['ty'], y)
        elif x[0] == 'list' and ty[0] == 'arr':
            for z in x[1]:
                walk(ty[1], z)
        elif x[0] not in ('none', 'list'):
            shape.add('leaf:' + x[0])
    walk(ty, v)
    return ','.join(sorted(shape))[:140]


def obj_fail(check, desc, cid, v, stage, what):
    check.fail('C01|object|%s|%s' % (stage, shape_of(desc, ('ref', cid), v)), what,
               {'kind': 'object', 'universe': X.jsonable(desc), 'cid': cid, 'value': X.jsonable(v), 'stage': stage})


LEAF_PINS = ['pin_tok_' + n for n in (
    'bin_from_base64', 'bin_to_base64', 'in__parse_datetime_iso_match', 'in_boolean_from_bytes', 'in_byte_array_from_bytes',
    'in_date_from_unicode', 'in_date_from_unicode_iso', 'in_duration_from_unicode',
    'in_integer_from_bytes', 'in_time_from_unicode', 'out__datetime_to_unicode', 'out_boolean_to_unicode',
    'out_byte_array_to_unicode', 'out_date_to_unicode', 'out_datetime_to_unicode',
    'out_integer_to_unicode', 'out_time_to_unicode')] + ['pin_val_fmt_' + n for n in (
    'DateTime_dt_format', 'DateTime_out_format', 'DateTime_string_format', 'Date_date_format', 'Time_time_format')]


def run(check):
    tier = check.tier
    check.rule = ('generated type universes (2-6 classes, inheritance, XmlAttribute / XmlData members, wrapped arrays, '
                  'max_occurs>1 members, members with a sub_name / sub_ns declared in a base class and read through subclasses and '
                  'customised variants, class chains crossing 2-3 namespaces, customised integer types, 8 primitive kinds in the '
                  'model and Decimal/Double/Uuid/customised Unicode in the oracle, member names shared between classes) and '
                  'generated services (wrapped / bare / out_bare, 0-3 parameters, 0-3 return values, header classes in and out, '
                  'header classes sharing their type name across namespaces, foreign header blocks in requests and responses) '
                  'with schema-conformant values incl. the boundary values of the C08 generators for every leaf kind (integer '
                  'widths and powers of ten, every zero/non-zero shape of a duration\'s days x seconds x microseconds in both '
                  'signs, UTC offsets down to the minute, 1-6 digit fractions, chunked ByteArray values, equivalent literals '
                  'such as +5 / 1 / Z / trailing zeros / line-wrapped base64 from the reference writer), plus a stream of structurally and lexically mutated documents; a case is '
                  'distinct by (operation, protocol, validator, universe, class or method, value or document)')
    check.trusted = list(lib.COMMON_TRUSTED) + [
        'lxml/libxml2 (parsing, serialisation, namespace handling, XSD validation): the models work on parsed trees; the one '
        'identification a serialise/parse cycle makes on Spyne-built trees (text "" -> no text) is the function [wire]',
        'harness/c01x.py: the rendering of one description as Spyne classes, as Gallina terms and for the reference codec; '
        'array member names / namespaces, customised type names and Attributes tables are COPIED from the classes that exist '
        '(observed, not modelled: naming is C06/C07)',
        'the oracle\'s independent decoders: harness/c01x.py ref_decode/ref_parse_leaf (XSD literals written from the XML Schema '
        'datatypes spec), zeep 4.3 (request writer from the WSDL; its schema objects parse the response), the Spyne client',
        'the equality notions of the property as coded in c01x.eq_value / norm_value (numeric value, instant plus UTC offset, '
        'exact bytes, exact text; absent optional element = None, empty unwrapped sequence = None, empty byte string = None, '
        'and the one XML forces in addition: an XmlData member holding the empty string = None)',
    ]
    check.assumptions = [
        'leaf_sound L (C01_xmlx_rt, C01_call_fidelity): the primitive text codec is lossless on its declared domain; discharged for '
        'Spyne\'s codecs by C01_leaf_sound from the C08 theorems (integer family, Unicode, Boolean, ByteArray/base64, Date, Time, '
        'DateTime, Duration); any other primitive (Decimal, Double, Uuid, ...) enters the theorems as STok, a codec assumed to be '
        'the identity on its lexical form, and is covered by the oracle only',
        'validator=lxml: libxml2 accepts the request body the client writes (hypothesis of C01_call_fidelity; observed on every '
        'conformant request of the run; the modelled subset of XSD validation is C06)',
        'wf_universe: distinct flattened member names and wire names (sub_name), a member in a namespace of its own (sub_ns) is an element, XmlAttribute/XmlData wrap single-valued primitives, a class with XmlData has no '
        'element members and no relatives (xs:simpleContent), header classes have distinct qualified names, method names are '
        'distinct, the service does not live in the SOAP envelope namespace',
        'not modelled (never generated by the correspondences): polymorphism / xsi:type (C16), Attributes.default, '
        'href/id multi-reference SOAP encoding, AnyXml/AnyDict/AnyHtml/File/Enum members, MTOM, out_stream serialisation, '
        'faults as responses (C09), XML-level hostility (C10/C17)',
        'zeep limitations that narrow what is compared through it: it reads an empty element as None whatever its type, ignores '
        'xsi:nil on complex-typed elements, cannot write xsd.Nil items in sequences or absent simple content, cannot parse a reply '
        'whose body element has a simple type (those replies are read by the reference decoder), encodes a bare base64Binary '
        'argument twice, prints years < 1000 unpadded',
    ]
    check.extra['violations_not_listed'] = 0
    orig_fail = check.fail

    def limited_fail(key, what, replay):
        # an unrepaired tree produces hundreds of distinct failing shapes: list the first 40, count the rest
        if key not in check.known_keys and len(check.violations) >= 40 and not any(k == key for k, _, _ in check.violations):
            check.extra['violations_not_listed'] += 1
            return True
        return orig_fail(key, what, replay)
    check.fail = limited_fail
    check.regen(['numtypes', 'xmlwire', 'tokens', 'c08sem'])
    check.check_sources()
    check.prove('Props.C01', THEOREMS)
    check.prove('Props.C01_x', THEOREMS_X)
    check.prove('Props.C01_call', THEOREMS_CALL)
    # the leaf codec of the theorems is C08's models of the to_unicode / from_unicode functions: the decisive tokens of
    # the functions behind the eight leaf kinds used here, regenerated from the source (Gen/Tokens.v), are pinned to
    # what those models transcribe (C08/Pins.v) in this run as well
    check.prove('C08.Pins', LEAF_PINS)
    # the datetime reader and the duration printer are translated semantically (translate/c08sem.py) and proved equal
    # to the models for all inputs
    check.prove('Props.C08_sem', ['C08_sem_datetime_reader', 'C08_sem_duration_printer'])
    import time
    t0 = time.time()
    for name, fn in (('wire objects', c01_wire.corr_objects), ('x objects', corr_objects_x), ('calls', corr_calls),
                     ('client oracles', oracle_clients)):
        fn(check, tier)
        check.log('C01 phase %s: %.1fs' % (name, time.time() - t0))
        t0 = time.time()
    lib.flush_correspondences(check)
    check.log('C01 phase model evaluation (coqc): %.1fs' % (time.time() - t0))
    return check.finish()


def replay(check, path):
    """re-run exactly the stored case against the tree under test and report what it does now"""
    import random
    from lxml import etree
    r = json.load(open(path))
    rp = r.get('replay', {})
    print('replaying %s: %s' % (r.get('key'), (r.get('what') or '')[:600]))
    kind = rp.get('kind')
    rng = random.Random(r.get('seed', 0))
    if kind == 'object':
        from spyne.util.xml import get_object_as_xml
        from spyne.protocol.xml import XmlDocument
        desc, cid, v = X.unjson(rp['universe']), rp['cid'], X.unjson(rp['value'])
        classes = X.build_classes(desc)
        o = observe(get_object_as_xml, X.to_native(desc, classes, v), classes[cid])
        if o[0] != 'ok':
            obj_fail(check, desc, cid, v, 'encode', 'get_object_as_xml raised %r' % (o,))
        else:
            tree = reparse(o[1])
            want = X.norm_value(desc, ('ref', cid), v)
            try:
                got = X.norm_value(desc, ('ref', cid), X.ref_decode(desc, classes, ('ref', cid), classes[cid], tree, None))
                print('schema-directed reader: %r' % (got,))
                if not X.eq_value(got, want):
                    obj_fail(check, desc, cid, v, 'ref-decoder', 'a schema-directed reader gets %r from %s, sent %r' % (
                        got, etree.tostring(tree).decode()[:300], want))
            except X.DecodeError as e:
                obj_fail(check, desc, cid, v, 'ref-decoder', '%s does not follow the schema: %s' % (etree.tostring(tree).decode()[:300], e))
            for soft in (False, True):
                d = observe(XmlDocument(validator='soft' if soft else None).from_element, None, classes[cid], tree)
                if d[0] == 'ok':
                    d = ('ok', X.from_native(desc, classes, ('ref', cid), d[1]))
                print('validator=%s: %s -> %r (sent %r)' % ('soft' if soft else None, etree.tostring(tree).decode()[:400], d, want))
                if not (d[0] == 'ok' and X.eq_value(d[1], want)):
                    obj_fail(check, desc, cid, v, 'soft' if soft else 'none', 'XmlDocument(validator=%s) read %s back as %r, sent %r' % (
                        'soft' if soft else None, etree.tostring(tree).decode()[:200], d, want))
    elif kind == 'call':
        from spyne.server.wsgi import WsgiApplication
        w = World(rng, desc=X.unjson(rp['universe']), svc=X.unjson(rp['service']))
        prot, val = rp['protocol'], rp['validator']
        m = [x for x in w.svc['methods'] if x['name'] == rp['method']][0]
        call = X.unjson(rp['call'])
        app, plan = w.app(prot, val)
        wapp = WsgiApplication(app)
        client = rp.get('client', '') or rp.get('decoder', '')
        if rp.get('request') and 'zeep' not in client and 'spyne' not in client:
            # exactly the stored request document
            raw = rp['request'].encode('utf-8')
            plan_call(plan, w.desc, w.classes, m, call)
            status, out = Z.wsgi_call(wapp, raw, Z.MIME[prot])
            log = captured_log(w.desc, w.classes, w.svc, plan)
            print('stored request -> %s, call log %r' % (status, log))
            obs = ('return', out) if status.startswith('200') else ('fault', status, out[:300].decode('utf-8', 'replace'))
            if oracle_server_case(check, w, prot, val, m, call, raw, obs, log, 'stored-request'):
                oracle_response_case(check, w, app, prot, val, m, call, raw, out, 'ref-decoder/wsgi')
        if rp.get('response') and 'spyne' in client:
            stored_response_case(check, w, app, Z.make_spyne_client(app, wapp, prot), prot, val, m, call, rp['response'].encode('utf-8'))
        wsgi_case(check, rng, w, app, wapp, plan, prot, val, m, call)
        if 'zeep' in client and prot != 'xml':
            zeep_case(check, w, app, Z.ZeepSide(app, wapp), plan, prot, val, m, call)
        if 'spyne' in client and m['style'] == 'wrapped':
            spyne_client_case(check, w, app, Z.make_spyne_client(app, wapp, prot), plan, prot, val, m, call)
        print('call log of the last run: %r' % (captured_log(w.desc, w.classes, w.svc, plan),))
    elif kind == 'probe':
        probe_sub_ns(check)
    elif kind == 'wsdl':
        from spyne.server.wsgi import WsgiApplication
        w = World(rng, desc=X.unjson(rp['universe']), svc=X.unjson(rp['service']))
        app, plan = w.app(rp['protocol'], rp['validator'])
        try:
            Z.ZeepSide(app, WsgiApplication(app))
            print('zeep loads the WSDL now')
        except Exception as e:
            check.fail(r['key'], 'zeep cannot load the WSDL: %r' % (e,), rp)
    else:
        print(json.dumps(r, indent=1)[:3000])
        return 0
    if not check.violations and not check.known_seen:
        print('the stored case passes on this tree')
    return check.finish()



def decode_response(w, app, prot, m, resp_bytes):
    """independent schema-directed reading of a response: (return value, out header list or None)"""
    from lxml import etree
    desc, classes, tns = w.desc, w.classes, w.desc['tns']
    d = X.method_descriptor(app, m['name'])
    doc = etree.fromstring(resp_bytes)
    hdrs, body = X.soap_open(prot, doc)
    if body is None:
        raise X.DecodeError('no body element')
    if body.tag != '{%s}%sResponse' % (tns, m['name']):
        raise X.DecodeError('body element %s, expected {%s}%sResponse' % (body.tag, tns, m['name']))
    rets = m['returns']
    if m['style'] == 'wrapped':
        keys = list(d.out_message._type_info.keys())
        fields = [(None, dict(r, name=k)) for r, k in zip(rets, keys)]
        vals = X.ref_decode_members(desc, classes, None, body, tns, fields=fields, ns_of=lambda _c: tns,
                                    type_of=lambda _c, f: d.out_message._type_info[f['name']])
        ret = ('none',) if not rets else (vals[0] if len(rets) == 1 else ('list', vals))
    elif rets:
        ret = X.ref_decode(desc, classes, rets[0]['ty'], d.out_message, body, tns, nillable=False)   # a global element, not declared nillable
    else:
        ret = ('none',)
    oh = None
    if hdrs is not None:
        if len(hdrs) != len(m['out_header']):
            raise X.DecodeError('%d header entries for %d declared header classes' % (len(hdrs), len(m['out_header'])))
        oh = []
        for c, e in zip(m['out_header'], hdrs):
            if e.tag != '{%s}%s' % (desc['classes'][c]['ns'], desc['classes'][c]['name']):
                raise X.DecodeError('header entry %s for class %s' % (e.tag, desc['classes'][c]['name']))
            oh.append(X.ref_decode(desc, classes, ('ref', c), classes[c], e, tns, nillable=False))
    return ret, oh


def norm_decoded(desc, m, ret):
    """the decoder's own reading normalised like the expectation (an absent / empty sequence member is None)"""
    rets = m['returns']
    if not rets:
        return ret
    if m['style'] == 'wrapped':
        if len(rets) == 1:
            return X.norm_field_value(desc, rets[0], ret)
        return ('list', [X.norm_field_value(desc, r, v) for r, v in zip(rets, ret[1])])
    return X.norm_value(desc, rets[0]['ty'], ret)


def expected_out_header(desc, m, call, prot):
    if prot == 'xml' or call['out_header'] is None or not m['out_header']:
        return None
    return [X.norm_value(desc, ('ref', c), v) for c, v in zip(m['out_header'], call['out_header'])]


def oracle_response_case(check, w, app, prot, val, m, call, raw, resp, decoder):
    """the property, client half: the response document denotes exactly the returned value"""
    want = expected_return(w.desc, m, call)
    want_h = expected_out_header(w.desc, m, call, prot)
    try:
        got, got_h = decode_response(w, app, prot, m, resp)
        got = norm_decoded(w.desc, m, got)
        if got_h is not None:
            got_h = [X.norm_value(w.desc, ('ref', c), v) for c, v in zip(m['out_header'], got_h)]
        ok = X.eq_value(got, want) and ((got_h is None) == (want_h is None)) and \
            (want_h is None or (len(got_h) == len(want_h) and all(X.eq_value(a, b) for a, b in zip(got_h, want_h))))
        err = None
    except X.DecodeError as e:
        ok, got, got_h, err = False, None, None, str(e)
    if not ok:
        key = 'C01|call|response-%s|%s|%s' % (decoder.split('/')[0], m['style'],
                                                   ';'.join(shape_of(w.desc, r['ty'], v) or v[0] for r, v in zip(
                                                       m['returns'], [call['ret']] if len(m['returns']) == 1 else (call['ret'][1] if m['returns'] else [])))[:120])
        check.fail(key, '%s validator=%s %s [%s]: the function returned %r (out header %r) but the response %s %s' % (
            prot, val, m['name'], m['style'], want, want_h, resp.decode('utf-8', 'replace')[:500],
            ('does not follow the schema: ' + err) if err else 'denotes %r (out header %r)' % (got, got_h)),
            call_replay(w, prot, val, m, call, {'request': raw.decode('utf-8', 'replace'), 'decoder': decoder}))
        return False
    return True


# ------------------------------------------------------------------ oracle: WsgiApplication + zeep + the Spyne client
def probe_sub_ns(check):
    """one fixed service around a member that has Attributes.sub_ns: the protocol writes and reads the element in
    that namespace, which the published schema must then declare.  (a) the request the Spyne client writes for
    f(K(a=7)) reaches f under validator='lxml'; (b) zeep, driven by the WSDL, gets K(a=7) back from g()."""
    from spyne import Application, rpc, ServiceBase, Integer, ComplexModel
    from spyne.protocol.soap import Soap11
    from spyne.server.wsgi import WsgiApplication
    seen = []

    class SubNsK(ComplexModel):
        __namespace__ = 'urn:t'
        _type_info = [('a', Integer(sub_ns='urn:w'))]

    class SubNsService(ServiceBase):
        @rpc(SubNsK, _returns=Integer)
        def f(ctx, k):
            seen.append(None if k is None else k.a)
            return 1

        @rpc(_returns=SubNsK)
        def g(ctx):
            return SubNsK(a=7)

    rp = {'kind': 'probe', 'name': 'sub_ns'}
    try:
        app = Application([SubNsService], 'urn:t', name='SubNs', in_protocol=Soap11(validator='lxml'), out_protocol=Soap11())
        wapp = WsgiApplication(app)
        sc = Z.make_spyne_client(app, wapp, 'soap11')
    except Exception as e:
        check.fail('C01|probe|sub_ns|application|%s' % type(e).__name__, 'a service around a member with sub_ns cannot be built: %r' % (e,), rp)
        return
    check.count(('probe', 'sub_ns'))
    proc = sc.service.f
    try:
        proc(SubNsK(a=7))
        err = None
    except Exception as e:
        err = e
    if seen != [7]:
        check.fail('C01|probe|sub_ns|request-own-wire-form|lxml',
                   'f(K(a=7)), a: Integer(sub_ns=\'urn:w\'), validator=lxml: the request the Spyne client writes, %s, does not reach the '
                   'function (%r; calls seen: %r): the element is written as {urn:w}a, the schema the server validates against '
                   'declares a local element a of the urn:t schema' % ((getattr(proc, 'sent', b'') or b'').decode()[:400], err, seen), rp)
    try:
        zs = Z.ZeepSide(app, wapp)
        r = zs.client.service.g()
        got = getattr(r, 'a', None)
    except Exception as e:
        got = 'zeep raised %r' % (e,)
    if got != 7:
        check.fail('C01|probe|sub_ns|response-outside-published-schema',
                   'g() returned K(a=7), a: Integer(sub_ns=\'urn:w\'); a WSDL-driven client (zeep) reads a=%r from %s: the published schema '
                   'declares a as a local element of the urn:t schema, the response carries {urn:w}a' % (
                       got, (zs.received or b'').decode()[:400] if 'zs' in dir() else ''), rp)


def oracle_clients(check, tier):
    from spyne.server.wsgi import WsgiApplication
    rng = check.rng
    probe_sub_ns(check)
    n_worlds = 8 if tier == 'quick' else 60
    per_method = 2 if tier == 'quick' else 4
    stats = check.extra.setdefault('oracle', {'wsgi': 0, 'zeep': 0, 'spyne_client': 0, 'zeep_clients': 0})
    for wi in range(n_worlds):
        w = World(rng, model_only=False, header_ns_tns=False)
        for prot in PROTS:
            for val in VALIDATORS:
                try:
                    app, plan = w.app(prot, val)
                except Exception as e:
                    kinds = sorted(set(f['ty'][1]['k'] + ':' + f['kind'] for c in w.desc['classes'] for f in c['fields']
                                       if f['ty'][0] == 'leaf' and f['kind'] != 'elem'))
                    check.fail('C01|application|%s|%s|%s|%s' % (prot, val, type(e).__name__, ','.join(kinds)[:80]),
                               'the Application cannot be built for %s validator=%s: %r' % (prot, val, e),
                               {'kind': 'wsdl', 'universe': X.jsonable(w.desc), 'service': X.jsonable(w.svc), 'protocol': prot, 'validator': val})
                    continue
                wapp = WsgiApplication(app)
                zs = None
                if prot != 'xml':
                    try:
                        zs = Z.ZeepSide(app, wapp)
                        stats['zeep_clients'] += 1
                    except Exception as e:
                        hdr = set(c for mm in w.svc['methods'] for c in mm['in_header'] + mm['out_header'])
                        bare = set(f['ty'][1] for mm in w.svc['methods'] if mm['style'] != 'wrapped'
                                   for f in (mm['params'] if mm['style'] == 'bare' else []) + mm['returns'] if f['ty'][0] == 'ref')
                        why = 'header-class-is-also-a-bare-message' if hdr & bare else type(e).__name__
                        check.fail('C01|wsdl|zeep-load|%s' % why,
                                   'zeep cannot load the WSDL published for %s: %r' % (prot, e),
                                   {'kind': 'wsdl', 'universe': X.jsonable(w.desc), 'service': X.jsonable(w.svc), 'protocol': prot, 'validator': val})
                sc = Z.make_spyne_client(app, wapp, prot)
                for m in w.svc['methods']:
                    for _ in range(per_method):
                        call = gen_call(rng, w.desc, m, header_none=False)
                        wsgi_case(check, rng, w, app, wapp, plan, prot, val, m, call)
                        stats['wsgi'] += 1
                        if zs is not None:
                            zeep_case(check, w, app, zs, plan, prot, val, m, call)
                            stats['zeep'] += 1
                        if m['style'] == 'wrapped':
                            spyne_client_case(check, w, app, sc, plan, prot, val, m, call)
                            stats['spyne_client'] += 1
                        check.count(('oracle', prot, val, m['name'], repr(call)))


def wsgi_case(check, rng, w, app, wapp, plan, prot, val, m, call):
    from lxml import etree
    doc, _ = request_doc(rng, w.desc, w.classes, app, prot, m, call)
    raw = etree.tostring(doc, xml_declaration=True, encoding='UTF-8')
    plan_call(plan, w.desc, w.classes, m, call)
    try:
        status, out = Z.wsgi_call(wapp, raw, Z.MIME[prot])
    except Exception as e:
        check.fail(call_key('wsgi-raised', prot, val, m, call, w.desc), 'WsgiApplication raised %r for %s' % (e, raw.decode()[:400]),
                   call_replay(w, prot, val, m, call, {'request': raw.decode('utf-8', 'replace'), 'client': 'ref-encoder/wsgi'}))
        return
    log = captured_log(w.desc, w.classes, w.svc, plan)
    obs = ('return', out) if status.startswith('200') else ('fault', status, out[:300].decode('utf-8', 'replace'))
    if oracle_server_case(check, w, prot, val, m, call, raw, obs, log, 'ref-encoder/wsgi'):
        oracle_response_case(check, w, app, prot, val, m, call, raw, out, 'ref-decoder/wsgi')


def elem_fields(desc, cid):
    fs = X.declaring(desc, cid)
    return [f for _, f in fs if f['kind'] == 'elem'], [f for _, f in fs if f['kind'] == 'attr'], [f for _, f in fs if f['kind'] == 'data']


def nil_complex_item(desc, ty, v, in_seq=False):
    """does the value hold None as an item of a sequence of complex type?  (zeep renders xsd.Nil there as a
    nil *child*, so such a request cannot be written with zeep)"""
    if v[0] == 'none':
        return in_seq                      # (zeep also fails on xsd.Nil items of several simple types)
    if v[0] == 'list' and ty[0] == 'arr':
        return any(nil_complex_item(desc, ty[1], x, True) for x in v[1])
    if v[0] == 'obj':
        for f, x in zip(X.flat_fields(desc, v[1]), v[2]):
            if f['kind'] == 'data' and x[0] == 'none':
                return True                # zeep cannot render simple content without a value
            if f['kind'] == 'elem' and X.is_multi(f):
                if x[0] == 'list' and any(nil_complex_item(desc, f['ty'], y, True) for y in x[1]):
                    return True
            elif nil_complex_item(desc, f['ty'], x):
                return True
    return False


def zeep_norm(v):
    """the identifications zeep itself makes when it parses (none of them Spyne's doing): an empty element is
    None whatever its type ('' , b'', an empty wrapped array), and xsi:nil on a complex-typed element is ignored"""
    if v in (('text', ''), ('bytes', b'')):
        return ('none',)
    if v[0] == 'list':
        l = [zeep_norm(x) for x in v[1]]
        return ('list', l) if l else ('none',)
    if v[0] == 'obj':
        # zeep ignores xsi:nil on complex-typed elements: a nil object is read as an object without members
        l = [zeep_norm(x) for x in v[2]]
        return ('obj', v[1], l) if any(x != ('none',) for x in l) else ('none',)
    return v


def zeep_case(check, w, app, zs, plan, prot, val, m, call):
    import zeep.helpers
    desc, classes = w.desc, w.classes
    d = X.method_descriptor(app, m['name'])
    if m['style'] == 'bare' and len(m['params']) == 1:
        if nil_complex_item(desc, m['params'][0]['ty'], call['args'][0]):
            return
        if call['args'][0][0] == 'bytes':
            return          # zeep base64-encodes a body element of type xs:base64Binary twice
    else:
        for p, a in zip(m['params'], call['args']):
            if X.is_multi(p) and a[0] == 'list':
                if any(nil_complex_item(desc, p['ty'], y, True) for y in a[1]):
                    return
            elif nil_complex_item(desc, p['ty'], a):
                return
    if call['in_header'] is not None and any(nil_complex_item(desc, ('ref', c), v) for c, v in zip(m['in_header'], call['in_header'])):
        return
    plan_call(plan, desc, classes, m, call)
    args, kwargs = [], {}
    try:
        if m['style'] == 'bare' and len(m['params']) == 1:
            p, a = m['params'][0], call['args'][0]
            if p['ty'][0] == 'leaf':
                args = [Z.leaf_to_zeep(a)]
            else:
                kwargs = zs.to_zeep(desc, classes, p['ty'], d.in_message, a)
        else:
            for p, a in zip(m['params'], call['args']):
                kwargs[p['name']] = zs.field_to_zeep(desc, classes, p, d.in_message._type_info[p['name']], a)
        if call['in_header'] is not None and m['in_header']:
            hs = []
            for c, v in zip(m['in_header'], call['in_header']):
                el = zs.client.get_element('{%s}%s' % (desc['classes'][c]['ns'], desc['classes'][c]['name']))
                hs.append(el(**zs.obj_to_zeep(desc, classes, v)))
            kwargs['_soapheaders'] = hs
        zs.sent = zs.received = None
        # raw_response: zeep's own reply handling unwraps single children by heuristics and cannot parse a body
        # element of simple type; the reply is parsed below with zeep's schema objects instead
        with zs.client.settings(raw_response=True):
            getattr(zs.client.service, m['name'])(*args, **kwargs)
    except Exception as e:
        check.fail(call_key('zeep-raised', prot, val, m, call, desc),
                   '%s validator=%s %s [%s]: zeep could not write the call with arguments %r: %r (sent %s; received %s)' % (
                       prot, val, m['name'], m['style'], call['args'], e, (zs.sent or b'')[:400], (zs.received or b'')[:300]),
                   call_replay(w, prot, val, m, call, {'client': 'zeep'}))
        return
    log = captured_log(desc, classes, w.svc, plan)
    if not oracle_server_case(check, w, prot, val, m, call, zs.sent or b'', ('return', zs.received), log, 'zeep'):
        return
    want = zeep_norm(expected_return(desc, m, call))
    want_h = expected_out_header(desc, m, call, prot)
    if want_h is not None:
        want_h = [zeep_norm(x) for x in want_h]
    ser = None
    try:
        from lxml import etree
        hdrs, body = X.soap_open(prot, etree.fromstring(zs.received))
        schema = zs.client.wsdl.types
        ser = zeep.helpers.serialize_object(schema.get_element(body.tag).parse(body, schema), dict)
        got = zeep_norm(zeep_result(zs, w, app, m, ser))
        got_h = None
        if hdrs is not None:
            got_h = []
            for c, h in zip(m['out_header'], hdrs):
                hv = zeep.helpers.serialize_object(schema.get_element(h.tag).parse(h, schema), dict)
                got_h.append(zeep_norm(X.norm_value(desc, ('ref', c), zs.from_zeep(desc, classes, ('ref', c), classes[c], hv))))
            if len(hdrs) != len(m['out_header']):
                got_h.append(('other', 'header-count', str(len(hdrs))))
        err = None
    except Exception as e:
        got, got_h, err = None, None, repr(e)
    ok = err is None and X.eq_value(got, want) and ((got_h is None) == (want_h is None)) and \
        (want_h is None or (len(got_h) == len(want_h) and all(X.eq_value(a, b) for a, b in zip(got_h, want_h))))
    if not ok:
        key = 'C01|call|response-zeep|%s|%s' % (m['style'], ';'.join(
            shape_of(desc, rr['ty'], v) or v[0] for rr, v in zip(m['returns'], [call['ret']] if len(m['returns']) == 1 else (call['ret'][1] if m['returns'] else [])))[:120])
        check.fail(key, '%s validator=%s %s [%s]: the function returned %r (out header %r); zeep\'s schema %s the response %s [zeep object: %s]' % (
            prot, val, m['name'], m['style'], want, want_h,
            ('could not parse (%s)' % err) if err else 'reads %r (out header %r) from' % (got, got_h),
            (zs.received or b'').decode('utf-8', 'replace')[:500], repr(ser)[:300]),
            call_replay(w, prot, val, m, call, {'client': 'zeep'}))


def zeep_result(zs, w, app, m, body):
    """the response element as parsed by zeep's schema (serialize_object'ed) -> the neutral return value, normalised"""
    desc, classes = w.desc, w.classes
    d = X.method_descriptor(app, m['name'])
    rets = m['returns']
    if not rets:
        return ('none',)
    if m['style'] == 'wrapped':
        keys = list(d.out_message._type_info.keys())
        if not isinstance(body, dict):
            return ('other', 'zeep-wrapper', repr(body)[:80])
        vals = [X.norm_field_value(desc, r, zs.field_from_zeep(desc, classes, r, d.out_message._type_info[k], body.get(k)))
                for r, k in zip(rets, keys)]
        return vals[0] if len(rets) == 1 else ('list', vals)
    r = rets[0]
    return X.norm_value(desc, r['ty'], zs.from_zeep(desc, classes, r['ty'], d.out_message, body))


def stored_response_case(check, w, app, sc, prot, val, m, call, raw):
    """the Spyne client reads exactly the stored response document: the value and out headers the function returned?"""
    desc, classes = w.desc, w.classes
    d = X.method_descriptor(app, m['name'])
    try:
        r, ih = Z.client_read(sc, m['name'], raw)
    except Exception as e:
        check.fail('C01|call|client-stored-response|%s|%s' % (prot, type(e).__name__),
                   'the Spyne client fails on the stored response: %r for %s' % (e, raw.decode()[:500]),
                   call_replay(w, prot, val, m, call, {'client': 'spyne', 'response': raw.decode('utf-8', 'replace')}))
        return
    rets = m['returns']
    keys = list(d.out_message._type_info.keys())
    if not rets:
        got = ('none',)
    elif len(rets) == 1:
        got = X.norm_field_value(desc, rets[0], X.field_from_native(desc, classes, rets[0], r))
    else:
        got = ('list', [X.norm_field_value(desc, rr, X.field_from_native(desc, classes, rr, getattr(r, k, None))) for rr, k in zip(rets, keys)])
    want = expected_return(desc, m, call)
    want_h = expected_out_header(desc, m, call, prot)
    if ih is None:
        got_h = None
    elif len(m['out_header']) == 1:
        got_h = [X.norm_value(desc, ('ref', m['out_header'][0]), X.from_native(desc, classes, ('ref', m['out_header'][0]), ih))]
    else:
        got_h = [X.norm_value(desc, ('ref', c), X.from_native(desc, classes, ('ref', c), x)) for c, x in zip(m['out_header'], ih)]
    none_like = lambda hh: hh is None or all(v == ('none',) for v in hh)
    print('stored response read by the Spyne client as %r / %r (the function returned %r / %r)' % (got, got_h, want, want_h))
    ok = X.eq_value(got, want) and ((none_like(got_h) and none_like(want_h)) or (
        got_h is not None and want_h is not None and len(got_h) == len(want_h) and all(X.eq_value(a, b) for a, b in zip(got_h, want_h))))
    if not ok:
        check.fail('C01|call|client-stored-response|%s|changed-reading' % prot,
                   'the function returned %r (out header %r); the Spyne client reads %r (in_header %r) from %s' % (
                       want, want_h, got, got_h, raw.decode('utf-8', 'replace')[:500]),
                   call_replay(w, prot, val, m, call, {'client': 'spyne', 'response': raw.decode('utf-8', 'replace')}))


def spyne_client_case(check, w, app, sc, plan, prot, val, m, call):
    desc, classes = w.desc, w.classes
    d = X.method_descriptor(app, m['name'])
    plan_call(plan, desc, classes, m, call)
    proc = getattr(sc.service, m['name'])
    proc = proc if not isinstance(proc, type) else proc
    try:
        hdr = None
        if call['in_header'] is not None and m['in_header'] and prot != 'xml':
            hdr = [X.to_native(desc, classes, v) for v in call['in_header']]
        sc.set_options(out_header=hdr)
        proc = getattr(sc.service, m['name'])
        pos, kw = call_shape(check.rng, desc, m, call)
        call = dict(call, shape=[pos, [list(x) for x in kw]])          # (the replay repeats exactly this call)
        r = proc(*[X.to_native(desc, classes, a) for a in pos], **dict((k, X.to_native(desc, classes, a)) for k, a in kw))
    except Exception as e:
        check.fail(call_key('spyne-client-raised', prot, val, m, call, desc),
                   '%s validator=%s %s [%s]: the Spyne client could not complete the call with arguments %r: %r (sent %s)' % (
                       prot, val, m['name'], m['style'], call['args'], e, (getattr(proc, 'sent', b'') or b'')[:400]),
                   call_replay(w, prot, val, m, call, {'client': 'spyne'}))
        return
    log = captured_log(desc, classes, w.svc, plan)
    c2 = dict(call)
    if hdr is None:
        c2['in_header'] = None
    if not oracle_server_case(check, w, prot, val, m, c2, proc.sent, ('return', proc.received), log, 'spyne-client'):
        return
    rets = m['returns']
    keys = list(d.out_message._type_info.keys())
    if not rets:
        got = ('none',)
    elif len(rets) == 1:
        got = X.norm_field_value(desc, rets[0], X.field_from_native(desc, classes, rets[0], r))
    else:
        got = ('list', [X.norm_field_value(desc, rr, X.field_from_native(desc, classes, rr, getattr(r, k, None))) for rr, k in zip(rets, keys)])
    want = expected_return(desc, m, call)
    ih = proc.ctx.in_header
    want_h = expected_out_header(desc, m, call, prot)
    if ih is None:
        got_h = None
    elif len(m['out_header']) == 1:
        got_h = [X.norm_value(desc, ('ref', m['out_header'][0]), X.from_native(desc, classes, ('ref', m['out_header'][0]), ih))]
    else:
        got_h = [X.norm_value(desc, ('ref', c), X.from_native(desc, classes, ('ref', c), x)) for c, x in zip(m['out_header'], ih)]
    if want_h == [('none',)]:
        want_h = None
    ok = X.eq_value(got, want) and ((got_h is None) == (want_h is None)) and \
        (want_h is None or (len(got_h) == len(want_h) and all(X.eq_value(a, b) for a, b in zip(got_h, want_h))))
    if not ok:
        key = 'C01|call|response-spyne-client|%s|%s' % (m['style'], ';'.join(
            shape_of(desc, rr['ty'], v) or v[0] for rr, v in zip(rets, [call['ret']] if len(rets) == 1 else (call['ret'][1] if rets else [])))[:120])
        check.fail(key, '%s validator=%s %s: the function returned %r (out header %r); the Spyne client returned %r (in_header %r) from %s' % (
            prot, val, m['name'], want, want_h, got, got_h, proc.received.decode('utf-8', 'replace')[:500]),
            call_replay(w, prot, val, m, call, {'client': 'spyne'}))
