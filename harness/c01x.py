"""C01 helper: type universes and services for the XmlX / Call models (coq/C01/Univ.v, Call.v).

One description (plain dicts) is rendered as real Spyne classes and services (build_classes,
build_app), as Gallina terms (g_universe, g_service, g_val) and, for the oracle, read by an
independent schema-directed encoder/decoder (ref_encode, ref_decode).  Every random choice
comes from the rng passed in.

  desc  = {'tns': str, 'classes': [ {'ns', 'name', 'parent': int|None, 'fields': [FIELD]} ]}
  FIELD = {'name', 'ty': TY, 'min': int, 'max': int|None (unbounded), 'nillable': bool, 'kind': 'elem'|'attr'|'data'}
  TY    = ('leaf', LEAF) | ('ref', cid) | ('arr', TY)
  LEAF  = {'k': kind, 'cls': name of the class in spyne.model.primitive / spyne.model.binary, 'cust': {facet: value}}
          kinds with a Coq model: int text bool bytes date time datetime dur;
          oracle-only kinds: dec dbl uuid (and text with facets)
  value = ('none',) | (kind, payload) | ('obj', cid, [values]) | ('list', [values])
  svc   = {'methods': [ {'name', 'style': 'wrapped'|'bare'|'out_bare', 'params': [FIELD], 'returns': [FIELD],
                         'in_header': [cid], 'out_header': [cid]} ]}
"""
import datetime, decimal, uuid, math
from lib import gz, gtext, glist, gbool, gopt

XSI = 'http://www.w3.org/2001/XMLSchema-instance'
NS_SOAP11 = 'http://schemas.xmlsoap.org/soap/envelope/'
NS_SOAP12 = 'http://www.w3.org/2003/05/soap-envelope'
MODEL_KINDS = ('int', 'text', 'bool', 'bytes', 'date', 'time', 'datetime', 'dur')
INT_CLASSES = ['Integer', 'UnsignedInteger', 'Integer8', 'Integer16', 'Integer32', 'Integer64',
               'UnsignedInteger8', 'UnsignedInteger16', 'UnsignedInteger32', 'UnsignedInteger64']
TEXT_POOL = ['', 'a', 'hello', 'x y', ' lead', 'trail ', '<&>"\'', 'ünï', '中文', '0', 'true', 'None', 'a\nb',
             '\U0001f600', ']]>', 'tab\there']
INT_POOL = [0, 1, -1, 7, 255, 256, -128, 127, -129, 2 ** 31 - 1, 2 ** 31, -2 ** 31, 2 ** 63, 2 ** 63 - 1, -2 ** 63, 2 ** 64 - 1,
            2 ** 64, 10 ** 30, -10 ** 30, 65535, 32767, -32768, 2 ** 32 - 1]
# the boundary values of every leaf type are those of the C08 generators (c08.int_values / dt_values / dur_values / family_binary)
INT_EDGE = sorted(set([9, 10, 11, 99, 100, 101, -9, -10, -99, -100]
                      + [s * 2 ** k + d for k in (7, 8, 15, 16, 31, 32, 63, 64, 100, 128) for d in (-2, -1, 0, 1, 2) for s in (1, -1)]
                      + [s * 10 ** k + d for k in (1, 2, 3, 5, 9, 10, 18, 19, 20, 38, 39) for d in (-1, 0, 1) for s in (1, -1)]))
US_EDGE = [0, 1, 5, 9, 10, 99, 100, 999, 1000, 9999, 10000, 99999, 100000, 120000, 123000, 123400, 123450, 123456, 500000, 999999, 249, 248,
           250000, 999990]
OFF_EDGE = [None, None, None, 0, 0, 1, -1, 30, -30, 59, -59, 60, -60, 61, -61, 289, -289, 330, -330, 345, 570, -570, -210, 720, -720,
            839, -839, 840, -840]
DUR_DAYS = [0, 0, 0, 1, 3, 30, 400, 999999999]
DUR_SECS = [0, 0, 1, 59, 60, 61, 3599, 3600, 3601, 3661, 86399]
DUR_US = [0, 0, 1, 5, 249, 1000, 99999, 100000, 500000, 999999]
BYTES_EDGE = [b'', b'a', b'ab', b'abc', b'abcd', b'\x00', b'\xff', b'\x00\x00\x00', b'\xff\xff\xff', b'\xfb\xff\xbf', b'\xfb', b'\xfb\xf0',
              b'\x3e\x3f', b'\xf8', b'\xfc', b'\x00\xff\x80', bytes(range(0, 256, 7)), bytes(range(256))]


def spyne_leaf_class(name):
    import spyne.model.primitive as P
    import spyne.model.binary as B
    return getattr(P, name, None) or getattr(B, name)


# ------------------------------------------------------------------ leaf types
def int_bounds(leaf):
    """inclusive range of conformant values of an integer leaf (None = unbounded)"""
    cn = leaf['cls']
    lo = hi = None
    if cn[-1].isdigit():
        bits = int(''.join(ch for ch in cn if ch.isdigit()))
        if cn.startswith('Unsigned'):
            lo, hi = 0, 2 ** bits - 1
        else:
            lo, hi = -2 ** (bits - 1), 2 ** (bits - 1) - 1
    elif cn == 'UnsignedInteger':
        lo = 0
    c = leaf.get('cust', {})
    for k, v in c.items():
        if k == 'ge':
            lo = v if lo is None else max(lo, v)
        elif k == 'gt':
            lo = v + 1 if lo is None else max(lo, v + 1)
        elif k == 'le':
            hi = v if hi is None else min(hi, v)
        elif k == 'lt':
            hi = v - 1 if hi is None else min(hi, v - 1)
    return lo, hi


def gen_leaf_type(rng, model_only=True, allow_cust=True, simple_content=False):
    """simple_content: the leaf is the base of an xs:simpleContent extension or an attribute type; Uuid is left out
    there (its simple type lives in the spyne.io schema, which the generated schema then fails to resolve)"""
    leaf = _gen_leaf_type(rng, model_only, allow_cust)
    while simple_content and leaf['k'] == 'uuid':
        leaf = _gen_leaf_type(rng, model_only, allow_cust)
    return leaf


def _gen_leaf_type(rng, model_only=True, allow_cust=True):
    r = rng.random()
    if r < 0.30:
        leaf = {'k': 'int', 'cls': rng.choice(INT_CLASSES if rng.random() < 0.6 else ['Integer']), 'cust': {}}
        if allow_cust and rng.random() < 0.35:
            lo, hi = int_bounds(leaf)
            a = rng.choice([-1000, -5, 0, 1, 10])
            b = a + rng.choice([0, 1, 7, 100, 10 ** 6])
            if lo is not None:
                a = max(a, lo)
            if hi is not None:
                b = min(b, hi)
            if a <= b:
                w = rng.random()
                if w < 0.3:
                    leaf['cust'] = {'ge': a, 'le': b}
                elif w < 0.5 and (lo is None or a - 1 >= lo) and (hi is None or b + 1 <= hi):
                    leaf['cust'] = {'gt': a - 1, 'lt': b + 1}      # XSD wants facet values inside the base type
                elif w < 0.7:
                    leaf['cust'] = {'ge': a}
                else:
                    leaf['cust'] = {'values': sorted(set([a, b, (a + b) // 2]))}
        return leaf
    if r < 0.50:
        leaf = {'k': 'text', 'cls': 'Unicode', 'cust': {}}
        if not model_only and allow_cust and rng.random() < 0.4:
            leaf['cust'] = rng.choice([{'max_len': 8}, {'min_len': 1, 'max_len': 12}, {'pattern': '[a-z0-9 ]*'},
                                       {'values': ['a', 'hello', 'x y']}])
        return leaf
    if r < 0.58:
        return {'k': 'bool', 'cls': 'Boolean', 'cust': {}}
    if r < 0.66:
        return {'k': 'bytes', 'cls': 'ByteArray', 'cust': {}}
    if r < 0.73:
        return {'k': 'date', 'cls': 'Date', 'cust': {}}
    if r < 0.79:
        return {'k': 'time', 'cls': 'Time', 'cust': {}}
    if r < 0.88:
        return {'k': 'datetime', 'cls': 'DateTime', 'cust': {}}
    if r < 0.94 or model_only:
        return {'k': 'dur', 'cls': 'Duration', 'cust': {}}
    w = rng.random()
    if w < 0.45:
        leaf = {'k': 'dec', 'cls': 'Decimal', 'cust': {}}
        if allow_cust and rng.random() < 0.3:
            leaf['cust'] = rng.choice([{'ge': decimal.Decimal('-10.5'), 'le': decimal.Decimal('1000')}, {'gt': decimal.Decimal(0)}])
        return leaf
    if w < 0.8:
        return {'k': 'dbl', 'cls': 'Double', 'cust': {}}
    return {'k': 'uuid', 'cls': 'Uuid', 'cust': {}}


def gen_leaf_value(rng, leaf):
    k = leaf['k']
    if k == 'int':
        lo, hi = int_bounds(leaf)
        vals = leaf.get('cust', {}).get('values')
        if vals:
            return ('int', rng.choice(vals))
        pool = [z for z in INT_POOL + [rng.randint(-10 ** 6, 10 ** 6)] + rng.sample(INT_EDGE, 12)
                if (lo is None or z >= lo) and (hi is None or z <= hi)]
        for b in (lo, hi):
            if b is not None:
                pool.extend([b, b])
        if lo is not None and hi is not None:
            pool.append(rng.randint(lo, hi))
        return ('int', rng.choice(pool))
    if k == 'text':
        c = leaf.get('cust', {})
        if c.get('values'):
            return ('text', rng.choice(c['values']))
        pool = TEXT_POOL + [''.join(rng.choice('abc XYZ09') for _ in range(rng.randint(1, 8)))]
        if 'pattern' in c:
            pool = ['', 'abc', 'a b 9', 'zz00']
        pool = [s for s in pool if c.get('min_len', 0) <= len(s) <= c.get('max_len', 10 ** 9)]
        return ('text', rng.choice(pool))
    if k == 'bool':
        return ('bool', rng.random() < 0.5)
    if k == 'bytes':
        return ('bytes', rng.choice(BYTES_EDGE + [bytes(rng.randrange(256) for _ in range(rng.choice([1, 2, 3, 4, 5, 6, 7, 30, 31, 32, 58, 100])))
                                                  for _ in range(6)]))
    if k == 'date':
        return ('date', gen_date(rng, top=True))
    if k == 'time':
        return ('time', gen_time(rng))
    if k == 'datetime':
        off = rng.choice(OFF_EDGE)
        return ('datetime', gen_date(rng) + gen_time(rng) + (off,))
    if k == 'dur':
        # every shape of the (days, seconds, microseconds) fields, zero / non-zero each, both signs; timedelta's own range
        d, s, us = rng.choice(DUR_DAYS), rng.choice(DUR_SECS), rng.choice(DUR_US)
        if rng.random() < 0.2:
            d, s, us = rng.choice([0, rng.randint(0, 400)]), rng.randint(0, 86399), rng.choice([0, rng.randint(0, 999999)])
        n = (d * 86400 + s) * 10 ** 6 + us
        if rng.random() < 0.35:
            n = max(-n, -999999999 * 86400 * 10 ** 6)
        return ('dur', n)
    if k == 'dec':
        c = leaf.get('cust', {})
        # (values whose str() is in scientific notation are C08's known finding, not repeated here)
        pool = [decimal.Decimal(s) for s in ('0', '1', '-1', '1.5', '-0.001', '3.14159', '100', '0.000001', '12345678901234567890.123',
                                            '0.10', '-10.5', '1000', '-0.0', '99999999999999999999999999999.5')]
        pool = [d for d in pool if ('ge' not in c or d >= c['ge']) and ('le' not in c or d <= c['le']) and ('gt' not in c or d > c['gt'])]
        return ('dec', rng.choice(pool))
    if k == 'dbl':
        # +-INF are left to C05/C08: soft validation refuses them (lt/gt default to the infinities, exclusively)
        return ('dbl', rng.choice([0.0, 1.0, -1.5, 0.1, 1e22, 1e-5, 1.7976931348623157e308, 5e-324, 123456.789, -2.5e-300,
                                   rng.random() * 1000]))
    if k == 'uuid':
        return ('uuid', str(uuid.UUID(int=rng.getrandbits(128))))
    raise ValueError(k)


def gen_date(rng, top=False):
    y = rng.choice([1000, 1900, 1970, 1999, 2000, 2020, 2024, 2100, 9998, rng.randint(1000, 9998)])   # (zeep prints years < 1000 unpadded)
    if top and rng.random() < 0.1:
        y = 9999
    m = rng.randint(1, 12)
    leap = (y % 4 == 0 and y % 100 != 0) or y % 400 == 0
    dim = [31, 29 if leap else 28, 31, 30, 31, 30, 31, 31, 30, 31, 30, 31][m - 1]
    return (y, m, rng.choice([1, dim, rng.randint(1, dim)]))


def gen_time(rng):
    return (rng.choice([0, 23, rng.randint(0, 23)]), rng.choice([0, 59, rng.randint(0, 59)]), rng.choice([0, 59, rng.randint(0, 59)]),
            rng.choice([0, 0, 0, rng.randint(0, 999999)] + rng.sample(US_EDGE, 4)))


# ------------------------------------------------------------------ universes
def is_multi(f):
    return f['max'] is None or f['max'] > 1


def wname(f):
    """the local name of a member on the wire"""
    return f.get('sub_name') or f['name']


def flat_fields(desc, cid):
    c = desc['classes'][cid]
    base = flat_fields(desc, c['parent']) if c['parent'] is not None else []
    return base + c['fields']


def gen_universe(rng, n_classes=5, max_fields=4, tns='urn:t', namespaces=('urn:t', 'urn:u', 'urn:v'), model_only=True, allow_sub_ns=False,
                 shared_names=('id', 'name', 'value'), twins=False):
    """classes with inheritance, XmlAttribute members, wrapped arrays, max_occurs > 1 members, customised
    primitives, simpleContent classes (one XmlData member + attributes), member names shared between classes"""
    classes = []
    has_children = set()
    data_classes = set()
    for i in range(n_classes):
        if rng.random() < 0.15:                                   # an xs:simpleContent class
            fields = [{'name': 'f%d_d' % i, 'ty': ('leaf', gen_leaf_type(rng, model_only, allow_cust=False, simple_content=True)), 'min': 0, 'max': 1,
                       'nillable': True, 'kind': 'data'}]
            for j in range(rng.randint(0, 2)):
                fields.append({'name': 'f%d_%d' % (i, j), 'ty': ('leaf', gen_leaf_type(rng, model_only, simple_content=True)), 'min': rng.choice([0, 0, 1]),
                               'max': 1, 'nillable': True, 'kind': 'attr'})
                if rng.random() < 0.25:
                    fields[-1]['sub_name'] = 'w%d_%d' % (i, j)
            rng.shuffle(fields)
            classes.append({'ns': rng.choice(namespaces), 'name': 'K%d' % i, 'parent': None, 'fields': fields})
            data_classes.add(i)
            continue
        parent = None
        cands = [p for p in range(i) if p not in data_classes]
        crossing = any(c['parent'] is not None and c['ns'] != classes[c['parent']]['ns'] for c in classes)
        force = bool(cands) and not crossing and len(namespaces) > 1 and i >= n_classes - 2   # every universe has one crossing chain
        if cands and (force or rng.random() < 0.3):
            parent = rng.choice(cands)
            has_children.add(parent)
        # a subclass lives in its own namespace as often as in its base's: inherited members keep the namespace of
        # the class that DECLARES them ({base}a inside a {derived}K element), and chains cross namespaces
        ns = rng.choice(namespaces)
        if parent is not None and not force and rng.random() < 0.4:
            ns = classes[parent]['ns']
        if force:
            ns = rng.choice([n for n in namespaces if n != classes[parent]['ns']])
        taken = set(f['name'] for f in flat_fields({'classes': classes}, parent)) if parent is not None else set()
        fields = []
        for j in range(rng.randint(1, max_fields)):
            name = 'f%d_%d' % (i, j)
            if rng.random() < 0.25:
                nm = rng.choice(shared_names)
                if nm not in taken and nm not in [f['name'] for f in fields]:
                    name = nm
            if rng.random() < 0.55 or i == 0:
                ty = ('leaf', gen_leaf_type(rng, model_only))
            else:
                ty = ('ref', rng.randrange(i))
            kind = 'elem'
            mn, mx, nil = rng.choice([0, 0, 1]), 1, rng.random() < 0.6
            r = rng.random()
            if ty[0] == 'leaf' and r < 0.14:
                kind = 'attr'
            elif r < 0.32 and not (ty[0] == 'leaf' and ty[1]['cust']):
                ty = ('arr', ty)
            elif r < 0.50:
                mx = rng.choice([None, 2, 3])
                if mn == 1 and rng.random() < 0.3:
                    mn = 2 if mx != 2 else 1
            f = {'name': name, 'ty': ty, 'min': mn, 'max': mx, 'nillable': nil, 'kind': kind}
            # another name / namespace on the wire (Attributes.sub_name, sub_ns): read back through _type_info_alt
            if rng.random() < (0.18 if kind == 'elem' else 0.3):
                # (attributes too: the published schema names them by their sub_name as well, C01-9002)
                f['sub_name'] = 'w%d_%d' % (i, j)
            if allow_sub_ns and kind == 'elem' and rng.random() < 0.12:
                # only where no published schema is involved: the XSD emitter ignores sub_ns (known finding)
                f['sub_ns'] = rng.choice(['urn:w', 'urn:t'])
            fields.append(f)
        if force:
            # the crossing chain also carries renamed members: declared in the base, read through the subclass
            pf = [g for g in classes[parent]['fields'] if g['kind'] == 'elem']
            if pf and not any(g.get('sub_name') for g in classes[parent]['fields']):
                pf[0]['sub_name'] = 'w%d_b' % parent
                if allow_sub_ns and rng.random() < 0.5:
                    pf[0]['sub_ns'] = 'urn:w'
        classes.append({'ns': ns, 'name': 'K%d' % i, 'parent': parent, 'fields': fields})
    if twins and len(namespaces) > 1:
        # two classes sharing a type name across namespaces (SOAP header blocks must be told apart by {namespace}name)
        cand = [i for i in range(len(classes)) if i not in data_classes]
        if cand:
            q = rng.choice(cand)
            i = len(classes)
            fields = [{'name': 'f%d_%d' % (i, j), 'ty': ('leaf', gen_leaf_type(rng, model_only)), 'min': 0, 'max': 1,
                       'nillable': True, 'kind': 'elem'} for j in range(rng.randint(1, 2))]
            classes.append({'ns': rng.choice([n for n in namespaces if n != classes[q]['ns']]), 'name': classes[q]['name'],
                            'parent': None, 'fields': fields, 'twin_of': q})
    # a shared name must stay unique in every flattened class
    desc = {'tns': tns, 'classes': classes}
    for cid in range(len(classes)):
        names = [f['name'] for f in flat_fields(desc, cid)]
        seen = set()
        for f in flat_fields(desc, cid):
            if f['name'] in seen:
                f['name'] = f['name'] + '_%d' % cid
            seen.add(f['name'])
    return desc


def gen_service(rng, desc, n_methods=4, allow_headers=True, header_ns_tns=False, model_only=True):
    n = len(desc['classes'])
    plain = [i for i in range(n)]
    methods = []
    hdr_classes = [i for i in range(n) if not any(f['kind'] == 'data' for f in desc['classes'][i]['fields'])
                   and (not header_ns_tns or desc['classes'][i]['ns'] == desc['tns'])]

    def gen_param_type():
        r = rng.random()
        if r < 0.45 or n == 0:
            ty = ('leaf', gen_leaf_type(rng, model_only))
        else:
            ty = ('ref', rng.choice(plain))
        mn, mx, nil = rng.choice([0, 0, 1]), 1, rng.random() < 0.7
        r = rng.random()
        if r < 0.2 and not (ty[0] == 'leaf' and ty[1]['cust']):
            ty = ('arr', ty)
        elif r < 0.35:
            mx = rng.choice([None, 2, 3])
        return {'ty': ty, 'min': mn, 'max': mx, 'nillable': nil, 'kind': 'elem'}

    for i in range(n_methods):
        style = rng.choice(['wrapped', 'wrapped', 'wrapped', 'bare', 'out_bare'])
        if style == 'bare':
            params = [gen_param_type()] if rng.random() < 0.85 else []
            for p in params:
                p['max'] = 1                     # a bare parameter is the body element itself
        else:
            params = [gen_param_type() for _ in range(rng.choice([0, 1, 1, 2, 2, 3]))]
        for j, p in enumerate(params):
            p['name'] = 'a%d' % j if rng.random() < 0.7 else rng.choice(['id', 'name', 'value']) + str(j)
        if style == 'wrapped':
            returns = [gen_param_type() for _ in range(rng.choice([0, 1, 1, 1, 2, 3]))]
        else:
            returns = [gen_param_type()] if rng.random() < 0.85 else []
            for p in returns:
                p['max'] = 1
        for j, p in enumerate(returns):
            p['name'] = 'r%d' % j
        ih = oh = []
        twin = [i for i in hdr_classes if 'twin_of' in desc['classes'][i] and desc['classes'][i]['twin_of'] in hdr_classes]

        def pick():
            if twin and rng.random() < 0.6:          # same local name, different namespaces: both, or only one of the two
                t = rng.choice(twin)
                pair = [t, desc['classes'][t]['twin_of']]
                rng.shuffle(pair)
                return pair if rng.random() < 0.6 else pair[:1]
            return rng.sample(hdr_classes, min(len(hdr_classes), rng.choice([1, 1, 2])))
        if allow_headers and hdr_classes and rng.random() < 0.5:
            ih = pick()
        if allow_headers and hdr_classes and rng.random() < 0.4:
            oh = pick()
        methods.append({'name': 'op%d' % i, 'style': style, 'params': params, 'returns': returns, 'in_header': ih, 'out_header': oh})
    return {'methods': methods}


# ------------------------------------------------------------------ values
def nil_ok(desc, ty):
    """can None be written as an xsi:nil element of this type?  Not when the class has a required
    attribute: XML Schema validates the attributes of a nilled element too."""
    if ty[0] != 'ref':
        return True
    return not any(f['kind'] == 'attr' and f['min'] > 0 for f in flat_fields(desc, ty[1]))


def gen_value(rng, desc, ty, depth, nullable=True):
    """a value conforming to ty under the published schema (None only where allowed by the caller)"""
    if nullable and nil_ok(desc, ty) and rng.random() < 0.15:
        return ('none',)
    if ty[0] == 'leaf':
        return gen_leaf_value(rng, ty[1])
    if ty[0] == 'arr':
        n = 0 if depth <= 0 else rng.choice([0, 1, 2, 3])
        if not nil_ok(desc, ty[1]) and depth <= 1:
            n = 0
        return ('list', [gen_value(rng, desc, ty[1], depth - 1, True) for _ in range(n)])
    cid = ty[1]
    return ('obj', cid, [gen_field_value(rng, desc, f, depth - 1) for f in flat_fields(desc, cid)])


def nonelike(v):
    return v[0] == 'none' or v == ('bytes', b'')


def gen_field_value(rng, desc, f, depth):
    if f['kind'] in ('attr', 'data'):
        # simple content whose base type has no empty literal cannot be absent under the published schema
        must = f['kind'] == 'data' and f['ty'][1]['k'] not in ('text', 'bytes')
        if f['min'] <= 0 and not must and rng.random() < 0.35:
            return ('none',)
        return gen_leaf_value(rng, f['ty'][1])
    shallow = depth <= 0 and f['ty'][0] == 'ref'
    if not nil_ok(desc, f['ty']):
        # None can only be an absent element here
        if is_multi(f):
            lo = max(f['min'], 0)
            hi = 3 if f['max'] is None else f['max']
            n = rng.randint(lo, max(lo, hi)) if not shallow else lo
            return ('list', [gen_value(rng, desc, f['ty'], max(depth, 1), False) for _ in range(n)])
        if f['min'] <= 0 and (shallow or rng.random() < 0.25):
            return ('none',)
        return gen_value(rng, desc, f['ty'], max(depth, 1), False)
    if is_multi(f):
        if f['min'] <= 0 and rng.random() < 0.2:
            return ('none',)
        hi = 3 if f['max'] is None else f['max']
        lo = max(f['min'], 0)
        n = rng.randint(lo, max(lo, hi))
        if shallow:
            if f['nillable']:
                return ('list', [('none',)] * n) if n else (('none',) if f['min'] <= 0 else ('list', []))
            n = lo
        out = []
        for _ in range(n):
            v = gen_value(rng, desc, f['ty'], depth, f['nillable'])
            while nonelike(v) and not f['nillable']:
                v = gen_value(rng, desc, f['ty'], max(depth, 1), False)
                if v == ('bytes', b''):
                    v = ('bytes', b'x')
            out.append(v)
        return ('list', out)
    can_none = f['min'] <= 0 or f['nillable']
    if shallow and can_none:
        return ('none',)
    if can_none and rng.random() < 0.25:
        return ('none',)
    v = gen_value(rng, desc, f['ty'], max(depth, 1) if shallow else depth, False)
    if v == ('bytes', b'') and not f['nillable']:
        v = ('bytes', b'\x00')
    return v


def norm_value(desc, ty, v, kind='elem'):
    """Python mirror of XmlX.norm: the property's identifications"""
    if ty[0] == 'leaf':
        if v == ('bytes', b'') and kind in ('elem', 'data'):
            return ('none',)
        if v == ('text', '') and kind == 'data':
            return ('none',)
        return v
    if v[0] == 'list' and ty[0] == 'arr':
        return ('list', [norm_value(desc, ty[1], x) for x in v[1]])
    if v[0] == 'obj' and ty[0] == 'ref':
        out = []
        for f, x in zip(flat_fields(desc, v[1]), v[2]):
            if f['kind'] == 'elem' and is_multi(f):
                if x[0] == 'list':
                    x = ('none',) if not x[1] else ('list', [norm_value(desc, f['ty'], y) for y in x[1]])
            elif f['kind'] == 'elem':
                x = norm_value(desc, f['ty'], x)
            elif f['kind'] == 'data':
                x = norm_value(desc, f['ty'], x, 'data')
            out.append(x)
        return ('obj', v[1], out)
    return v


def norm_field_value(desc, f, x):
    if f['kind'] == 'elem' and is_multi(f):
        if x[0] == 'list':
            return ('none',) if not x[1] else ('list', [norm_value(desc, f['ty'], y) for y in x[1]])
        return x
    return norm_value(desc, f['ty'], x, f['kind'])


# ------------------------------------------------------------------ Spyne rendering
def build_classes(desc):
    """the list of real Spyne classes (index = cid)"""
    from spyne.model.complex import ComplexModel, ComplexModelMeta, Array, XmlAttribute, XmlData
    out = []

    def ty_of(ty):
        if ty[0] == 'leaf':
            T = spyne_leaf_class(ty[1]['cls'])
            if ty[1]['cust']:
                T = T.customize(**ty[1]['cust'])
            return T
        if ty[0] == 'ref':
            return out[ty[1]]
        return Array(ty_of(ty[1]))

    for c in desc['classes']:
        ti = []
        for f in c['fields']:
            ti.append((f['name'], member_type(f, ty_of)))
        base = ComplexModel if c['parent'] is None else out[c['parent']]
        out.append(ComplexModelMeta(str(c['name']), (base,), {'__namespace__': c['ns'], '_type_info': ti}))
    return out


def member_type(f, ty_of):
    from spyne.model.complex import XmlAttribute, XmlData
    t = ty_of(f['ty'])
    kw = {}
    if f['min'] != 0:
        kw['min_occurs'] = f['min']
    if not f['nillable']:
        kw['nillable'] = False
    if f['max'] != 1:
        kw['max_occurs'] = 'unbounded' if f['max'] is None else f['max']
    if f.get('sub_name'):
        kw['sub_name'] = f['sub_name']
    if f.get('sub_ns'):
        kw['sub_ns'] = f['sub_ns']
    if kw:
        t = t.customize(**kw)
    if f['kind'] == 'attr':
        t = XmlAttribute(t)
    elif f['kind'] == 'data':
        t = XmlData(t)
    return t


def make_ty_of(classes):
    from spyne.model.complex import Array

    def ty_of(ty):
        if ty[0] == 'leaf':
            T = spyne_leaf_class(ty[1]['cls'])
            if ty[1]['cust']:
                T = T.customize(**ty[1]['cust'])
            return T
        if ty[0] == 'ref':
            return classes[ty[1]]
        return Array(ty_of(ty[1]))
    return ty_of


def leaf_to_native(v):
    k = v[0]
    if k in ('int', 'text', 'bool', 'dec', 'dbl'):
        return v[1]
    if k == 'bytes':
        # a ByteArray value is a sequence of chunks: which chunking stands for the bytes is picked by the bytes themselves
        b = v[1]
        n = len(b)
        mode = (n + sum(b)) % 5
        if n == 0:
            return [[b''], [], (b'', b''), [b''], (b'',)][mode]
        if mode == 0:
            return [b]
        if mode == 1:
            return (b[:n // 2], b[n // 2:])
        if mode == 2:
            return [b[:1], b'', b[1:]]
        if mode == 3:
            return [b[:n // 3], b[n // 3:2 * n // 3], b[2 * n // 3:]]
        return tuple(bytes([x]) for x in b) if n <= 12 else (b[:7], b[7:8], b[8:])
    if k == 'date':
        return datetime.date(*v[1])
    if k == 'time':
        return datetime.time(*v[1])
    if k == 'datetime':
        import pytz
        y, m, d, h, mi, s, us, off = v[1]
        tz = None if off is None else pytz.FixedOffset(off)
        return datetime.datetime(y, m, d, h, mi, s, us, tzinfo=tz)
    if k == 'dur':
        return datetime.timedelta(microseconds=v[1])
    if k == 'uuid':
        return uuid.UUID(v[1])
    raise ValueError(v)


def to_native(desc, classes, v):
    k = v[0]
    if k == 'none':
        return None
    if k == 'list':
        return [to_native(desc, classes, x) for x in v[1]]
    if k == 'obj':
        kw = {}
        for f, x in zip(flat_fields(desc, v[1]), v[2]):
            kw[f['name']] = to_native(desc, classes, x)
        return classes[v[1]](**kw)
    return leaf_to_native(v)


def leaf_from_native(leaf, o):
    """native leaf value -> neutral form, by the declared kind; anything unexpected is ('other', ...)"""
    k = leaf['k']
    try:
        if k == 'int' and isinstance(o, int) and not isinstance(o, bool):
            return ('int', o)
        if k == 'text' and isinstance(o, str):
            return ('text', o)
        if k == 'bool' and isinstance(o, bool):
            return ('bool', o)
        if k == 'bytes':
            if isinstance(o, (bytes, bytearray)):
                return ('bytes', bytes(o))
            if isinstance(o, (list, tuple)) and all(isinstance(x, (bytes, bytearray)) for x in o):
                return ('bytes', b''.join(o))
        if k == 'date' and type(o) is datetime.date:
            return ('date', (o.year, o.month, o.day))
        if k == 'time' and isinstance(o, datetime.time) and o.tzinfo is None:
            return ('time', (o.hour, o.minute, o.second, o.microsecond))
        if k == 'datetime' and isinstance(o, datetime.datetime):
            off = o.utcoffset()
            if off is not None:
                tot = off.days * 86400 + off.seconds
                if tot % 60 or off.microseconds:
                    return ('other', 'datetime-offset', repr(o))
                off = tot // 60
            return ('datetime', (o.year, o.month, o.day, o.hour, o.minute, o.second, o.microsecond, off))
        if k == 'dur' and isinstance(o, datetime.timedelta):
            return ('dur', (o.days * 86400 + o.seconds) * 10 ** 6 + o.microseconds)
        if k == 'dec' and isinstance(o, decimal.Decimal):
            return ('dec', o)
        if k == 'dbl' and isinstance(o, float):
            return ('dbl', o)
        if k == 'uuid' and isinstance(o, uuid.UUID):
            return ('uuid', str(o))
    except Exception as e:      # pragma: no cover
        return ('other', type(o).__name__, repr(e))
    return ('other', type(o).__name__, repr(o)[:80])


def class_id(classes, cls):
    for i, c in enumerate(classes):
        k = cls
        while k is not None:
            if k is c:
                return i
            k = getattr(k, '__orig__', None)
    return None


def from_native(desc, classes, ty, o):
    """type-directed: native Spyne value -> neutral form"""
    if o is None:
        return ('none',)
    if ty[0] == 'leaf':
        return leaf_from_native(ty[1], o)
    if ty[0] == 'arr':
        if isinstance(o, (list, tuple)) or (hasattr(o, '__iter__') and not hasattr(o, '_type_info') and not isinstance(o, (str, bytes))):
            return ('list', [from_native(desc, classes, ty[1], x) for x in o])
        return ('other', type(o).__name__, repr(o)[:80])
    cid = class_id(classes, type(o))
    if cid is None:
        return ('other', type(o).__name__, repr(o)[:80])
    vals = []
    for f in flat_fields(desc, cid):
        x = getattr(o, f['name'], None)
        vals.append(field_from_native(desc, classes, f, x))
    return ('obj', cid, vals)


def field_from_native(desc, classes, f, x):
    if x is None:
        return ('none',)
    if f['kind'] == 'elem' and is_multi(f):
        if isinstance(x, (list, tuple)):
            return ('list', [from_native(desc, classes, f['ty'], y) for y in x])
        return ('other', type(x).__name__, repr(x)[:80])
    return from_native(desc, classes, f['ty'], x)


def in_universe(v):
    k = v[0]
    if k == 'other':
        return False
    if k == 'list':
        return all(in_universe(x) for x in v[1])
    if k == 'obj':
        return all(in_universe(x) for x in v[2])
    return True


def eq_value(a, b):
    """equality per type: numeric value, instant plus UTC offset, exact bytes, exact text"""
    if a[0] != b[0]:
        return False
    k = a[0]
    if k == 'none':
        return True
    if k == 'list':
        return len(a[1]) == len(b[1]) and all(eq_value(x, y) for x, y in zip(a[1], b[1]))
    if k == 'obj':
        return a[1] == b[1] and len(a[2]) == len(b[2]) and all(eq_value(x, y) for x, y in zip(a[2], b[2]))
    if k == 'dbl':
        return a[1] == b[1] or (math.isnan(a[1]) and math.isnan(b[1]))
    if k == 'dec':
        return a[1] == b[1]
    if k == 'uuid':
        return a[1].lower() == b[1].lower()
    return a[1] == b[1]


# ------------------------------------------------------------------ Gallina rendering
def g_int_type(cn):
    return ('(mk_int_type attrs_%s validate_native_%s validate_native_none_%s validate_string_%s validate_string_none_%s)'
            % ((cn,) * 5))


def g_ext(v):
    if isinstance(v, (float, decimal.Decimal)):
        if v == decimal.Decimal('inf') or v == float('inf'):
            return 'PosInf'
        if v == decimal.Decimal('-inf') or v == float('-inf'):
            return 'NegInf'
    return '(Fin %s)' % gz(int(v))


def g_num_attrs(T):
    """the Attributes of the class that exists (observed), as a Base.Ext.num_attrs record"""
    A = T.Attributes
    return ('{| na_nillable := %s; na_gt := %s; na_ge := %s; na_lt := %s; na_le := %s; na_values := %s; '
            'na_max_str_len := %s; na_min_bound := %s; na_max_bound := %s |}' % (
                gbool(A.nillable), g_ext(A.gt), g_ext(A.ge), g_ext(A.lt), g_ext(A.le),
                glist([gz(v) for v in sorted(A.values)]), g_ext(A.max_str_len),
                gopt(A.min_bound, gz), gopt(A.max_bound, gz)))


G_SPEC = {'text': 'SText', 'bool': 'SBool', 'bytes': 'SBytes', 'date': 'SDate', 'time': 'STime', 'datetime': 'SDateTime', 'dur': 'SDur'}


def g_ltype(leaf, T):
    """T: the Spyne type object of the member (customised), for its Attributes and type name"""
    from spyne.model import ModelBase
    tn = T.get_type_name()
    if tn is ModelBase.Empty:
        tn = ''
    if leaf['k'] == 'int':
        spec = '(SInt %s %s)' % (g_int_type(leaf['cls']), g_num_attrs(T))
    else:
        spec = G_SPEC[leaf['k']]
    return '(mkltype %s %s)' % (spec, gtext(tn))


def unwrap(T):
    """XmlAttribute(T) / XmlData(T) -> T"""
    from spyne.model.complex import XmlModifier
    while isinstance(T, type) and issubclass(T, XmlModifier):
        T = T.type
    return T


def g_ty(ty, T):
    """T: the Spyne type object found in the real _type_info at this position"""
    T = unwrap(T)
    if ty[0] == 'leaf':
        return '(TLeaf %s)' % g_ltype(ty[1], T)
    if ty[0] == 'ref':
        return '(TRef %d%%nat)' % ty[1]
    (mname, inner), = T._type_info.items()
    return '(TArr %s %s %s)' % (g_ty(ty[1], inner), gtext(T.get_namespace() or ''), gtext(mname))


G_KIND = {'elem': 'KElem', 'attr': 'KAttr', 'data': 'KData'}


def g_field(f, T):
    return '(mkfield %s %s %s %s %s %s %s %s)' % (gtext(f['name']), g_ty(f['ty'], T), gz(f['min']), gopt(f['max'], gz),
                                                  gbool(f['nillable']), G_KIND[f['kind']],
                                                  gopt(f.get('sub_name'), gtext), gopt(f.get('sub_ns'), gtext))


def g_universe(desc, classes):
    rows = []
    for c, cls in zip(desc['classes'], classes):
        fs = [g_field(f, cls._type_info[f['name']]) for f in c['fields']]
        rows.append('(mkcls %s %s %s %s)' % (gtext(c['ns']), gtext(c['name']), gopt(c['parent'], lambda p: '%d%%nat' % p), glist(fs)))
    return glist(rows)


def g_leaf(v):
    k = v[0]
    if k == 'int':
        return '(LInt %s)' % gz(v[1])
    if k == 'text':
        return '(LText %s)' % gtext(v[1])
    if k == 'bool':
        return '(LBool %s)' % gbool(v[1])
    if k == 'bytes':
        return '(LBytes %s)' % gtext(v[1])
    if k == 'date':
        return '(LDate (mkdate %s %s %s))' % tuple(gz(x) for x in v[1])
    if k == 'time':
        return '(LTime (mktod %s %s %s %s))' % tuple(gz(x) for x in v[1])
    if k == 'datetime':
        y, m, d, h, mi, s, us, off = v[1]
        return '(LDateTime (mkdt (mkdate %s %s %s) (mktod %s %s %s %s) %s))' % (gz(y), gz(m), gz(d), gz(h), gz(mi), gz(s), gz(us), gopt(off, gz))
    if k == 'dur':
        return '(LDur %s)' % gz(v[1])
    raise ValueError('leaf outside the modelled universe: %r' % (v,))


def g_val(v):
    k = v[0]
    if k == 'none':
        return 'VNone'
    if k == 'list':
        return '(VList %s)' % glist([g_val(x) for x in v[1]])
    if k == 'obj':
        return '(VObj %d%%nat %s)' % (v[1], glist([g_val(x) for x in v[2]]))
    return '(VLeaf %s)' % g_leaf(v)


def g_xml(e):
    """lxml element -> XmlX.xnode term"""
    from lxml import etree
    if not isinstance(e.tag, str):
        return 'XOther'
    q = etree.QName(e)
    atts = []
    for k, v in e.attrib.items():      # document order: two attributes may name the same member (its own key and its sub_name), the later one wins
        qa = etree.QName(k)
        atts.append('(%s, %s, %s)' % (gtext(qa.namespace or ''), gtext(qa.localname), gtext(v)))
    return '(XElt %s %s %s %s %s)' % (gtext(q.namespace or ''), gtext(q.localname), glist(atts),
                                      gopt(e.text, gtext), glist([g_xml(c) for c in e]))


def g_doc(e):
    """a node of a tree parsed with a parser that keeps everything -> Call.dnode term (character data: .text and the tails)"""
    from lxml import etree
    if e.tag is etree.Comment:
        return 'DComment'
    if e.tag is etree.ProcessingInstruction:
        return 'DPI'
    if not isinstance(e.tag, str):
        raise ValueError('node kind outside the document model: %r' % e)
    q = etree.QName(e)
    atts = []
    for k, v in e.attrib.items():      # document order: two attributes may name the same member (its own key and its sub_name), the later one wins
        qa = etree.QName(k)
        atts.append('(%s, %s, %s)' % (gtext(qa.namespace or ''), gtext(qa.localname), gtext(v)))
    content = ['(DText %s)' % gtext(e.text)] if e.text else []
    for c in e:
        content.append(g_doc(c))
        if c.tail:
            content.append('(DText %s)' % gtext(c.tail))
    return '(DElt %s %s %s %s)' % (gtext(q.namespace or ''), gtext(q.localname), glist(atts), glist(content))


def decorate(rng, root, n=None):
    """XML comments and processing instructions are not part of what a document denotes under XML Schema: put some
    between the items of arrays, between members, inside character data, in the envelope.  Returns what was done."""
    from lxml import etree
    elts = [e for e in root.iter() if isinstance(e.tag, str)]
    done = []
    for _ in range(n or rng.randint(1, 3)):
        e = rng.choice(elts)
        if rng.random() < 0.75:
            node = etree.Comment(rng.choice([' c ', ' 3 ', 'true', ' <x/> ', '', 'P1D', ' 2020-01-01 ']))
        else:
            node = etree.ProcessingInstruction('app', rng.choice(['x="1"', '7', 'abc']))
        if len(e) == 0 and e.text and rng.random() < 0.8:
            k = rng.randint(0, len(e.text))
            node.tail = e.text[k:] or None
            e.text = e.text[:k] or None
            e.insert(0, node)
            done.append('%s inside the text of %s' % ('comment' if node.tag is etree.Comment else 'PI', etree.QName(e).localname))
        else:
            e.insert(rng.randrange(len(e) + 1), node)
            done.append('%s among the children of %s' % ('comment' if node.tag is etree.Comment else 'PI', etree.QName(e).localname))
    return done


G_STYLE = {'wrapped': 'SWrapped', 'bare': 'SBare', 'out_bare': 'SOutBare'}


def g_service(desc, svc, app):
    """the service as a Call.service term; member types are read from the message classes the
    decorator built (so that Attributes and array member names are the ones that exist)"""
    rows = []
    for m in svc['methods']:
        d = method_descriptor(app, m['name'])
        ps = []
        if m['style'] == 'bare' and len(m['params']) == 1:
            ps.append(g_field(m['params'][0], d.in_message))
        else:
            for p in m['params']:
                ps.append(g_field(p, d.in_message._type_info[p['name']]))
        rs = []
        if m['style'] == 'wrapped':
            for p, T in zip(m['returns'], d.out_message._type_info.values()):
                rs.append(g_field(p, T))
        elif m['returns']:
            rs.append(g_field(m['returns'][0], d.out_message))
        rows.append('(mkmethod %s %s %s %s %s %s)' % (gtext(m['name']), G_STYLE[m['style']], glist(ps), glist(rs),
                                                      glist(['%d%%nat' % c for c in m['in_header']]),
                                                      glist(['%d%%nat' % c for c in m['out_header']])))
    return '(mkservice %s %s)' % (gtext(desc['tns']), glist(rows))


def method_descriptor(app, name):
    for k, ds in app.interface.service_method_map.items():
        for d in ds:
            if d.name == name:
                return d
    raise KeyError(name)


# ------------------------------------------------------------------ services on real Spyne
class Plan(object):
    """what the generated user functions do: record (method, ctx.in_header, args), return the planned
    value and set the planned ctx.out_header"""

    def __init__(self):
        self.log = []
        self.returns = {}      # method name -> native return value
        self.out_header = {}   # method name -> native out header (list) or None


def build_app(desc, svc, prot_cls, validator, plan, classes=None, out_kwargs=None):
    from spyne import Application, rpc, Service
    from spyne.service import ServiceMeta
    if classes is None:
        classes = build_classes(desc)
    ty_of = make_ty_of(classes)
    ns = {}
    for m in svc['methods']:
        def mk(m):
            def fn(ctx, *args):
                plan.log.append((m['name'], ctx.in_header, args))
                if plan.out_header.get(m['name']) is not None:
                    ctx.out_header = plan.out_header[m['name']]
                return plan.returns.get(m['name'])
            fn.__name__ = str(m['name'])
            return fn
        ptypes = [member_type(p, ty_of) for p in m['params']]
        kw = {'_args': [p['name'] for p in m['params']], '_body_style': m['style']}
        rts = [member_type(p, ty_of) for p in m['returns']]
        if len(rts) == 1:
            kw['_returns'] = rts[0]
        elif rts:
            kw['_returns'] = tuple(rts)
        if m['in_header']:
            kw['_in_header'] = tuple(classes[c] for c in m['in_header'])
        if m['out_header']:
            kw['_out_header'] = tuple(classes[c] for c in m['out_header'])
        ns[str(m['name'])] = rpc(*ptypes, **kw)(mk(m))
    S = ServiceMeta('GenService', (Service,), ns)
    app = Application([S], desc['tns'], in_protocol=prot_cls(validator=validator), out_protocol=prot_cls(**(out_kwargs or {})))
    return app, classes


# ------------------------------------------------------------------ replay files
def jsonable(o):
    """descriptions and neutral values -> JSON (tuples tagged, bytes / Decimal / float specials encoded)"""
    if isinstance(o, tuple):
        return {'__t': [jsonable(x) for x in o]}
    if isinstance(o, list):
        return [jsonable(x) for x in o]
    if isinstance(o, dict):
        return {str(k): jsonable(v) for k, v in o.items()}
    if isinstance(o, (bytes, bytearray)):
        return {'__b': bytes(o).hex()}
    if isinstance(o, decimal.Decimal):
        return {'__d': str(o)}
    if isinstance(o, float):
        return {'__f': repr(o)}
    return o


def unjson(o):
    if isinstance(o, list):
        return [unjson(x) for x in o]
    if isinstance(o, dict):
        if set(o) == {'__t'}:
            return tuple(unjson(x) for x in o['__t'])
        if set(o) == {'__b'}:
            return bytes.fromhex(o['__b'])
        if set(o) == {'__d'}:
            return decimal.Decimal(o['__d'])
        if set(o) == {'__f'}:
            return float(o['__f'])
        return {k: unjson(v) for k, v in o.items()}
    return o


# ------------------------------------------------------------------ independent schema-directed codec (oracle)
import re, base64


class DecodeError(Exception):
    pass


def _frac(us, rng=None):
    t = ('.%06d' % us).rstrip('0') if us else ''
    if rng is not None and rng.random() < 0.25:
        # trailing zeros (up to microsecond precision) and an explicit zero fraction are literals of the same value
        t = (t or '.') + '0' * rng.randint(1 if not t else 0, 7 - len(t or '.'))
    return t


def _off(off, rng=None):
    if off is None:
        return ''
    if off == 0 and rng is not None and rng.random() < 0.5:
        return 'Z'
    a = abs(off)
    return '%s%02d:%02d' % ('-' if off < 0 else '+', a // 60, a % 60)


def ref_leaf_text(v, rng=None):
    """canonical XSD literal of a neutral leaf value, written without Spyne; rng picks among the
    equivalent literals the schema allows (boolean 1/0, dateTime Z, trimmed fraction digits)"""
    k = v[0]
    if k == 'int':
        if rng is not None and v[1] >= 0 and rng.random() < 0.2:
            return '+%d' % v[1]                      # xs:integer allows an explicit plus sign
        return str(v[1])
    if k == 'text':
        return v[1]
    if k == 'bool':
        if rng is not None and rng.random() < 0.3:
            return '1' if v[1] else '0'
        return 'true' if v[1] else 'false'
    if k == 'bytes':
        t = base64.b64encode(v[1]).decode('ascii')
        if rng is not None and t and rng.random() < 0.35:
            # xs:base64Binary allows white space inside the literal: MIME-style line wrapping (base64.encodebytes,
            # Java getMimeEncoder, openssl: 76 or 64 columns; short literals are wrapped narrowly here) and padding
            w = rng.choice([76, 64, 4, 8]) if len(t) > 8 else 4
            t = '\n'.join(t[i:i + w] for i in range(0, len(t), w))
            if rng.random() < 0.5:
                t = rng.choice(['\n', ' ', '\n  ']) + t + rng.choice(['\n', ' ', ''])
        return t
    if k == 'date':
        return '%04d-%02d-%02d' % v[1]
    if k == 'time':
        h, mi, s, us = v[1]
        return '%02d:%02d:%02d%s' % (h, mi, s, _frac(us, rng))
    if k == 'datetime':
        y, m, d, h, mi, s, us, off = v[1]
        return '%04d-%02d-%02dT%02d:%02d:%02d%s%s' % (y, m, d, h, mi, s, _frac(us, rng), _off(off, rng))
    if k == 'dur':
        n = v[1]
        neg = n < 0
        a = -n if neg else n
        days, rem = divmod(a, 86400 * 10 ** 6)
        secs, us = divmod(rem, 10 ** 6)
        hh, r2 = divmod(secs, 3600)
        mm, ss = divmod(r2, 60)
        out = ('-' if neg else '') + 'P'
        if days:
            out += '%dD' % days
        t = ''
        if hh:
            t += '%dH' % hh
        if mm:
            t += '%dM' % mm
        if ss or us:
            t += '%d%sS' % (ss, _frac(us, rng if us else None))
        if t:
            out += 'T' + t
        if out in ('P', '-P'):
            out += 'T0S'
        return out
    if k == 'dec':
        return format(v[1], 'f')
    if k == 'dbl':
        f = v[1]
        if f != f:
            return 'NaN'
        if f in (float('inf'), float('-inf')):
            return 'INF' if f > 0 else '-INF'
        return repr(f)
    if k == 'uuid':
        return v[1]
    raise ValueError(v)


_WS = ' \t\n\r'
_RE_DATE = re.compile(r'^(\d{4})-(\d\d)-(\d\d)(Z|[+-]\d\d:\d\d)?$')
_RE_TIME = re.compile(r'^(\d\d):(\d\d):(\d\d)(\.\d+)?(Z|[+-]\d\d:\d\d)?$')
_RE_DT = re.compile(r'^(\d{4})-(\d\d)-(\d\d)T(\d\d):(\d\d):(\d\d)(\.\d+)?(Z|[+-]\d\d:\d\d)?$')
_RE_DUR = re.compile(r'^(-)?P(?:(\d+)Y)?(?:(\d+)M)?(?:(\d+)D)?(?:T(?:(\d+)H)?(?:(\d+)M)?(?:(\d+)(\.\d+)?S)?)?$')


def _us(frac):
    if not frac:
        return 0
    d = decimal.Decimal('0' + frac) * 10 ** 6
    if d != int(d):
        raise DecodeError('fraction finer than microseconds: %r' % frac)
    return int(d)


def _tz(s):
    if s is None:
        return None
    if s == 'Z':
        return 0
    m = int(s[1:3]) * 60 + int(s[4:6])
    return -m if s[0] == '-' else m


def ref_parse_leaf(leaf, text):
    """XSD literal -> neutral leaf value, without Spyne; DecodeError when the text is not a literal of the type"""
    k = leaf['k']
    t = text if text is not None else ''
    if k == 'text':
        return ('text', t)
    t = t.strip(_WS)                                     # whiteSpace=collapse of every non-string type
    try:
        if k == 'int':
            if not re.match(r'^[+-]?[0-9]+$', t):
                raise DecodeError('not an xs:integer: %r' % text)
            return ('int', int(t))
        if k == 'bool':
            if t in ('true', '1'):
                return ('bool', True)
            if t in ('false', '0'):
                return ('bool', False)
            raise DecodeError('not an xs:boolean: %r' % text)
        if k == 'bytes':
            return ('bytes', base64.b64decode(re.sub('[' + _WS + ']', '', t), validate=True))
        if k == 'date':
            m = _RE_DATE.match(t)
            if not m:
                raise DecodeError('not an xs:date: %r' % text)
            return ('date', (int(m.group(1)), int(m.group(2)), int(m.group(3))))
        if k == 'time':
            m = _RE_TIME.match(t)
            if not m or m.group(5):
                raise DecodeError('not a (zone-less) xs:time: %r' % text)
            return ('time', (int(m.group(1)), int(m.group(2)), int(m.group(3)), _us(m.group(4))))
        if k == 'datetime':
            m = _RE_DT.match(t)
            if not m:
                raise DecodeError('not an xs:dateTime: %r' % text)
            return ('datetime', tuple(int(m.group(i)) for i in range(1, 7)) + (_us(m.group(7)), _tz(m.group(8))))
        if k == 'dur':
            m = _RE_DUR.match(t)
            if not m or t in ('P', '-P') or t.endswith('T'):
                raise DecodeError('not an xs:duration: %r' % text)
            if m.group(2) or m.group(3):
                raise DecodeError('duration with years/months: %r' % text)
            n = ((int(m.group(4) or 0) * 24 + int(m.group(5) or 0)) * 60 + int(m.group(6) or 0)) * 60 + int(m.group(7) or 0)
            n = n * 10 ** 6 + _us(m.group(8))
            return ('dur', -n if m.group(1) else n)
        if k == 'dec':
            return ('dec', decimal.Decimal(t))
        if k == 'dbl':
            return ('dbl', {'INF': float('inf'), '-INF': float('-inf'), 'NaN': float('nan')}.get(t, None) if t in ('INF', '-INF', 'NaN') else float(t))
        if k == 'uuid':
            return ('uuid', str(uuid.UUID(t)))
    except DecodeError:
        raise
    except Exception as e:
        raise DecodeError('%s literal %r: %r' % (k, text, e))
    raise ValueError(k)


def array_member(T):
    """(namespace, name, inner type object) of the single member of an Array class that exists"""
    T = unwrap(T)
    (mname, inner), = T._type_info.items()
    return T.get_namespace(), mname, inner


def _q(ns, name):
    return '{%s}%s' % (ns, name) if ns else name


def ref_encode(desc, classes, ty, T, ns, name, v, rng, tns):
    """schema-directed XML of a conformant value: element {ns}name of declared type ty.
    T is the Spyne type object at this position (array member names / namespaces are read from the
    classes that exist, as a WSDL consumer would read them from the schema)."""
    from lxml import etree
    e = etree.Element(_q(ns, name))
    if v[0] == 'none':
        e.set('{%s}nil' % XSI, rng.choice(['true', 'true', '1']))
        return e
    if ty[0] == 'leaf':
        e.text = ref_leaf_text(v, rng)
        return e
    if ty[0] == 'arr':
        ans, mname, inner = array_member(T)
        if ans is None:
            ans = tns
        for x in v[1]:
            e.append(ref_encode(desc, classes, ty[1], inner, ans, mname, x, rng, tns))
        return e
    cid = v[1]
    ref_encode_members(desc, classes, cid, e, v[2], rng, tns)
    return e


def declaring(desc, cid):
    """[(declaring class id, field)] of the flattened members"""
    c = desc['classes'][cid]
    base = declaring(desc, c['parent']) if c['parent'] is not None else []
    return base + [(cid, f) for f in c['fields']]


def ref_encode_members(desc, classes, cid, e, vals, rng, tns, fields=None, ns_of=None, type_of=None):
    for (dcid, f), x in zip(fields if fields is not None else declaring(desc, cid), vals):
        fns = f.get('sub_ns') or (ns_of(dcid) if ns_of else desc['classes'][dcid]['ns'])   # the schema qualifies the member so
        T = type_of(dcid, f) if type_of else classes[dcid]._type_info[f['name']]
        if f['kind'] == 'attr':
            if x[0] != 'none':
                e.set(wname(f), ref_leaf_text(x, rng))
        elif f['kind'] == 'data':
            if x[0] != 'none':
                e.text = ref_leaf_text(x, rng)
        elif is_multi(f):
            if x[0] == 'list':
                for y in x[1]:
                    e.append(ref_encode(desc, classes, f['ty'], T, fns, wname(f), y, rng, tns))
        else:
            if x[0] == 'none':
                if f['min'] <= 0 and (not f['nillable'] or not nil_ok(desc, f['ty']) or rng.random() < 0.6):
                    continue                                   # absent optional element
            e.append(ref_encode(desc, classes, f['ty'], T, fns, wname(f), x, rng, tns))


def is_nil(e):
    return e.get('{%s}nil' % XSI) in ('true', '1')


def ref_decode(desc, classes, ty, T, e, tns, nillable=True):
    """schema-directed reading of element e of declared type ty -> neutral value (DecodeError if the
    element is not what the schema describes); nillable: whether the element declaration says so"""
    if is_nil(e):
        if not nillable:
            raise DecodeError('xsi:nil on element %s, which the schema does not declare nillable' % e.tag)
        if len(e) or (e.text or '').strip():
            raise DecodeError('nil element with content')
        return ('none',)
    if ty[0] == 'leaf':
        if len(e):
            raise DecodeError('child elements inside a simple-typed element %s' % e.tag)
        return ref_parse_leaf(ty[1], e.text)
    if ty[0] == 'arr':
        ans, mname, inner = array_member(T)
        if ans is None:
            ans = tns
        out = []
        for c in e:
            if c.tag != _q(ans, mname):
                raise DecodeError('array item %s, expected %s' % (c.tag, _q(ans, mname)))
            out.append(ref_decode(desc, classes, ty[1], inner, c, tns))
        return ('list', out)
    cid = ty[1]
    return ('obj', cid, ref_decode_members(desc, classes, cid, e, tns))


def ref_decode_members(desc, classes, cid, e, tns, fields=None, ns_of=None, type_of=None):
    kids = [c for c in e if isinstance(c.tag, str)]
    pos = 0
    vals = []
    used_atts = set()
    for dcid, f in (fields if fields is not None else declaring(desc, cid)):
        fns = f.get('sub_ns') or (ns_of(dcid) if ns_of else desc['classes'][dcid]['ns'])
        T = type_of(dcid, f) if type_of else classes[dcid]._type_info[f['name']]
        if f['kind'] == 'attr':
            if wname(f) in e.attrib:
                used_atts.add(wname(f))
                vals.append(ref_parse_leaf(f['ty'][1], e.attrib[wname(f)]))
            else:
                if f['min'] > 0:
                    raise DecodeError('required attribute %s missing' % wname(f))
                vals.append(('none',))
        elif f['kind'] == 'data':
            if kids:
                raise DecodeError('child elements in simple content')
            vals.append(ref_parse_leaf(f['ty'][1], e.text))
        else:
            items = []
            while pos < len(kids) and kids[pos].tag == _q(fns, wname(f)):
                items.append(ref_decode(desc, classes, f['ty'], T, kids[pos], tns, f['nillable']))
                pos += 1
            if len(items) < f['min']:
                raise DecodeError('%d occurrences of %s, minOccurs=%d' % (len(items), _q(fns, wname(f)), f['min']))
            if f['max'] is not None and len(items) > f['max']:
                raise DecodeError('%d occurrences of %s, maxOccurs=%d' % (len(items), f['name'], f['max']))
            if is_multi(f):
                vals.append(('list', items))
            else:
                vals.append(items[0] if items else ('none',))
    if pos != len(kids):
        raise DecodeError('unexpected element %s at position %d' % (kids[pos].tag, pos))
    for k in e.attrib:
        if k not in used_atts and not k.startswith('{'):
            raise DecodeError('undeclared attribute %s' % k)
    return vals


def soap_envelope(prot, headers, body):
    from lxml import etree
    if prot == 'xml':
        return body
    ns = NS_SOAP11 if prot == 'soap11' else NS_SOAP12
    env = etree.Element('{%s}Envelope' % ns)
    if headers is not None:
        h = etree.SubElement(env, '{%s}Header' % ns)
        for x in headers:
            h.append(x)
    etree.SubElement(env, '{%s}Body' % ns).append(body)
    return env


def soap_open(prot, doc):
    """(list of header elements or None, body element or None); DecodeError when doc is not an envelope"""
    if prot == 'xml':
        return None, doc
    ns = NS_SOAP11 if prot == 'soap11' else NS_SOAP12
    if doc.tag != '{%s}Envelope' % ns:
        raise DecodeError('not a %s envelope: %s' % (prot, doc.tag))
    hs = doc.findall('{%s}Header' % ns)
    bs = doc.findall('{%s}Body' % ns)
    if len(bs) != 1 or len(hs) > 1:
        raise DecodeError('envelope with %d Body / %d Header' % (len(bs), len(hs)))
    kids = [c for c in bs[0] if isinstance(c.tag, str)]
    return (list(hs[0]) if hs else None), (kids[0] if kids else None)
