"""C01 helper: the oracle's clients, all in-process.

  * wsgi_call: one request through spyne.server.wsgi.WsgiApplication (BytesIO wsgi.input);
  * ZeepSide: zeep driven from the WSDL the application publishes; its Transport subclass posts to
    the WsgiApplication and loads nothing but that WSDL;
  * SpyneClient: spyne.client.ClientBase / RemoteProcedureBase with the same transport
    (the request/response path of spyne/client/_base.py; wrapped body style only)."""
import io, datetime, decimal, uuid
import c01x as X


def wsgi_call(wapp, body, ctype, method='POST', path='/', query=''):
    st = {}

    def start_response(status, headers, exc_info=None):
        st['status'] = status
        st['headers'] = headers

    env = {'REQUEST_METHOD': method, 'PATH_INFO': path, 'QUERY_STRING': query, 'CONTENT_TYPE': ctype,
           'CONTENT_LENGTH': str(len(body)), 'wsgi.input': io.BytesIO(body), 'SERVER_NAME': 'verif.invalid', 'SERVER_PORT': '80',
           'wsgi.url_scheme': 'http', 'SCRIPT_NAME': '', 'wsgi.errors': io.StringIO()}
    it = wapp(env, start_response)
    try:
        out = b''.join(it)
    finally:
        if hasattr(it, 'close'):
            it.close()
    return st.get('status', ''), out


MIME = {'xml': 'text/xml; charset=utf-8', 'soap11': 'text/xml; charset=utf-8', 'soap12': 'application/soap+xml; charset=utf-8'}


# ------------------------------------------------------------------ zeep
class ZeepSide(object):
    URL = 'http://verif.invalid/'

    def __init__(self, app, wapp):
        import zeep, zeep.transports
        from spyne.interface.wsdl import Wsdl11
        w = Wsdl11(app.interface)
        w.build_interface_document(self.URL)
        self.wsdl = w.get_interface_document()
        side = self

        class T(zeep.transports.Transport):
            def load(self, url):
                if url.startswith(side.URL):
                    return side.wsdl
                raise IOError('no network in this sandbox: %s' % url)

            def post(self, address, message, headers):
                side.sent = message
                status, out = wsgi_call(wapp, message, headers.get('Content-Type', 'text/xml'))
                side.received = out

                class R(object):
                    pass
                r = R()
                r.status_code = int(status.split()[0])
                r.content = out
                r.headers = {'Content-Type': 'text/xml; charset=utf-8'}
                r.encoding = 'utf-8'
                return r

        self.sent = self.received = None
        self.client = zeep.Client(self.URL + '?wsdl', transport=T())

    # ---- neutral value -> what zeep's generated signature takes
    def to_zeep(self, desc, classes, ty, T, v):
        if v[0] == 'none':
            return None
        if ty[0] == 'leaf':
            return leaf_to_zeep(v)
        if ty[0] == 'arr':
            _, mname, inner = X.array_member(T)
            return {mname: [self.item_to_zeep(desc, classes, ty[1], inner, x) for x in v[1]]}
        return self.obj_to_zeep(desc, classes, v)

    def obj_to_zeep(self, desc, classes, v):
        d = {}
        for (dcid, f), x in zip(X.declaring(desc, v[1]), v[2]):
            T = classes[dcid]._type_info[f['name']]
            key = '_value_1' if f['kind'] == 'data' else X.wname(f)
            d[key] = self.field_to_zeep(desc, classes, f, T, x)
        return d

    def field_to_zeep(self, desc, classes, f, T, x):
        if f['kind'] == 'elem' and X.is_multi(f):
            if x[0] == 'none':
                return []
            return [self.item_to_zeep(desc, classes, f['ty'], T, y) for y in x[1]]
        return self.to_zeep(desc, classes, f['ty'], T, x)

    def item_to_zeep(self, desc, classes, ty, T, v):
        """an item of a sequence: zeep drops a plain None, xsd.Nil makes it write xsi:nil"""
        from zeep import xsd
        if v[0] == 'none':
            return xsd.Nil
        return self.to_zeep(desc, classes, ty, T, v)

    # ---- zeep result (after serialize_object) -> neutral value
    def from_zeep(self, desc, classes, ty, T, o):
        if o is None:
            return ('none',)
        if ty[0] == 'leaf':
            return leaf_from_zeep(ty[1], o)
        if ty[0] == 'arr':
            _, mname, inner = X.array_member(T)
            if isinstance(o, dict):
                items = o.get(mname)
            else:
                items = o
            if items is None:
                items = []
            if not isinstance(items, list):
                return ('other', 'zeep-array', repr(o)[:80])
            return ('list', [self.from_zeep(desc, classes, ty[1], inner, x) for x in items])
        if not isinstance(o, dict):
            fs = X.declaring(desc, ty[1])
            if len(fs) == 1 and fs[0][1]['kind'] == 'data':
                o = {'_value_1': o}                    # simple content without attributes: zeep hands out the bare value
            else:
                return ('other', 'zeep-object', repr(o)[:80])
        vals = []
        for dcid, f in X.declaring(desc, ty[1]):
            T2 = classes[dcid]._type_info[f['name']]
            key = '_value_1' if f['kind'] == 'data' else X.wname(f)
            vals.append(self.field_from_zeep(desc, classes, f, T2, o.get(key)))
        return ('obj', ty[1], vals)

    def field_from_zeep(self, desc, classes, f, T, x):
        if f['kind'] == 'elem' and X.is_multi(f):
            if x is None:
                return ('list', [])
            if not isinstance(x, list):
                return ('other', 'zeep-seq', repr(x)[:80])
            return ('list', [self.from_zeep(desc, classes, f['ty'], T, y) for y in x])
        return self.from_zeep(desc, classes, f['ty'], T, x)


def leaf_to_zeep(v):
    k = v[0]
    if k in ('int', 'text', 'bool', 'dec', 'dbl', 'bytes'):
        return v[1]
    if k == 'uuid':
        return v[1]
    return X.leaf_to_native(v)


def leaf_from_zeep(leaf, o):
    k = leaf['k']
    if k == 'uuid' and isinstance(o, str):
        try:
            return ('uuid', str(uuid.UUID(o)))
        except ValueError:
            return ('other', 'uuid', o)
    if k == 'int' and isinstance(o, decimal.Decimal) and o == int(o):
        return ('int', int(o))
    if k == 'dur':
        if isinstance(o, datetime.timedelta):
            return X.leaf_from_native(leaf, o)
        try:
            import isodate
            if isinstance(o, isodate.Duration) and not o.years and not o.months:
                return X.leaf_from_native(leaf, o.tdelta)
        except ImportError:
            pass
    if k == 'time' and isinstance(o, datetime.time) and o.tzinfo is not None:
        return ('other', 'time-with-zone', repr(o))
    return X.leaf_from_native(leaf, o)


# ------------------------------------------------------------------ the Spyne client, same transport
def make_spyne_client(app, wapp, prot):
    from spyne.client import ClientBase, RemoteProcedureBase, RemoteService

    class _RP(RemoteProcedureBase):
        def __call__(self, *args, **kwargs):
            self.ctx = self.contexts[0]
            self.get_out_object(self.ctx, args, kwargs)
            self.get_out_string(self.ctx)
            self.sent = b''.join(self.ctx.out_string)
            status, out = wsgi_call(wapp, self.sent, MIME[prot])
            self.received = out
            self.ctx.in_string = [out]
            self.get_in_object(self.ctx)
            if self.ctx.in_error is not None:
                raise self.ctx.in_error
            return self.ctx.in_object

    class Client(ClientBase):
        def __init__(self):
            ClientBase.__init__(self, 'http://verif.invalid/', app)
            self.service = RemoteService(_RP, 'http://verif.invalid/', app)

    return Client()


def client_read(sc, name, received):
    """the Spyne client's reading (get_in_object) of a given response document: (in_object, in_header)"""
    proc = getattr(sc.service, name)
    ctx = proc.contexts[0]
    ctx.in_string = [received]
    proc.get_in_object(ctx)
    if ctx.in_error is not None:
        raise ctx.in_error
    return ctx.in_object, ctx.in_header
